----------------------------- MODULE Trace_Lock -----------------------------
(***************************************************************************)
(* Trace validator for the lock protocol (C14), fed by                     *)
(* harness/src/bin/ldrive.rs.                                              *)
(*                                                                         *)
(* Lock events (recorded by the cfg(cfb_verif) RwLock wrapper; "acq" is    *)
(* logged while the guard is already held, "rel" while it is still held,   *)
(* the global order is a sequence number taken under the log's mutex) are  *)
(* replayed against the lock state of CfbLock:                             *)
(*   - a request by a thread that already holds a guard matches no action  *)
(*     of CfbLock under NonReentrant  -> FAIL C14 reentrant (this is the   *)
(*     schedule-independent hazard; whether the run happened to deadlock   *)
(*     does not matter);                                                   *)
(*   - acquisitions must respect mutual exclusion, the recorded hold depth *)
(*     must equal the model's.                                             *)
(* Call events (stamped from one atomic counter before and after each      *)
(* call) are checked for linearisability at the granularity the property   *)
(* states: every length a read-only call reports must be the length before *)
(* or after some whole handle operation overlapping the call.              *)
(* A run that stopped making progress ends with stalled = TRUE; it is a    *)
(* deadlock iff every unfinished thread is blocked in a lock request.      *)
(***************************************************************************)
EXTENDS Naturals, Integers, Sequences, FiniteSets, TLC, Json, IOUtils, TLCExt

Rec == ndJsonDeserialize(IOEnv.TRACE)

VARIABLES lk, lin, l, quiet
vars == <<lk, lin, l, quiet>>

Has(e, f) == f \in DOMAIN e
Fail(prop, rule, e) == PrintT(<<"FAIL", prop, rule, e.hi, (IF Has(e, "oi") THEN e.oi ELSE -1), l>>)
Note(what, e) == PrintT(<<"NOTE", what, e.hi, (IF Has(e, "oi") THEN e.oi ELSE -1), l>>)

Get(f, t, d) == IF t \in DOMAIN f THEN f[t] ELSE d
Put(f, t, v) == (t :> v) @@ f

Lk0 == [writer |-> 0, held |-> <<>>, pend |-> <<>>, bad |-> <<>>]
Lin0 == [cur |-> <<>>, infl |-> <<>>, cand |-> <<>>, open |-> {}]

HeldBy(s, t) == Get(s.held, t, 0) + (IF s.writer = t THEN 1 ELSE 0)
NoHolders(s) == s.writer = 0 /\ \A t \in DOMAIN s.held : s.held[t] = 0

(* One lock event applied to lock state s.  bad accumulates <<rule>> of     *)
(* violated requirements (at most the first of each kind is reported).      *)
LockStep(s, e) ==
  LET t == e.t
      depthOK == e.d = HeldBy(s, t)
      s1 == IF depthOK THEN s ELSE [s EXCEPT !.bad = Append(@, "depth@" \o e.site)]
  IN
  CASE e.k = "req_r" \/ e.k = "req_w" ->
         LET s2 == IF HeldBy(s1, t) = 0 THEN s1
                   ELSE [s1 EXCEPT !.bad = Append(@, "reentrant@" \o e.site)]
         IN [s2 EXCEPT !.pend = Put(@, t, e.k)]
    [] e.k = "acq_r" ->
         LET s2 == IF s1.writer = 0 \/ s1.writer = t THEN s1
                   ELSE [s1 EXCEPT !.bad = Append(@, "mutex@" \o e.site)]
         IN [s2 EXCEPT !.held = Put(@, t, Get(s2.held, t, 0) + 1), !.pend = Put(@, t, "")]
    [] e.k = "acq_w" ->
         LET others == \A u \in DOMAIN s1.held : u # t => s1.held[u] = 0
             s2 == IF s1.writer = 0 /\ others THEN s1
                   ELSE [s1 EXCEPT !.bad = Append(@, "mutex@" \o e.site)]
         IN [s2 EXCEPT !.writer = t, !.pend = Put(@, t, "")]
    [] e.k = "rel_r" ->
         [s1 EXCEPT !.held = Put(@, t, IF Get(s1.held, t, 0) > 0 THEN Get(s1.held, t, 0) - 1 ELSE 0)]
    [] e.k = "rel_w" ->
         [s1 EXCEPT !.writer = IF @ = t THEN 0 ELSE @]
    [] OTHER -> s1

RECURSIVE LockFold(_, _, _)
LockFold(s, evs, i) == IF i > Len(evs) THEN s ELSE LockFold(LockStep(s, evs[i]), evs, i + 1)

(* the program of a call: its lock steps as "R","r","W","w" *)
StepName(k) == CASE k = "acq_r" -> "R" [] k = "rel_r" -> "r" [] k = "acq_w" -> "W" [] k = "rel_w" -> "w" [] OTHER -> ""
Program(evs) == SelectSeq([i \in 1..Len(evs) |-> StepName(evs[i].k)], LAMBDA x : x # "")

ReportBad(old, new, e) ==
  \A i \in (Len(old.bad) + 1)..Len(new.bad) :
     IF quiet THEN TRUE ELSE Fail("C14", new.bad[i], e)

---------------------------------------------------------------------------
(* Linearisability of reported lengths *)
ExpectedPaths(call) ==
  CASE call = "entry.s1" -> {"/a/s1"}
    [] call = "entry.s2" -> {"/a/s2"}
    [] call = "walk" -> {"/a/s1", "/a/s2", "/a/b/t", "/k", "/m", "/z"}
    [] call = "read_storage" -> {"/a/s1", "/a/s2"}
    [] call = "walk_storage" -> {"/a/s1", "/a/s2", "/a/b/t"}
    [] call = "read_root_storage" -> {"/k", "/m", "/z"}
    [] OTHER -> {}

CandAt(s) == [p \in DOMAIN s.cur |->
                {s.cur[p]} \cup (IF s.infl # <<>> /\ s.infl[1] = p THEN {s.infl[2]} ELSE {})]

---------------------------------------------------------------------------
Init == lk = Lk0 /\ lin = Lin0 /\ l = 1 /\ quiet = FALSE

ResetStep(e) ==
  /\ lk' = Lk0
  /\ lin' = [Lin0 EXCEPT !.cur = [p \in {e.init[i][1] : i \in 1..Len(e.init)} |->
                                     (CHOOSE x \in {e.init[i] : i \in 1..Len(e.init)} : x[1] = p)[2]]]
  /\ quiet' = FALSE

CallStep(e) ==   \* extract mode: one call with its embedded lock events
  LET s2 == LockFold(lk, e.events, 1) IN
  /\ ReportBad(lk, s2, e)
  /\ (IF e.res = "ok" THEN TRUE ELSE Fail("C14", e.res \o ":" \o e.name, e))
  /\ PrintT(<<"PROGRAM", e.role, e.name, ToJson(Program(e.events))>>)
  /\ lk' = s2 /\ UNCHANGED lin
  /\ quiet' = (quiet \/ Len(s2.bad) > Len(lk.bad))

LockEv(e) ==
  LET s2 == LockStep(lk, e) IN
  /\ ReportBad(lk, s2, e)
  /\ lk' = s2 /\ UNCHANGED lin
  /\ quiet' = (quiet \/ Len(s2.bad) > Len(lk.bad))

HStart(e) ==
  /\ lin' = [lin EXCEPT !.infl = <<e.name, e.to>>,
                        !.cand = [t \in DOMAIN @ |->
                                    IF t \in lin.open THEN Put(@[t], e.name, @[t][e.name] \cup {e.to}) ELSE @[t]]]
  /\ UNCHANGED <<lk, quiet>>
HEnd(e) ==
  /\ (IF e.res = "ok" THEN TRUE ELSE Fail("C14", "handle-op-" \o e.res, e))
  /\ (IF e.res = "ok" /\ lin.infl # <<>> /\ e.len # lin.infl[2] THEN Fail("C14", "handle-len", e) ELSE TRUE)
  /\ lin' = [lin EXCEPT !.cur = IF e.res = "ok" /\ lin.infl # <<>> THEN Put(@, lin.infl[1], lin.infl[2]) ELSE @,
                        !.infl = <<>>]
  /\ UNCHANGED <<lk, quiet>>
RStart(e) ==
  /\ lin' = [lin EXCEPT !.cand = Put(@, e.t, CandAt(lin)), !.open = @ \cup {e.t}]
  /\ UNCHANGED <<lk, quiet>>
REnd(e) ==
  LET c == Get(lin.cand, e.t, <<>>)
      paths == {e.lens[i][1] : i \in 1..Len(e.lens)}
      okLens == \A i \in 1..Len(e.lens) :
                   e.lens[i][1] \in DOMAIN c /\ e.lens[i][2] \in c[e.lens[i][1]]
      okSet == (ExpectedPaths(e.call) # {}) => (paths = ExpectedPaths(e.call) /\ Len(e.lens) = Cardinality(paths))
  IN
  /\ (IF e.res = "ok" THEN TRUE ELSE Fail("C14", "panic:" \o e.call, e))
  /\ (IF e.res # "ok" \/ okLens THEN TRUE ELSE Fail("C14", "not-linearisable:" \o e.call, e))
  /\ (IF e.res # "ok" \/ okSet THEN TRUE ELSE Fail("C14", "listing:" \o e.call, e))
  /\ lin' = [lin EXCEPT !.open = @ \ {e.t}]
  /\ UNCHANGED <<lk, quiet>>

EndStep(e) ==
  LET fin == {e.finished[i] : i \in 1..Len(e.finished)}
      thr == {e.threads[i] : i \in 1..Len(e.threads)}
      unfinished == thr \ fin
      blocked == {t \in unfinished : Get(lk.pend, t, "") # ""}
      \* a thread that sits on a guard (shared or exclusive) while nothing moves is part of the explanation too: it is
      \* inside a library call that waits for something else than this lock (another lock the library took in the
      \* opposite order on another path, for instance) while others wait for the guard it holds
      holding == {t \in unfinished : Get(lk.held, t, 0) > 0 \/ lk.writer = t}
  IN
  /\ (IF ~e.stalled THEN TRUE
      ELSE IF unfinished # {} /\ blocked = unfinished THEN Fail("C14", "deadlock", e)
      ELSE IF unfinished # {} /\ blocked # {} /\ blocked \cup holding = unfinished THEN Fail("C14", "deadlock-through-another-lock", e)
      ELSE Note("stall-unexplained", e))
  /\ UNCHANGED <<lk, lin, quiet>>

Step ==
  /\ l <= Len(Rec)
  /\ LET e == Rec[l] IN
     CASE e.ev = "reset"   -> ResetStep(e)
       [] e.ev = "call"    -> CallStep(e)
       [] e.ev = "lock"    -> LockEv(e)
       [] e.ev = "h_start" -> HStart(e)
       [] e.ev = "h_end"   -> HEnd(e)
       [] e.ev = "r_start" -> RStart(e)
       [] e.ev = "r_end"   -> REnd(e)
       [] e.ev = "end"     -> EndStep(e)
  /\ l' = l + 1
Next == Step
Spec == Init /\ [][Next]_vars
Consumed == IF TLCGet("stats").diameter = Len(Rec) + 1 THEN TRUE
            ELSE PrintT(<<"STUCK", TLCGet("stats").diameter, Len(Rec)>>) /\ FALSE
=============================================================================
