------------------------------ MODULE CfbLock ------------------------------
(***************************************************************************)
(* The lock protocol of rust-cfb.  One reader-writer lock protects all     *)
(* allocator / directory state (lib.rs `minialloc: Arc<RwLock<..>>`); it   *)
(* is shared by the CompoundFile, by every Entries iterator (by reference) *)
(* and, weakly, by every Stream handle.                                    *)
(*                                                                         *)
(* Each public call is a PROGRAM: the sequence of lock steps it performs,  *)
(*     "R" request+acquire shared     "r" release shared                   *)
(*     "W" request+acquire exclusive  "w" release exclusive                *)
(* The programs are not written by hand: the harness (ldrive extract) runs *)
(* every read-only method and every handle operation single-threaded       *)
(* under the instrumented lock (cfg cfb_verif) and records the sequence;   *)
(* MC_Lock is instantiated with exactly those sequences.                   *)
(*                                                                         *)
(* Lock semantics are those of std's futex RwLock (writer preferring): a   *)
(* shared request is granted only if no writer holds AND no writer waits;  *)
(* an exclusive request is granted only if nobody holds.  A thread that    *)
(* cannot be granted waits; waiting threads are granted later in any       *)
(* order the rule allows.                                                  *)
(***************************************************************************)
EXTENDS Naturals, Sequences, FiniteSets, TLC

CONSTANTS Readers,        \* set of reader thread ids
          Handle,         \* the thread that owns the stream handles
          ReaderProgs,    \* set of programs of read-only calls
          HandleProgs,    \* set of programs of handle operations
          MaxCalls        \* calls per thread

Threads == Readers \cup {Handle}
None == "none"

VARIABLES pc,      \* thread -> index of the next step of its program
          prog,    \* thread -> current program (<<>> = between calls)
          left,    \* thread -> calls still to make
          writer,  \* thread holding the lock exclusively, or None
          held,    \* thread -> number of shared guards it holds
          waitW,   \* threads blocked in write()
          waitR    \* threads blocked in read()
vars == <<pc, prog, left, writer, held, waitW, waitR>>

ProgsOf(t) == IF t = Handle THEN HandleProgs ELSE ReaderProgs
Idle(t)    == prog[t] = <<>>
StepOf(t)  == prog[t][pc[t]]
Blocked(t) == t \in waitW \cup waitR
NoReaders  == \A u \in Threads : held[u] = 0

Init ==
  /\ pc = [t \in Threads |-> 1]
  /\ prog = [t \in Threads |-> <<>>]
  /\ left = [t \in Threads |-> MaxCalls]
  /\ writer = None
  /\ held = [t \in Threads |-> 0]
  /\ waitW = {} /\ waitR = {}

(* the thread finished a step: advance, or finish the call *)
Advance(t) ==
  IF pc[t] = Len(prog[t])
  THEN /\ prog' = [prog EXCEPT ![t] = <<>>] /\ pc' = [pc EXCEPT ![t] = 1]
  ELSE /\ pc' = [pc EXCEPT ![t] = @ + 1] /\ UNCHANGED prog

Start(t) ==
  /\ Idle(t) /\ left[t] > 0
  /\ \E p \in ProgsOf(t) :
       /\ p # <<>>
       /\ prog' = [prog EXCEPT ![t] = p]
  /\ pc' = [pc EXCEPT ![t] = 1]
  /\ left' = [left EXCEPT ![t] = @ - 1]
  /\ UNCHANGED <<writer, held, waitW, waitR>>

(* a call that takes no lock at all *)
StartEmpty(t) ==
  /\ Idle(t) /\ left[t] > 0 /\ <<>> \in ProgsOf(t)
  /\ left' = [left EXCEPT ![t] = @ - 1]
  /\ UNCHANGED <<pc, prog, writer, held, waitW, waitR>>

CanRead  == writer = None /\ waitW = {}
CanWrite == writer = None /\ NoReaders

ReqR(t) ==
  /\ ~Idle(t) /\ ~Blocked(t) /\ StepOf(t) = "R"
  /\ IF CanRead
     THEN /\ held' = [held EXCEPT ![t] = @ + 1] /\ Advance(t) /\ UNCHANGED waitR
     ELSE /\ waitR' = waitR \cup {t} /\ UNCHANGED <<held, pc, prog>>
  /\ UNCHANGED <<left, writer, waitW>>

GrantR(t) ==
  /\ t \in waitR /\ CanRead
  /\ waitR' = waitR \ {t}
  /\ held' = [held EXCEPT ![t] = @ + 1]
  /\ Advance(t)
  /\ UNCHANGED <<left, writer, waitW>>

ReqW(t) ==
  /\ ~Idle(t) /\ ~Blocked(t) /\ StepOf(t) = "W"
  /\ IF CanWrite
     THEN /\ writer' = t /\ Advance(t) /\ UNCHANGED waitW
     ELSE /\ waitW' = waitW \cup {t} /\ UNCHANGED <<writer, pc, prog>>
  /\ UNCHANGED <<left, held, waitR>>

GrantW(t) ==
  /\ t \in waitW /\ CanWrite
  /\ waitW' = waitW \ {t}
  /\ writer' = t
  /\ Advance(t)
  /\ UNCHANGED <<left, held, waitR>>

RelR(t) ==
  /\ ~Idle(t) /\ ~Blocked(t) /\ StepOf(t) = "r" /\ held[t] > 0
  /\ held' = [held EXCEPT ![t] = @ - 1]
  /\ Advance(t)
  /\ UNCHANGED <<left, writer, waitW, waitR>>

RelW(t) ==
  /\ ~Idle(t) /\ ~Blocked(t) /\ StepOf(t) = "w" /\ writer = t
  /\ writer' = None
  /\ Advance(t)
  /\ UNCHANGED <<left, held, waitW, waitR>>

AllDone == \A t \in Threads : Idle(t) /\ left[t] = 0
Finished == AllDone /\ UNCHANGED vars

ThreadStep(t) == Start(t) \/ StartEmpty(t) \/ ReqR(t) \/ GrantR(t) \/ ReqW(t) \/ GrantW(t)
                 \/ RelR(t) \/ RelW(t)
Next == (\E t \in Threads : ThreadStep(t)) \/ Finished
Spec == Init /\ [][Next]_vars /\ WF_vars(Next)

---------------------------------------------------------------------------
(* Safety of the lock itself (sanity of the model) *)
MutualExclusion ==
  /\ writer # None => NoReaders
  /\ \A t \in Threads : Blocked(t) => ~Idle(t)

(* C14, local form: no thread requests the lock while it holds a guard.    *)
(* Under a writer-preferring lock a re-entrant shared request deadlocks as *)
(* soon as a writer queues in between, for any number of readers; a        *)
(* request while holding the exclusive guard deadlocks on its own.         *)
NonReentrant ==
  \A t \in Threads :
    (~Idle(t) /\ ~Blocked(t) /\ StepOf(t) \in {"R", "W"}) => (held[t] = 0 /\ writer # t)

(* C14, global form: every call completes (deadlock freedom is checked by  *)
(* TLC's deadlock detection; Finished keeps the final state from counting).*)
Termination == <>[]AllDone
=============================================================================
