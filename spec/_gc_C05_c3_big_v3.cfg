SPECIFICATION Spec
CONSTANT Dict <- DictAll
CONSTANTS Ver = 3 Gaps = 1 SlotSlack = 1 MiniGaps = 1 Canonical = FALSE PairSample = 0
INVARIANT EmitCorruptions
CHECK_DEADLOCK FALSE
