------------------------------ MODULE MC_Tree ------------------------------
(***************************************************************************)
(* Bounded instance of CfbTree: exhaustive exploration of the abstract     *)
(* model over a focused alphabet, checking its invariants, and - through   *)
(* the action constraint EmitEdge - a generator: for every transition      *)
(* (state, op) of the state graph TLC prints the shortest operation        *)
(* sequence reaching the source state followed by op ("transition          *)
(* coverage", DESIGN 3.3 G1b).  The VIEW hides the history so that each    *)
(* abstract state is expanded once, with the first (BFS-shortest) history. *)
(***************************************************************************)
EXTENDS CfbTree, Json, IOUtils, TLCExt

CONSTANTS MaxNodes,      \* bound on tree size
          Names,         \* name ids used (subset of the dictionary)
          Emit           \* TRUE: print EDGE lines

DictFile == JsonDeserialize(IOEnv.DICT)      \* read once (see Trace_File)
DictAll == DictFile
MCDict  == [n \in Names |-> DictAll[n]]

VARIABLES st, hist, lastres
vars == <<st, hist, lastres>>
View == st

P1 == {<<n>> : n \in Names}
P2 == {<<m, n>> : m \in {"foo"} \cap Names, n \in Names}
Paths == P1 \cup P2
Sp(t) == [t |-> t, lead |-> TRUE, trail |-> FALSE]

Ops ==
  {[op |-> o, p |-> Sp(t)] :
     o \in {"create_storage", "create_stream", "create_new_stream", "create_storage_all",
            "remove_storage", "remove_stream", "remove_storage_all"},
     t \in Paths}
  \cup {[op |-> "remove_storage_all", p |-> Sp(<<>>)],
        [op |-> "create_storage", p |-> Sp(<<>>)],
        [op |-> "remove_storage", p |-> Sp(<<>>)],
        [op |-> "create_stream", p |-> Sp(<<"..">>)]}
  \cup {[op |-> "write", p |-> Sp(t), off |-> 0, runs |-> r] :
          t \in P1, r \in {<<<<1, 70>>>>, <<<<1, 5000>>>>}}
  \cup {[op |-> "set_len", p |-> Sp(t), n |-> 0] : t \in P1}

ApplyOp(s, e) ==
  CASE e.op = "create_storage"     -> CreateStorage(s, e.p, <<>>)
    [] e.op = "create_storage_all" -> CreateStorageAll(s, e.p, <<>>)
    [] e.op = "create_stream"      -> CreateStream(s, e.p)
    [] e.op = "create_new_stream"  -> CreateNewStream(s, e.p)
    [] e.op = "remove_storage"     -> RemoveStorage(s, e.p)
    [] e.op = "remove_stream"      -> RemoveStream(s, e.p)
    [] e.op = "remove_storage_all" -> RemoveStorageAll(s, e.p)
    [] e.op = "write"              -> WriteAt(s, e.p, e.off, e.runs)
    [] e.op = "set_len"            -> SetLen(s, e.p, e.n)

Init == st = InitState /\ hist = <<>> /\ lastres = [k |-> "ok", v |-> "unit"]

Do(e) == \E o \in ApplyOp(st, e) :
            /\ st' = o.st /\ lastres' = o.res /\ hist' = Append(hist, e)
Next == \E e \in Ops : Do(e)
Spec == Init /\ [][Next]_vars

Bound == Cardinality(DOMAIN st.tree) <= MaxNodes

EmitEdge == IF Emit THEN PrintT(<<"EDGE", ToJson(hist')>>) ELSE TRUE

(* Invariants of the abstract model *)
InvTree == TreeOK(st.tree)
(* sibling keys are unique by construction (the domain is a set of key paths); *)
(* listing is sorted: *)
InvSorted ==
  \A kp \in DOMAIN st.tree :
     LET cs == SortedChildren(st.tree, kp) IN
     \A i \in 1..(Len(cs) - 1) : KeyLess(Last(cs[i]), Last(cs[i + 1]))
(* C10 at the abstract level: a refused call is a stutter on the state *)
RefusalsStutter == [][lastres'.k = "err" => st' = st]_vars
(* every walk lists every node exactly once, parents before children *)
InvWalk ==
  LET w == WalkFrom(st.tree, <<>>) IN
  /\ ToSet(w) = DOMAIN st.tree /\ Len(w) = Cardinality(DOMAIN st.tree)
  /\ \A i \in 1..Len(w) : w[i] # <<>> => \E j \in 1..(i - 1) : w[j] = Front(w[i])
=============================================================================
