-------------------------------- MODULE Rle --------------------------------
(***************************************************************************)
(* Byte vectors in run-length form: the only shape in which stream data    *)
(* and sector contents enter TLC.                                          *)
(***************************************************************************)
EXTENDS Naturals, Integers, Sequences

(* Run-length encoded byte vectors: sequences of <<byte, count>> with       *)
(* count > 0 and no two adjacent runs of the same byte.                    *)
RECURSIVE RLen(_)
RLen(r) == IF r = <<>> THEN 0 ELSE Head(r)[2] + RLen(Tail(r))

RECURSIVE RNorm(_)
RNorm(r) == IF r = <<>> THEN <<>>
            ELSE IF Head(r)[2] = 0 THEN RNorm(Tail(r))
            ELSE LET rest == RNorm(Tail(r)) IN
                 IF rest # <<>> /\ Head(rest)[1] = Head(r)[1]
                 THEN <<<<Head(r)[1], Head(r)[2] + Head(rest)[2]>>>> \o Tail(rest)
                 ELSE <<Head(r)>> \o rest

RECURSIVE RTake(_, _)
RTake(r, n) == IF n <= 0 \/ r = <<>> THEN <<>>
               ELSE IF Head(r)[2] <= n THEN <<Head(r)>> \o RTake(Tail(r), n - Head(r)[2])
               ELSE <<<<Head(r)[1], n>>>>

RECURSIVE RDrop(_, _)
RDrop(r, n) == IF r = <<>> THEN <<>>
               ELSE IF n <= 0 THEN r
               ELSE IF Head(r)[2] <= n THEN RDrop(Tail(r), n - Head(r)[2])
               ELSE <<<<Head(r)[1], Head(r)[2] - n>>>> \o Tail(r)

RCat(a, b)   == RNorm(a \o b)
RZeros(n)    == IF n <= 0 THEN <<>> ELSE <<<<0, n>>>>
RSlice(r, off, n) == RNorm(RTake(RDrop(r, off), n))
RSplice(d, off, runs) == RNorm(RTake(d, off) \o runs \o RDrop(d, off + RLen(runs)))
RSetLen(d, n) == IF n <= RLen(d) THEN RNorm(RTake(d, n)) ELSE RCat(d, RZeros(n - RLen(d)))

RMin(a, b) == IF a < b THEN a ELSE b
RMax(a, b) == IF a > b THEN a ELSE b
=============================================================================
