------------------------------- MODULE MC_RB -------------------------------
(***************************************************************************)
(* Sibling trees written by OTHER implementations, mutated by rust-cfb     *)
(* (C04 "mutating such a file afterwards keeps C03", design level; C03 R7).*)
(*                                                                         *)
(* The library never rebalances and writes only black entries, but it must *)
(* insert into and remove from trees it did not build: balanced red-black  *)
(* trees with red entries.  The class of sibling trees its strict reader   *)
(* accepts is: a binary search tree under the CFB name order in which no   *)
(* red entry has a red left or right child (the root of the tree may be    *)
(* red; black heights are not validated).  This module enumerates EVERY    *)
(* member of that class over up to K sibling names (every subset of the    *)
(* names x every search-tree shape x every colouring without a red-red     *)
(* edge) as initial states and applies CfbPhys's own InsertEntry /         *)
(* RemoveEntry - the transcription of insert_dir_entry / remove_dir_entry  *)
(* that MC_Phys and Trace_Phys use - for Depth steps.  InClass is the      *)
(* invariant: the result is again a search tree over exactly the expected  *)
(* names, every live slot reachable once, no red-red edge, freed slots     *)
(* blank.  Because the initial states ARE the class (up to the numbering   *)
(* of slots, which the operators use only as opaque links and for the      *)
(* first-free choice), InClass after one step is an inductive argument:    *)
(* the class is closed under the library's mutations, for every history.   *)
(* Depth 2 is run as well, as a check of that argument.                    *)
(*                                                                         *)
(* With NORECOLOR in the environment CfbPhys!RemoveEntry leaves colours    *)
(* alone (the code before fix 2f450ff) and TLC reports the red-red edge    *)
(* (self-test).  Bound to the code by the `shapes` batches of C04 (every    *)
(* valid red-black shape x removal of every leaf, judged by WF) and by     *)
(* Trace_Phys, which follows those histories from the foreign start image  *)
(* and compares every link and colour byte the model predicts.             *)
(***************************************************************************)
EXTENDS Naturals, Integers, Sequences, FiniteSets, TLC

CONSTANTS K,       \* number of sibling names (<= 6)
          Depth    \* number of mutations applied to every tree of the class

AllN == <<"a", "b", "c", "d", "e", "f">>
Rank(n) == CASE n = "a" -> 1 [] n = "b" -> 2 [] n = "c" -> 3 [] n = "d" -> 4 [] n = "e" -> 5 [] n = "f" -> 6 [] OTHER -> 9
MCLess(a, b) == Rank(a) < Rank(b)
MCEq(a, b) == a = b
NSLOTS == 8            \* one directory "sector" large enough that the directory never grows here
P == INSTANCE CfbPhys WITH SectorLen <- 4, MiniLen <- 2, Cutoff <- 8, FatPer <- 4, DirPer <- NSLOTS, DifatHdr <- 1,
                           DirCount <- FALSE, NameLess <- MCLess, NameEq <- MCEq, ModuloPolicy <- FALSE, TrackData <- FALSE, Scrub <- TRUE

NO == -1
(* every search tree over the key indices lo..hi of the sorted sequence ks, every colouring without a red-red edge: *)
(* [root |-> key or 0, f |-> key :> [c, l, r]] with c = 0 red / 1 black, l / r = key or 0                            *)
Empty == [root |-> 0, f |-> <<>>]
RECURSIVE Trees(_, _, _, _)
Trees(ks, lo, hi, parentRed) ==
  IF lo > hi THEN {Empty}
  ELSE UNION {
         UNION {
           {[root |-> ks[m], f |-> (ks[m] :> [c |-> c, l |-> L.root, r |-> R.root]) @@ L.f @@ R.f] :
              L \in Trees(ks, lo, m - 1, c = 0), R \in Trees(ks, m + 1, hi, c = 0)} :
           c \in (IF parentRed THEN {1} ELSE {0, 1})} :
         m \in lo..hi}
SortedSeq(S) == LET n == Cardinality(S) IN [i \in 1..n |-> CHOOSE k \in S : Cardinality({j \in S : j < k}) = i - 1]
Class == UNION {Trees(SortedSeq(S), 1, Cardinality(S), FALSE) : S \in SUBSET (1..K)}

(* a directory holding tree t: key k lives in slot k *)
Build(t) ==
  LET link(x) == IF x = 0 THEN NO ELSE x
      slot(i) == IF i = 0 THEN [P!NewEntry("Root Entry", P!KRoot) EXCEPT !.child = link(t.root)]
                 ELSE IF i \in DOMAIN t.f
                 THEN [P!NewEntry(AllN[i], P!KStream) EXCEPT !.color = t.f[i].c, !.left = link(t.f[i].l), !.right = link(t.f[i].r)]
                 ELSE P!Unalloc
  IN [P!Fresh EXCEPT !.slots = [i \in 1..NSLOTS |-> slot(i - 1)]]

VARIABLES p, names, step
vars == <<p, names, step>>

Init == \E t \in Class : p = Build(t) /\ names = {AllN[k] : k \in DOMAIN t.f} /\ step = 0
Remove(n) == /\ n \in names /\ p' = P!RemoveEntry(p, 0, n) /\ names' = names \ {n}
Insert(n) == /\ n \notin names /\ p' = P!InsertEntry(p, 0, n, P!KStream).p /\ names' = names \cup {n}
Next == /\ step < Depth /\ step' = step + 1
        /\ \E k \in 1..K : Remove(AllN[k]) \/ Insert(AllN[k])
Spec == Init /\ [][Next]_vars

(* in-order listing of the subtree at slot cur, with fuel against cycles (a cycle exhausts it and shows as a duplicate) *)
RECURSIVE InOrder(_, _, _)
InOrder(q, cur, fuel) ==
  IF cur = NO \/ fuel = 0 THEN <<>>
  ELSE InOrder(q, P!E(q, cur).left, fuel - 1) \o <<cur>> \o InOrder(q, P!E(q, cur).right, fuel - 1)
Live(q) == {i \in 1..(NSLOTS - 1) : P!E(q, i).kind # P!KUnalloc}
IsRed(q, i) == i # NO /\ P!E(q, i).color = P!RED
InClass ==
  LET w == InOrder(p, P!E(p, 0).child, NSLOTS) IN
  /\ Len(w) = Cardinality(Live(p)) /\ {w[i] : i \in 1..Len(w)} = Live(p)                 \* every live slot reachable exactly once
  /\ {P!E(p, i).name : i \in Live(p)} = names                                            \* exactly the expected names
  /\ \A i \in 1..(Len(w) - 1) : MCLess(P!E(p, w[i]).name, P!E(p, w[i + 1]).name)         \* search tree under the name order
  /\ \A i \in Live(p) : IsRed(p, i) => (~IsRed(p, P!E(p, i).left) /\ ~IsRed(p, P!E(p, i).right))   \* no red-red edge
  /\ \A i \in 1..(NSLOTS - 1) : i \notin Live(p) => P!E(p, i) = P!Unalloc                \* freed slots are blank
(* witnesses (self-test): the class really contains red entries and two-children removals with a distant predecessor *)
NoRedAnywhere == \A i \in Live(p) : ~IsRed(p, i)
=============================================================================
