SPECIFICATION Spec
CONSTANT Readers <- MCReadersN
CONSTANT Handle <- MCHandle
CONSTANT ReaderProgs <- MCReaderProgs
CONSTANT HandleProgs <- MCHandleProgs
CONSTANT MaxCalls = 2
CONSTANT NReaders = 2
INVARIANT MutualExclusion NonReentrant
PROPERTY Termination Refines
INVARIANT AbsProgress
CHECK_DEADLOCK TRUE
