---------------------------- MODULE Trace_Config ----------------------------
(***************************************************************************)
(* C18: the same script executed under several configurations.  Each run   *)
(* is validated on its own against the deterministic model (Trace_File or  *)
(* Trace_Handle), so all logical outcomes coincide with the model and      *)
(* hence with each other.  This validator adds the cross-configuration     *)
(* requirements on the recorded events themselves:                         *)
(*   - every result value is the same in every configuration of a script   *)
(*     (all backends, chunkings, runs, buffer sizes, versions) when the    *)
(*     script consists of whole-stream operations (scope "all"); scripts   *)
(*     of primitive Read/Write calls, whose short counts legitimately      *)
(*     depend on the buffer size, are compared within their byte group     *)
(*     only (scope "grp") - their logical outcome is judged against the    *)
(*     reference byte vector by Trace_Handle for every buffer size;        *)
(*   - within a byte group (same version and buffer size: repeat runs,     *)
(*     in-memory vs real file, every chunking / Interrupted schedule) the  *)
(*     file image after every compared step is byte-identical (hash and    *)
(*     length).                                                            *)
(* Steps whose bytes legitimately depend on the clock (a storage was just  *)
(* created and its times are not pinned yet) carry cmp = FALSE.            *)
(* The first configuration of a script that reaches a step defines the     *)
(* reference; every later one is compared with it.                         *)
(***************************************************************************)
EXTENDS Naturals, Integers, Sequences, FiniteSets, TLC, Json, IOUtils, TLCExt

Rec == ndJsonDeserialize(IOEnv.TRACE)

VARIABLES bytesRef, resRef, cur, l
vars == <<bytesRef, resRef, cur, l>>

Has(e, f) == f \in DOMAIN e
Fail(prop, rule, e) == PrintT(<<"FAIL", prop, rule, e.hi, (IF Has(e, "oi") THEN e.oi ELSE -1), l>>)

NoCfg == [script |-> "", label |-> "", grp |-> "", scope |-> "all"]
Init == bytesRef = <<>> /\ resRef = <<>> /\ cur = NoCfg /\ l = 1

IsCfg(c) == DOMAIN c = {"script", "label", "grp", "scope"}
Compared(e) == (~Has(e, "cmp")) \/ e.cmp

(* what of a result is compared: everything except free-text messages *)
ResKey(e) == IF e.res.k = "err" THEN <<"err", e.res.e>>
             ELSE IF e.res.k = "ok" THEN <<"ok", ToJson(e.res.v)>> ELSE <<e.res.k, "">>

ResetStep(e) ==
  /\ cur' = IF Has(e, "cfg") /\ IsCfg(e.cfg) /\ e.res.k = "ok" THEN e.cfg ELSE NoCfg
  /\ UNCHANGED <<bytesRef, resRef>>

OpStep(e) ==
  IF cur.script = "" \/ ~Compared(e) THEN UNCHANGED <<bytesRef, resRef, cur>>
  ELSE
  LET rk == <<cur.script, (IF cur.scope = "grp" THEN cur.grp ELSE ""), e.oi>>
      bk == <<cur.script, cur.grp, e.oi>>
      hasBytes == Has(e, "imghash")
      bval == IF hasBytes THEN <<e.imghash, (IF Has(e, "flen") THEN e.flen ELSE -1)>> ELSE <<>>
  IN
  /\ IF rk \in DOMAIN resRef
     THEN /\ (IF resRef[rk] = ResKey(e) THEN TRUE
              ELSE Fail("C18", "result-differs:" \o cur.label, e)
                   /\ PrintT(<<"EXPECTED", resRef[rk], "GOT", ResKey(e)>>))
          /\ UNCHANGED resRef
     ELSE resRef' = (rk :> ResKey(e)) @@ resRef
  /\ IF ~hasBytes THEN UNCHANGED bytesRef
     ELSE IF bk \in DOMAIN bytesRef
     THEN /\ (IF bytesRef[bk] = bval THEN TRUE ELSE Fail("C18", "bytes-differ:" \o cur.label, e))
          /\ UNCHANGED bytesRef
     ELSE bytesRef' = (bk :> bval) @@ bytesRef
  /\ UNCHANGED cur

Step ==
  /\ l <= Len(Rec)
  /\ LET e == Rec[l] IN IF e.ev = "reset" THEN ResetStep(e) ELSE OpStep(e)
  /\ l' = l + 1
Next == Step
Spec == Init /\ [][Next]_vars
Consumed == IF TLCGet("stats").diameter = Len(Rec) + 1 THEN TRUE
            ELSE PrintT(<<"STUCK", TLCGet("stats").diameter, Len(Rec)>>) /\ FALSE
=============================================================================
