--------------------------- MODULE Trace_Handle ---------------------------
(***************************************************************************)
(* Trace validator for handle-level histories (harness/src/bin/hdrive.rs): *)
(* primitive Read / BufRead / Write / Seek calls on one stream handle      *)
(* against the reference semantics "byte vector with a cursor" (C06),      *)
(* with the fault rules of C12 (read-only file, failing reads/seeks) and   *)
(* C13 (failing writes/seeks/flushes).                                     *)
(*                                                                         *)
(* Short counts are legitimate: a read may return fewer bytes than asked   *)
(* (0 only at the end), a write may accept a prefix; the validator binds   *)
(* the count from the log and checks the bytes.  Buffer sizes never appear *)
(* here: the expected results are the same for every max_buffer_size.      *)
(***************************************************************************)
EXTENDS CfbTree, Json, IOUtils, TLCExt

Rec    == ndJsonDeserialize(IOEnv.TRACE)
\* TLC evaluates a definition that the configuration substitutes for a constant again at EVERY use, but caches
\* an ordinary constant definition; the file is therefore read by DictFile (once) and DictIn only refers to it
\* (the Json module also leaks one file descriptor per read)
DictFile == JsonDeserialize(IOEnv.DICT)
DictIn == DictFile

VARIABLES s, l, skip
vars == <<s, l, skip>>

Has(e, f) == f \in DOMAIN e
Fail(prop, rule, e) == PrintT(<<"FAIL", prop, rule, e.hi, (IF Has(e, "oi") THEN e.oi ELSE -1), l>>)

NoHandle == [open |-> FALSE, name |-> "", view |-> <<>>, cur |-> 0, known |-> TRUE, fill |-> 0, clean |-> TRUE]
S0 == [files |-> <<>>, cfopen |-> FALSE, hd |-> NoHandle, parked |-> NoHandle, mode |-> "plain",
       faulted |-> FALSE, taint |-> {}, unrec |-> {}, gone |-> FALSE]

StreamRuns(streams, n) == RNorm(streams[CHOOSE i \in 1..Len(streams) : streams[i].name = n].runs)
InitFiles(streams) == [n \in {streams[i].name : i \in 1..Len(streams)} |-> StreamRuns(streams, n)]

Len_(s_) == RLen(s_.hd.view)

(* Target of a seek; "bad" for the symbolic extremes (always out of range   *)
(* for streams below 2^31 bytes).                                           *)
SeekTarget(st, e) ==
  IF e.sym # "" THEN -1
  ELSE IF e.whence = "start" THEN e.d
  ELSE IF e.whence = "end" THEN Len_(st) + e.d
  ELSE st.hd.cur + e.d

SortedNames(files) ==
  SetToSortSeq(DOMAIN files, LAMBDA a, b : KeyLess(Units(a), Units(b)))
WalkList(files) ==
  <<[n |-> RootName, l |-> 0]>> \o
  [i \in 1..Cardinality(DOMAIN files) |->
     [n |-> SortedNames(files)[i], l |-> RLen(files[SortedNames(files)[i]])]]

(* Error kinds the model predicts for a call in state st ({} = must succeed) *)
ExpectErr(st, e) ==
  CASE e.op \in {"entry", "open_stream", "remove_stream"} ->
         IF e.name \in DOMAIN st.files THEN {} ELSE {"NotFound"}
    [] e.op = "seek" ->
         LET t == SeekTarget(st, e) IN IF t < 0 \/ t > Len_(st) THEN {"InvalidInput"} ELSE {}
    [] e.op = "set_len" ->       \* lengths no compound file can hold are refused (symbolic: beyond 2^63)
         IF Has(e, "sym") /\ e.sym # "" THEN {"InvalidInput"} ELSE {}
    [] OTHER -> {}

WithHd(st, hd) == [st EXCEPT !.hd = hd]

(* Effect and validity of a call that returned Ok(v).  Returns             *)
(* [valid, st, rule].                                                       *)
OkStep(st, e) ==
  LET hd == st.hd  v == e.res.v
      V(b, st2, rule) == [valid |-> b, st |-> st2, rule |-> rule]
  IN
  CASE e.op = "open" -> V(TRUE, [st EXCEPT !.cfopen = TRUE, !.hd = NoHandle, !.gone = FALSE], "open")
    \* the CompoundFile is dropped (or consumed by into_inner) while handles are alive: a handle that is
    \* dropped with unwritten data loses it, so the stream's stored content becomes unknown (taint)
    [] e.op = "drop_cf" -> V(TRUE, [st EXCEPT !.cfopen = FALSE, !.gone = TRUE,
                                             !.taint = @ \cup (IF hd.open /\ ~hd.clean THEN {hd.name} ELSE {})
                                                         \cup (IF st.parked.open /\ ~st.parked.clean THEN {st.parked.name} ELSE {})], "drop_cf")
    [] e.op = "walk" -> V(v = WalkList(st.files), st, "walk")
    [] e.op = "entry" -> V(v = RLen(st.files[e.name]), st, "entry")
    [] e.op = "exists" -> V(v = (e.name \in DOMAIN st.files), st, "exists")
    [] e.op = "open_stream" ->
         V(v = RLen(st.files[e.name]),
           WithHd(st, [open |-> TRUE, name |-> e.name, view |-> st.files[e.name], cur |-> 0,
                       known |-> TRUE, fill |-> 0, clean |-> TRUE]), "open_stream")
    [] e.op = "create_stream" ->
         \* an Ok create_stream makes the content known again (empty), whatever failed on that name before
         V(TRUE, [st EXCEPT !.files = (e.name :> <<>>) @@ @, !.taint = @ \ {e.name},
                            !.hd = [open |-> TRUE, name |-> e.name, view |-> <<>>, cur |-> 0,
                                    known |-> TRUE, fill |-> 0, clean |-> TRUE]], "create_stream")
    [] e.op = "remove_stream" ->
         V(TRUE, [st EXCEPT !.files = [n \in (DOMAIN @) \ {e.name} |-> @[n]]], "remove_stream")
    [] e.op = "read" ->
         LET k == RLen(v) IN
         V(/\ k <= e.n /\ k <= Len_(st) - hd.cur
           /\ (k = 0 => (e.n = 0 \/ hd.cur = Len_(st)))
           /\ RNorm(v) = RSlice(hd.view, hd.cur, k),
           WithHd(st, [hd EXCEPT !.cur = @ + k, !.fill = 0]), "read")
    [] e.op = "read_to_end" ->
         V(RNorm(v) = RNorm(RDrop(hd.view, hd.cur)),
           WithHd(st, [hd EXCEPT !.cur = Len_(st), !.fill = 0]), "read_to_end")
    [] e.op = "fill_buf" ->
         LET k == RLen(v) IN
         V(/\ k <= Len_(st) - hd.cur
           /\ (k = 0 => hd.cur = Len_(st))
           /\ RNorm(v) = RSlice(hd.view, hd.cur, k),
           WithHd(st, [hd EXCEPT !.fill = k]), "fill_buf")
    [] e.op = "consume" ->
         V(v <= hd.fill, WithHd(st, [hd EXCEPT !.cur = @ + v, !.fill = @ - v]), "consume")
    [] e.op = "write" ->
         LET n == RLen(e.runs) IN
         V(/\ v <= n /\ (n > 0 => v > 0),
           WithHd(st, [hd EXCEPT !.view = RSplice(@, hd.cur, RNorm(RTake(e.runs, v))),
                                 !.cur = @ + v, !.fill = 0, !.clean = (v = 0 /\ @)]), "write")
    [] e.op = "write_all" ->
         V(TRUE,
           WithHd(st, [hd EXCEPT !.view = RSplice(@, hd.cur, RNorm(e.runs)),
                                 !.cur = @ + RLen(e.runs), !.fill = 0,
                                 !.clean = (RLen(e.runs) = 0 /\ @)]), "write_all")
    [] e.op = "seek" ->
         LET t == SeekTarget(st, e) IN
         V(v = t, WithHd(st, [hd EXCEPT !.cur = t, !.fill = 0]), "seek")
    [] e.op = "position" ->
         IF hd.known THEN V(v = hd.cur, st, "position")
         ELSE V(v >= 0 /\ v <= Len_(st), WithHd(st, [hd EXCEPT !.cur = v, !.known = TRUE]), "position-resync")
    [] e.op = "set_len" ->
         V(TRUE, WithHd(st, [hd EXCEPT !.view = RSetLen(@, e.n), !.cur = RMin(@, e.n), !.fill = 0,
                                       !.clean = (e.n = Len_(st) /\ @)]), "set_len")
    [] e.op = "flush" ->
         \* "flush chain down to the underlying writer": an Ok flush has called the backend's flush
         \* (ncalls = backend calls so far: reads, writes, seeks, flushes)
         V((Has(e, "ncalls") /\ l > 1 /\ Has(Rec[l - 1], "ncalls") /\ Rec[l - 1].hi = e.hi) => e.ncalls[4] > Rec[l - 1].ncalls[4],
           [st EXCEPT !.files = (hd.name :> hd.view) @@ @, !.hd.clean = TRUE], "flush-reaches-backend")
    [] e.op = "cf_flush" -> V(TRUE, st, "cf_flush")
    [] e.op = "len" -> V(v = Len_(st), st, "len")
    [] e.op = "fresh_read" ->
         \* after an Ok flush every accepted byte is read back by a fresh handle AND is in the
         \* file image itself (e.disk = the stream as read from a reopened copy of the bytes).
         \* While some failed call has not been retried successfully (unrec, see Unfinished), the
         \* image as a whole may be beyond reopening (the failed call may have left other
         \* structures half-updated - "later calls may fail"); the stored bytes are then only
         \* judged when the copy can be opened and read.  Once every failed call has been retried
         \* successfully the image must be readable again.
         V((hd.clean /\ hd.name \notin st.taint) =>
              /\ RNorm(v) = st.files[hd.name]
              /\ (Has(e, "disk") =>
                    IF e.disk.k = "ok" THEN RNorm(e.disk.v) = st.files[hd.name]
                    ELSE (st.mode = "rw_faults" /\ st.unrec # {})),
           st, "fresh_read")
    \* a second handle: the current one is set aside untouched (park) and taken up again later
    [] e.op = "park" -> V(TRUE, [st EXCEPT !.parked = hd, !.hd = NoHandle], "park")
    [] e.op = "unpark" -> V(TRUE, [st EXCEPT !.hd = st.parked, !.parked = NoHandle], "unpark")
    [] e.op = "close" ->
         V(TRUE, [st EXCEPT !.files = IF hd.open THEN (hd.name :> hd.view) @@ @ ELSE @,
                            !.hd = NoHandle], "close")

(* Ops that need a handle / an open file, and whether the cursor may move   *)
NeedsHandle(e) == e.op \in {"read", "read_to_end", "fill_buf", "consume", "write", "write_all", "seek",
                            "position", "set_len", "flush", "len", "fresh_read", "park"}
MovesCursor(e) == e.op \in {"read", "read_to_end", "fill_buf", "consume", "write", "write_all", "seek", "set_len"}
Fired(e) == Has(e, "fired") /\ e.fired # <<>>

Init == s = S0 /\ l = 1 /\ skip = FALSE

ResetStep(e) ==
  /\ s' = [S0 EXCEPT !.files = InitFiles(e.streams), !.mode = e.mode]
  /\ skip' = (e.res.k # "ok")
  /\ (IF e.res.k = "ok" THEN TRUE ELSE Fail("SETUP", "setup", e))

(* What a failed call leaves unfinished, and which later Ok call finishes it (C13's quantifier:  *)
(* "followed by retry of the failed call"):                                                      *)
(*   a failed write-back (inside flush / write / read / seek / fill_buf ...): the buffer stays   *)
(*     dirty, any later Ok flush of the same stream writes it back          -> <<"wb", stream>>  *)
(*   a failed set_len / create_stream / remove_stream: the same call with the same argument      *)
(*     returning Ok                                            -> <<op, stream or name, arg>>    *)
(*   anything else (write_all, a failure swallowed by a drop, open): never  -> <<"*">>           *)
Unfinished(st, e) ==
  IF e.op = "set_len" /\ st.hd.open THEN <<"set_len", st.hd.name, e.n>>
  ELSE IF e.op \in {"create_stream", "remove_stream"} THEN <<e.op, e.name, 0>>
  ELSE IF e.op \in {"write_all", "close"} THEN <<"*">>
  ELSE IF NeedsHandle(e) /\ st.hd.open THEN <<"wb", st.hd.name>>
  ELSE <<"*">>
Finishes(st, e) ==
  IF e.op = "flush" /\ st.hd.open THEN {<<"wb", st.hd.name>>}
  ELSE IF e.op = "set_len" /\ st.hd.open THEN {<<"set_len", st.hd.name, e.n>>, <<"wb", st.hd.name>>}
  ELSE IF e.op \in {"create_stream", "remove_stream"} THEN {<<e.op, e.name, 0>>}
  ELSE {}

(* after an error the cursor is whatever the implementation says next       *)
AfterErr(st, e) ==
  [st EXCEPT !.faulted = @ \/ Fired(e),
             \* unrec: failed calls not yet retried successfully.  While it is non-empty some half-done
             \* update may still be in the image.
             !.unrec = @ \cup {Unfinished(st, e)},
             \* io::Read: "if an error is returned then it must be guaranteed that no bytes were read":
             \* a failed read / fill_buf leaves the cursor where it was; other failed calls may have
             \* made partial progress (resolved by the next logged position)
             !.hd.known = IF MovesCursor(e) /\ st.mode # "plain" /\ ~(st.mode = "ro_faults" /\ e.op \in {"read", "fill_buf"})
                          THEN FALSE ELSE @,
             !.hd.fill = 0,
             \* taint: streams whose content the model no longer knows (a failed call may have taken
             \* partial effect on THAT stream); every other stream is still judged in full
             !.taint = IF st.mode # "rw_faults" THEN @
                       ELSE IF e.op \in {"set_len", "write_all", "close"} /\ st.hd.open THEN @ \cup {st.hd.name}
                       ELSE IF e.op \in {"create_stream", "remove_stream"} THEN @ \cup {e.name}
                       ELSE @]

(* Once the CompoundFile is gone (dropped, or consumed by into_inner) a handle keeps obeying the byte-vector  *)
(* model for everything it answers with Ok - position and len included - and never panics (C06; the defect   *)
(* repaired by cae237d, "window moved although the file was gone", was found here).  WHICH calls fail, and    *)
(* with what kind,                                                                                            *)
(* is not stated anywhere: those two rules are informational (tag XDROP).                                     *)

OpStep(e) ==
  IF skip THEN UNCHANGED <<s, skip>>
  ELSE IF e.res.k = "panic"
  THEN /\ Fail("PANIC", e.op, e) /\ skip' = TRUE /\ UNCHANGED s
  ELSE IF e.res.k = "err" /\ e.res.e \in {"NoFile", "NoHandle"}
  THEN UNCHANGED <<s, skip>>          \* harness-level: nothing was called
  ELSE IF NeedsHandle(e) /\ ~s.hd.open
  THEN UNCHANGED <<s, skip>>
  ELSE IF MovesCursor(e) /\ ~s.hd.known /\ ~(e.op = "seek" /\ e.whence # "cur")
  THEN /\ PrintT(<<"NOTE", "cursor-unknown", e.hi, e.oi, l>>) /\ skip' = TRUE /\ UNCHANGED s
  ELSE
  LET exp == ExpectErr(s, e)
      fired == Fired(e)
  IN
  IF s.gone /\ NeedsHandle(e) /\ e.res.k = "err" /\ e.res.e \notin exp
  THEN (* beyond the listed properties (tag XDROP, informational): once the CompoundFile is gone a call   *)
       (* that needs the file reports an error - never for len / position / consume, which are served    *)
       (* from the handle - and leaves the handle's cursor where the next position() says it is          *)
       IF e.op \in {"len", "position", "consume"} \/ e.res.e # "Other"
       THEN /\ Fail("XDROP", "error-after-drop:" \o e.op, e) /\ skip' = TRUE /\ UNCHANGED s
       ELSE /\ s' = [s EXCEPT !.hd.known = IF e.op \in {"write_all", "read_to_end"} THEN FALSE ELSE @, !.hd.fill = 0]
            /\ skip' = FALSE
  ELSE IF s.gone /\ e.res.k = "ok" /\ ((e.op = "flush" /\ ~s.hd.clean) \/ (e.op = "set_len" /\ e.n # Len_(s)))
  THEN \* nothing can have been written: an Ok here claims durability that cannot exist
       /\ Fail("XDROP", "ok-after-drop:" \o e.op, e) /\ skip' = TRUE /\ UNCHANGED s
  ELSE
  IF e.res.k = "err"
  THEN (* an error result *)
       IF e.res.e \in exp
       THEN /\ s' = [s EXCEPT !.faulted = @ \/ fired] /\ skip' = FALSE      \* predicted refusal: no effect
            /\ (IF Has(e, "imghash") /\ l > 1 /\ Has(Rec[l - 1], "imghash") /\ Rec[l - 1].hi = e.hi
                   /\ e.imghash # Rec[l - 1].imghash
                THEN Fail("C10", "bytes-unchanged:" \o e.op, e) ELSE TRUE)
       ELSE IF e.op = "fresh_read" /\ s.mode = "rw_faults" /\ ~fired /\ s.hd.clean /\ s.hd.name \notin s.taint /\ s.unrec = {}
       THEN \* "later calls may fail" - but not this one: the stream was flushed with Ok, no failed call touched
            \* it, and every failed call has been retried successfully; its bytes must be read back
            /\ Fail("C13", "flushed-stream-unreadable", e) /\ skip' = TRUE /\ UNCHANGED s
       ELSE IF e.op \in {"open_stream", "entry"} /\ s.mode = "rw_faults" /\ ~fired /\ e.name \in DOMAIN s.files
               /\ e.name \notin s.taint /\ s.unrec = {}
       THEN \* likewise: a stream no failed call touched cannot be found any more although every failed call
            \* has been retried successfully
            /\ Fail("C13", "stream-lost", e) /\ skip' = TRUE /\ UNCHANGED s
       ELSE IF s.mode = "plain" \/ ~(fired \/ s.faulted)
       THEN /\ Fail("C06", "unexpected-error", e)
            /\ PrintT(<<"EXPECTED", exp, "GOT", e.res>>)
            /\ skip' = TRUE /\ UNCHANGED s
       ELSE IF e.op = "read_to_end" /\ Has(e.res, "partial") /\ s.hd.known /\ s.mode \in {"ro_faults", "plain"}
               /\ ~(RLen(e.res.partial) <= Len_(s) - s.hd.cur /\ RNorm(e.res.partial) = RSlice(s.hd.view, s.hd.cur, RLen(e.res.partial)))
       THEN \* a failed read_to_end leaves in the caller's vector only bytes it really read: a prefix of the rest of the stream
            /\ Fail(IF s.mode = "ro_faults" THEN "C12" ELSE "C06", "read_to_end-partial", e) /\ skip' = TRUE /\ UNCHANGED s
       ELSE /\ s' = AfterErr(s, e) /\ skip' = FALSE                         \* injected failure surfaced
  ELSE (* Ok result *)
       IF exp # {}
       THEN /\ Fail("C06", "missing-refusal", e) /\ skip' = TRUE /\ UNCHANGED s
       ELSE IF fired /\ s.mode = "rw_faults" /\ e.op # "close"
       THEN /\ Fail("C13", "fault-swallowed", e) /\ skip' = TRUE /\ UNCHANGED s
       ELSE
       LET r == OkStep(s, e)
           relaxed == s.mode = "rw_faults" /\ (s.faulted \/ s.taint # {}) /\ e.op \notin {"fresh_read", "len", "flush"}
           lenok == (Has(e, "len") /\ r.st.hd.open /\ r.st.hd.name \notin r.st.taint) => e.len = RLen(r.st.hd.view)
       IN IF ~r.valid /\ ~relaxed
          THEN /\ Fail(IF r.rule = "flush-reaches-backend" THEN "C13" ELSE IF s.mode = "ro_faults" THEN "C12"
                       ELSE IF s.mode = "rw_faults" THEN "C13" ELSE "C06", r.rule, e)
               /\ skip' = TRUE /\ UNCHANGED s
          ELSE IF ~lenok
          THEN /\ Fail("C06", "len-not-current", e) /\ skip' = TRUE /\ UNCHANGED s
          ELSE /\ s' = [r.st EXCEPT !.faulted = @ \/ fired,
                                  \* a failure swallowed by a drop leaves that stream's update unfinished for good
                                  !.unrec = IF fired THEN @ \cup {<<"*">>} ELSE @ \ Finishes(s, e)]
               /\ skip' = FALSE

Step ==
  /\ l <= Len(Rec)
  /\ LET e == Rec[l] IN IF e.ev = "reset" THEN ResetStep(e) ELSE OpStep(e)
  /\ l' = l + 1
Next == Step
Spec == Init /\ [][Next]_vars
Consumed == IF TLCGet("stats").diameter = Len(Rec) + 1 THEN TRUE
            ELSE PrintT(<<"STUCK", TLCGet("stats").diameter, Len(Rec)>>) /\ FALSE
=============================================================================
