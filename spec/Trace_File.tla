---------------------------- MODULE Trace_File ----------------------------
(***************************************************************************)
(* Trace validator for file-level histories recorded from the real         *)
(* library (harness/src/bin/drive.rs).  Every event is matched against     *)
(* the CfbTree operator of the method it names; on heavy events the        *)
(* logical dump, the raw image (WF, Abs) and the reopened dumps are        *)
(* checked against the model state.  A failed check prints                 *)
(*    <<"FAIL", property, rule, history, op index, line>>                 *)
(* Checks that mean "model and code have diverged" abandon the rest of     *)
(* that history (skip) - later events would be judged against a state the  *)
(* code is not in.  The trace is always consumed to the end; acceptance    *)
(* (POSTCONDITION) only guards against the validator itself getting stuck. *)
(***************************************************************************)
EXTENDS CfbImage, Json, IOUtils, TLCExt

Rec     == ndJsonDeserialize(IOEnv.TRACE)
\* TLC evaluates a definition that the configuration substitutes for a constant again at EVERY use, but caches
\* an ordinary constant definition; the file is therefore read by DictFile (once) and DictIn only refers to it
\* (the Json module also leaks one file descriptor per read)
DictFile == JsonDeserialize(IOEnv.DICT)
DictIn == DictFile
Vals    == JsonDeserialize(IOEnv.VALUES)

VARIABLES st, l, skip, cyc, devmode
vars == <<st, l, skip, cyc, devmode>>
(* devmode: the history runs on an image that carries a tolerated deviation (opened permissively).  *)
(* The deviation stays in the file, so strict reopen and WF are not expected afterwards; the         *)
(* library's live view and the permissive reopen must still equal the model after every mutation.   *)
(* cyc: bookkeeping for C15 - the tree at the start of the repetitions and   *)
(* the file length after each repetition of a net-zero cycle.               *)
NoCyc == [based |-> FALSE, base |-> EmptyTree, flens |-> <<>>]

Has(e, f) == f \in DOMAIN e
HName(e)  == IF Has(e, "h") THEN e.h ELSE ""
TimesOf(e) == IF Has(e, "times") THEN e.times ELSE <<>>

Fail(prop, rule, e) == PrintT(<<"FAIL", prop, rule, e.hi, (IF Has(e, "oi") THEN e.oi ELSE -1), l>>)

---------------------------------------------------------------------------
Apply(s, e) ==
  CASE e.op = "create_storage"     -> CreateStorage(s, e.p, TimesOf(e))
    [] e.op = "create_storage_all" -> CreateStorageAll(s, e.p, TimesOf(e))
    [] e.op = "create_stream"      -> CreateStreamH(s, e.p, TRUE, HName(e))
    [] e.op = "create_new_stream"  -> CreateStreamH(s, e.p, FALSE, HName(e))
    [] e.op = "remove_storage"     -> RemoveStorage(s, e.p)
    [] e.op = "remove_stream"      -> RemoveStream(s, e.p)
    [] e.op = "remove_storage_all" -> RemoveStorageAll(s, e.p)
    [] e.op = "exists"             -> Exists(s, e.p)
    [] e.op = "is_stream"          -> IsStream(s, e.p)
    [] e.op = "is_storage"         -> IsStorage(s, e.p)
    [] e.op = "entry"              -> EntryOf(s, e.p)
    [] e.op = "root_entry"         -> RootEntry(s)
    [] e.op = "read_storage"       -> ReadStorage(s, e.p)
    [] e.op = "walk_storage"       -> WalkStorage(s, e.p)
    [] e.op = "open_stream"        -> OpenStream(s, e.p, HName(e))
    [] e.op = "read"               -> ReadAll(s, e.p)
    [] e.op = "write"              -> WriteAt(s, e.p, e.off, e.runs)
    [] e.op = "set_len"            -> SetLen(s, e.p, e.n)
    [] e.op = "set_clsid"          -> SetClsid(s, e.p, Vals.clsid[e.v])
    [] e.op = "set_bits"           -> SetBits(s, e.p, Vals.bits[e.v])
    [] e.op = "set_ctime"          -> SetCTime(s, e.p, Vals.time[e.v].q)
    [] e.op = "set_mtime"          -> SetMTime(s, e.p, Vals.time[e.v].q)
    [] e.op = "touch"              -> Touch(s, e.p, TimesOf(e))
    [] e.op = "flush"              -> Flush(s)
    [] e.op = "version"            -> {OkV(s, e.res.v)}
    [] e.op = "reopen"             -> Reopen(s)
    [] e.op = "relayout"           -> Reopen(s)           \* the same content in another legal layout, reopened
    [] e.op = "h_write"            -> HWrite(s, e.h, e.off, e.runs)
    [] e.op = "h_read"             -> HRead(s, e.h)
    [] e.op = "h_len"              -> HLen(s, e.h)
    [] e.op = "h_set_len"          -> HSetLen(s, e.h, e.n)
    [] e.op = "h_close"            -> HClose(s, e.h)
    [] e.op = "deviate"            -> {OkV(s, "unit")}    \* a deviation patched into a COPY of the bytes

EntryMatch(mv, rv) ==
  /\ AllKnown(rv.p) /\ KeyPath(rv.p) = KeyPath(mv.p)
  /\ [mv EXCEPT !.p = <<>>] = [rv EXCEPT !.p = <<>>]
(* Listings: the part of each path that echoes the request is compared by   *)
(* key, the entry's own (last) name must be the stored spelling.            *)
ListMatch(mv, rv) ==
  /\ Len(mv) = Len(rv)
  /\ \A i \in 1..Len(mv) :
       /\ rv[i].k = mv[i].k
       /\ AllKnown(rv[i].p) /\ KeyPath(rv[i].p) = KeyPath(mv[i].p)
       /\ (mv[i].p # <<>> => rv[i].p[Len(rv[i].p)] = mv[i].p[Len(mv[i].p)])
ValMatch(op, mv, rv) ==
  IF op \in {"entry", "root_entry"} THEN EntryMatch(mv, rv)
  ELSE IF op \in {"read_storage", "walk_storage"} THEN ListMatch(mv, rv)
  ELSE mv = rv
ResMatch(m, e) ==
  LET r == e.res IN
  IF r.k = "panic" THEN FALSE
  ELSE IF m.k = "err" THEN r.k = "err" /\ r.e = m.e
  ELSE r.k = "ok" /\ ValMatch(e.op, m.v, r.v)

IsRefusal(e) == e.res.k = "err" /\ e.res.e \in {"NotFound", "AlreadyExists", "InvalidInput"}

---------------------------------------------------------------------------
(* Checks on a heavy event against the candidate successor state s2.        *)
(* Each entry: <<property, rule, holds, fatal>>.                            *)
StoragesInWalk(t) ==
  SelectSeq(WalkFrom(t, <<>>), LAMBDA kp : t[kp].kind # "stream")
LsDump(t) ==
  LET ss == StoragesInWalk(t) IN
  [i \in 1..Len(ss) |->
     [p |-> NamePath(t, ss[i]),
      names |-> LET cs == SortedChildren(t, ss[i]) IN [j \in 1..Len(cs) |-> t[cs[j]].name]]]
EntDump(t) ==
  LET w == WalkFrom(t, <<>>) IN [i \in 1..Len(w) |-> EntryRec(t, w[i])]

ApiOK(e)       == Has(e, "api") /\ Has(e.api, "walk")
ReopenOK(e, m) == Has(e, "reopen") /\ Has(e.reopen[m], "ok")

NewStorages(s1, s2) ==
  {kp \in DOMAIN s2.tree : kp \notin DOMAIN s1.tree /\ s2.tree[kp].kind = "storage"}
TimesBounded(s1, s2, e) ==
  \A kp \in NewStorages(s1, s2) :
     LET nd == s2.tree[kp] IN
     nd.ct = nd.mt /\ TimeLeq(e.t0, nd.ct) /\ TimeLeq(nd.ct, e.t1)

PrevHash(e) ==
  IF l > 1 /\ Has(Rec[l - 1], "imghash") /\ Rec[l - 1].hi = e.hi THEN Rec[l - 1].imghash ELSE "?"

HeavyChecks(s1, s2, e) ==
  LET t == s2.tree
      C == IF Has(e, "img") THEN SafeChains(e.img) ELSE <<>>     \* every chain of the image, followed once
      wfn0 == IF Has(e, "img") THEN WFNamesC(e.img, C) ELSE <<>>
      \* a history that starts from a foreign image with SURPLUS sectors in a stream's chain (legal: the length field
      \* says how much of the chain is used) cannot be held to "chain length = ceil(size / sector)" (R5)
      \* ... and one whose foreign directory entries keep the tail of an older name behind the terminating null (legal: the
      \* length field and the terminator delimit the name) cannot be held to the zero padding the library itself writes (R7names)
      wfn1 == IF Has(e, "surplus") THEN SelectSeq(wfn0, LAMBDA n : n # "R5") ELSE wfn0
      wfn == IF Has(e, "namejunk") THEN SelectSeq(wfn1, LAMBDA n : n # "R7names") ELSE wfn1
  IN
  << <<"C01", "api.walk", ApiOK(e) /\ e.api.walk = WalkDump(t), TRUE>>,
     <<"C01", "api.ls", ApiOK(e) => (Has(e.api, "ls") => e.api.ls = LsDump(t)), FALSE>>,
     <<"C01", "api.entry", ApiOK(e) => (Has(e.api, "ent") => e.api.ent = EntDump(t)), FALSE>>,
     <<"C01", "abs", Has(e, "img") => (AbsOKC(e.img, C) /\ AbsC(e.img, C) = t), TRUE>>,
     \* (not fatal: a copy of the bytes that reopens wrongly says nothing about the live object, whose history goes on being
     \* judged - what a later reopen OPERATION continues on shows in the rules above)
     <<"C02", "reopen.strict",
        Has(e, "reopen") => (ReopenOK(e, "strict") /\ e.reopen.strict.ok.walk = WalkDump(t)), FALSE>>,
     <<"C02", "reopen.permissive",
        Has(e, "reopen") => (ReopenOK(e, "permissive") /\ e.reopen.permissive.ok.walk = WalkDump(t)), FALSE>>,
     <<"C16", "strict=>permissive",
        (Has(e, "reopen") /\ ReopenOK(e, "strict")) =>
           (ReopenOK(e, "permissive") /\ e.reopen.permissive.ok = e.reopen.strict.ok), FALSE>>,
     <<"C17", "new-storage-times",
        (Has(e, "t0") /\ e.res.k = "ok" /\ e.op # "touch") => TimesBounded(s1, s2, e), FALSE>> >>
  \o [i \in 1..Len(wfn) |-> <<"C03", wfn[i], FALSE, FALSE>>]

(* Checks evaluated on every event, heavy or not *)
LightChecks(s2, e) ==
  << <<"C10", "bytes-unchanged",
        (IsRefusal(e) /\ Has(e, "imghash") /\ PrevHash(e) # "?") => e.imghash = PrevHash(e), FALSE>> >>
  \o (IF Has(e, "dev")        \* C16: deviations that need a DIFAT sector (drive op "deviate")
      THEN IF e.kind = "difat_relocate"      \* a legal layout (C04): both modes expose the content
           THEN << <<"C04", "dev.permissive:" \o e.kind,
                      Has(e.dev.permissive, "ok") /\ e.dev.permissive.ok.walk = WalkDump(s2.tree), FALSE>>,
                   <<"C04", "dev.strict:" \o e.kind,
                      Has(e.dev.strict, "ok") /\ e.dev.strict.ok.walk = WalkDump(s2.tree), FALSE>> >>
           ELSE << <<"C16", "dev.permissive:" \o e.kind,
                      Has(e.dev.permissive, "ok") /\ e.dev.permissive.ok.walk = WalkDump(s2.tree), FALSE>>,
                   <<"C16", "dev.strict-rejects:" \o e.kind, Has(e.dev.strict, "err"), FALSE>> >>
      ELSE <<>>)
  \o (IF Has(e, "mark") /\ e.mark = "rep_end" /\ cyc.based
      THEN << <<"GEN", "cycle-not-net-zero", s2.tree = cyc.base, FALSE>>,
              <<"C15", "no-growth",
                 (s2.tree = cyc.base /\ Len(cyc.flens) >= 2) => e.flen = cyc.flens[2], FALSE>> >>
      ELSE <<>>)
CycNext(s2, e) ==
  IF ~Has(e, "mark") THEN cyc
  ELSE IF e.mark = "cycle_base" THEN [based |-> TRUE, base |-> s2.tree, flens |-> <<>>]
  ELSE IF e.mark = "rep_end" THEN [cyc EXCEPT !.flens = Append(@, e.flen)]
  ELSE cyc

DevHeavyChecks(s2, e) ==
  LET t == s2.tree IN
  << <<"C01", "api.walk", ApiOK(e) /\ e.api.walk = WalkDump(t), TRUE>>,
     <<"C02", "reopen.permissive",
        Has(e, "reopen") => (ReopenOK(e, "permissive") /\ e.reopen.permissive.ok.walk = WalkDump(t)), TRUE>>,
     \* a flush changes nothing in the bytes: the deviation is still there, and every way of opening strictly still refuses it
     <<"C16", "strict-rejects",
        (e.op = "flush" /\ Has(e, "reopen") /\ Has(e, "imghash") /\ PrevHash(e) = e.imghash) => Has(e.reopen.strict, "err"), FALSE>> >>

HChecks(s1, s2, e) == IF devmode THEN DevHeavyChecks(s2, e) ELSE HeavyChecks(s1, s2, e)
Failed(cs)   == SelectSeq(cs, LAMBDA c : ~c[3])
AnyFatal(cs) == \E i \in 1..Len(cs) : ~cs[i][3] /\ cs[i][4]
Report(cs, e) == \A i \in 1..Len(cs) : IF cs[i][3] THEN TRUE ELSE Fail(cs[i][1], cs[i][2], e)

---------------------------------------------------------------------------
FromWalk(w) ==
  LET kps == {KeyPath(w[i].p) : i \in 1..Len(w)} IN
  [kp \in kps |->
     LET r == w[CHOOSE i \in 1..Len(w) : KeyPath(w[i].p) = kp] IN
     [kind |-> r.k, name |-> r.n, data |-> r.d, clsid |-> r.c, bits |-> r.b,
      ct |-> r.ct, mt |-> r.mt]]

Init == st = InitState /\ l = 1 /\ skip = FALSE /\ cyc = NoCyc /\ devmode = FALSE

(* An image carrying one of the documented, tolerated deviations (C16):      *)
(* permissive open succeeds and exposes the content of the undamaged file,  *)
(* strict open rejects it.                                                  *)
DeviationChecks(t, e) ==
  IF e.res.k # "ok" THEN << <<"C16", "permissive-open", FALSE, TRUE>> >>
  ELSE
  << <<"C16", "permissive-content", ApiOK(e) /\ e.api.walk = WalkDump(t), TRUE>>,
     <<"C16", "permissive-reopen",
        Has(e, "reopen") /\ ReopenOK(e, "permissive") /\ e.reopen.permissive.ok.walk = WalkDump(t), FALSE>>,
     <<"C16", "strict-rejects", Has(e, "reopen") /\ Has(e.reopen.strict, "err"), FALSE>> >>

ResetStep(e) ==
  LET s0 == IF Has(e, "tree") THEN [tree |-> FromWalk(e.tree), handles |-> <<>>] ELSE InitState
      okres == e.res.k = "ok"
      dev == Has(e, "expect") /\ e.expect = "deviation"
      cs == IF dev THEN DeviationChecks(s0.tree, e)
            ELSE IF okres /\ e.heavy THEN HeavyChecks(s0, s0, [e EXCEPT !.res = [k |-> "ok", v |-> "unit"]] @@ [op |-> "reset"]) ELSE <<>>
  IN /\ st' = s0 /\ cyc' = NoCyc /\ devmode' = dev
     /\ (IF okres \/ dev THEN TRUE ELSE Fail("OPEN", e.res.k, e))
     /\ Report(cs, e)
     /\ skip' = (~okres \/ AnyFatal(cs))

OpStep2(e) ==
  IF skip THEN UNCHANGED <<st, skip, cyc>>
  ELSE
  LET outs  == Apply(st, e)
      match == {o \in outs : ResMatch(o.res, e)}
  IN
  IF match = {}
  THEN /\ Fail(IF e.res.k = "panic" THEN "PANIC" ELSE "C01", "result", e)
       /\ PrintT(<<"EXPECTED", {o.res : o \in outs}, "GOT", e.res>>)
       \* C10 speaks about every call that IS refused, also one the model would not have refused: a refusal that
       \* arrives after part of the work was done (the image changed) is a C10 violation in its own right
       /\ (IF IsRefusal(e) /\ Has(e, "imghash") /\ PrevHash(e) # "?" /\ e.imghash # PrevHash(e)
           THEN Fail("C10", "bytes-unchanged", e) ELSE TRUE)
       /\ skip' = TRUE /\ UNCHANGED <<st, cyc>>
  ELSE IF ~e.heavy
  THEN IF Cardinality({o.st : o \in match}) > 1
       THEN /\ PrintT(<<"NOTE", "ambiguous-light", e.hi, e.oi, l>>)
            /\ skip' = TRUE /\ UNCHANGED <<st, cyc>>
       ELSE LET s2 == (CHOOSE o \in match : TRUE).st IN
            /\ Report(LightChecks(s2, e), e)
            /\ st' = s2 /\ skip' = FALSE /\ cyc' = CycNext(s2, e)
  ELSE
  LET pick == IF Cardinality(match) = 1 THEN CHOOSE o \in match : TRUE
              ELSE LET good == {o \in match : ~AnyFatal(HChecks(st, o.st, e))} IN
                   IF good # {} THEN CHOOSE o \in good : TRUE ELSE CHOOSE o \in match : TRUE
      cs   == HChecks(st, pick.st, e) \o LightChecks(pick.st, e)
  IN /\ Report(cs, e)
     /\ st' = pick.st /\ cyc' = CycNext(pick.st, e)
     /\ skip' = AnyFatal(cs)

OpStep(e) == UNCHANGED devmode /\ OpStep2(e)

Step ==
  /\ l <= Len(Rec)
  /\ LET e == Rec[l] IN
     IF e.ev = "reset" THEN ResetStep(e) ELSE OpStep(e)
  /\ l' = l + 1

Next == Step
Spec == Init /\ [][Next]_vars

Consumed == IF TLCGet("stats").diameter = Len(Rec) + 1 THEN TRUE
            ELSE PrintT(<<"STUCK", TLCGet("stats").diameter, Len(Rec)>>) /\ FALSE
=============================================================================
