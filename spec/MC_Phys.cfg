SPECIFICATION Spec
CONSTANTS Names = {"a", "b", "c"} Sizes = {0, 1, 3, 7, 8, 9, 13} MaxOps = 4 V4 = FALSE Cycles = FALSE OldPolicy = FALSE
INVARIANT InvFree InvCounts InvWF InvAbs NoGrowth
CHECK_DEADLOCK FALSE
