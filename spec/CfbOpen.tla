------------------------------ MODULE CfbOpen ------------------------------
(***************************************************************************)
(* The OPEN path of rust-cfb, transcribed check by check: what             *)
(* CompoundFile::open / open_strict decide about a byte image, in the      *)
(* order lib.rs::open_internal decides it:                                 *)
(*                                                                         *)
(*   header          Header::read_from                  (header.rs)        *)
(*   DIFAT chain     open_internal, "Read in DIFAT"     (lib.rs)           *)
(*   FAT             open_internal, "Read in FAT"       (lib.rs)           *)
(*   allocator       Allocator::validate                (alloc.rs)         *)
(*   directory chain open_internal, "Read in directory" (lib.rs)           *)
(*   entries         DirEntry::read_from                (direntry.rs)      *)
(*   sibling trees   Directory::validate                (directory.rs)     *)
(*   MiniFAT         Chain::new + "Read in MiniFAT"     (chain.rs, lib.rs) *)
(*   mini allocator  MiniAllocator::validate            (minialloc.rs)     *)
(*                                                                         *)
(* Verdict(img, strict) returns [k |-> "ok" / "err" / "unknown", stage,    *)
(* st]: the first check that fails (stage) or the in-memory tables the     *)
(* library ends up with (st): the FAT with table sectors marked, the DIFAT *)
(* after padding is stripped, the MiniFAT after truncation and the         *)
(* normalised directory entries.  The input is the raw decode of the image *)
(* (the same record CfbImage's rules read): cells are naturals, the        *)
(* markers are negative: FREE -1, END -2, FATSECT -3, DIFSECT -4,          *)
(* 0xFFFFFFFB -5, any other value from 0x7FFFFFFF up: -9 (a regular        *)
(* sector number that no file of ours reaches).                            *)
(*                                                                         *)
(* "unknown" is returned when the decode does not contain what the         *)
(* library would look at (its FAT was assembled from other sectors than    *)
(* the decoder's, or an ordering test involves a name outside the          *)
(* dictionary); such images are not compared.                              *)
(*                                                                         *)
(* What the model is used for:                                             *)
(*  - MC_Phys: every image the write-path model produces is accepted in    *)
(*    both modes (design level of C02's "reopens successfully");           *)
(*  - MC_Open: on every such image with one or two cells damaged, strict   *)
(*    acceptance implies permissive acceptance with the same tables (C16); *)
(*  - Trace_Open: the verdicts of the real library on generated layouts,   *)
(*    deviations and corruptions are compared with the model's (fidelity). *)
(***************************************************************************)
EXTENDS Naturals, Integers, Sequences, FiniteSets, TLC

CONSTANTS DifatHdrLen,        \* DIFAT entries in the header (109)
          MiniLen,            \* mini sector length (64)
          CutoffLen,          \* mini stream cutoff (4096)
          NameLess(_, _),     \* compare_names(a, b) = Less
          NameKnown(_),       \* the ordering of this name is known to the model
          RootNameStr         \* "Root Entry"

FREE == -1
END == -2
FATM == -3
DIFATM == -4
INVALID == -5
BIG == -9
Specials == {FREE, END, FATM, DIFATM, INVALID}      \* > MAX_REGULAR_SECTOR
Regular(c) == c >= 0 \/ c = BIG                     \* <= MAX_REGULAR_SECTOR
U(c) == IF c < 0 THEN 2147483647 ELSE c             \* the cell as an unsigned number (for comparisons)

TStream == 2
TStorage == 1
TRoot == 5
TUnalloc == 0

Has(r, f) == f \in DOMAIN r
Min2(a, b) == IF a < b THEN a ELSE b

(* `while s.len() > lo && P(s.last()) { s.pop() }` *)
PopLen(s, lo, P(_)) ==
  LET lo2 == Min2(lo, Len(s)) IN
  CHOOSE L \in lo2..Len(s) : (\A i \in (L + 1)..Len(s) : P(s[i])) /\ (L = lo2 \/ ~P(s[L]))
PopWhile(s, lo, P(_)) == SubSeq(s, 1, PopLen(s, lo, P))
Pad(s, n, v) == s \o [i \in 1..(IF Len(s) < n THEN n - Len(s) ELSE 0) |-> v]

(* the last sector of a file whose length is not a multiple of the sector   *)
(* length cannot be read in full: read_exact fails                           *)
Partial(img, sec) == img.flen_rem # 0 /\ sec = img.nsec - 1

---------------------------------------------------------------------------
(* Header::read_from and the length checks of open_internal                 *)
FirstFree(d) == IF \E i \in 1..Len(d) : d[i] = FREE
                THEN CHOOSE i \in 1..Len(d) : d[i] = FREE /\ \A j \in 1..(i - 1) : d[j] # FREE
                ELSE Len(d) + 1
HdrPrefix(d) == SubSeq(d, 1, FirstFree(d) - 1)      \* the header loop stops at the first FREE entry

HeaderStage(img, strict) ==
  IF img.short THEN "file-shorter-than-header"
  ELSE LET h == img.hdr IN
  IF h.magic # "d0cf11e0a1b11ae1" THEN "magic"
  ELSE IF h.bom # 65534 THEN "byte-order-mark"
  ELSE IF h.major \notin {3, 4} THEN "version"
  ELSE IF h.sshift # (IF h.major = 3 THEN 9 ELSE 12) THEN "sector-shift"
  ELSE IF h.mshift # 6 THEN "mini-sector-shift"
  ELSE IF strict /\ h.major = 3 /\ h.ndir # 0 THEN "v3-num-dir-sectors"
  ELSE IF h.cutoff # CutoffLen THEN "mini-stream-cutoff"
  ELSE IF \E i \in 1..Len(HdrPrefix(h.difat)) : h.difat[i] \in Specials THEN "header-difat-entry"
  ELSE IF img.flen < img.slen THEN "file-shorter-than-sector"
  ELSE ""

(* "Read in DIFAT".  The decoder followed the chain while it stayed inside  *)
(* the file and did not repeat; difat_end is the value it stopped at.       *)
DifatStage(img, strict) ==
  LET h == img.hdr  e == img.difat_end  n == Len(img.difat_secs) IN
  IF e \notin {END, FREE} THEN "difat-chain"        \* invalid marker, beyond the file, or a repeated sector
  ELSE IF \E i \in 1..n : Partial(img, img.difat_secs[i]) THEN "io"
  ELSE IF \E i \in 1..Len(img.difat_ext) : img.difat_ext[i] \in (Specials \ {FREE}) THEN "difat-entry"
  ELSE IF strict /\ e = FREE /\ n > 0 THEN "difat-chain-ends-free"
  ELSE IF strict /\ U(h.ndifat) # n THEN "num-difat-sectors"
  ELSE ""

LibDifat(img, strict) ==
  LET h == img.hdr
      d0 == Pad(HdrPrefix(h.difat), DifatHdrLen, FREE) \o Pad(img.difat_ext, img.difat_ext_rawlen, FREE)
      d1 == IF strict THEN d0
            ELSE LET lo == IF U(h.nfat) > DifatHdrLen THEN U(h.nfat) ELSE DifatHdrLen
                 IN PopWhile(d0, lo, LAMBDA c : c = 0)
  IN PopWhile(d1, 0, LAMBDA c : c = FREE)

(* the cells of the sectors the DIFAT names (small files only) *)
CellsKnown(img, difat) ==
  Has(img, "fat_cells") /\ \A i \in 1..Len(difat) : \E j \in 1..Len(img.fat_cells) : img.fat_cells[j][1] = difat[i]
CellsOf(img, sec) == img.fat_cells[CHOOSE j \in 1..Len(img.fat_cells) : img.fat_cells[j][1] = sec][2]
RECURSIVE CatCells(_, _, _, _)
CatCells(img, difat, a, b) ==
  IF a > b THEN <<>> ELSE IF a = b THEN CellsOf(img, difat[a])
  ELSE LET m == (a + b) \div 2 IN CatCells(img, difat, a, m) \o CatCells(img, difat, m + 1, b)

FatStage(img, strict, difat) ==
  IF strict /\ U(img.hdr.nfat) # Len(difat) THEN "num-fat-sectors"
  ELSE IF \E i \in 1..Len(difat) : difat[i] < 0 \/ difat[i] >= img.nsec THEN "fat-sector-beyond-file"
  ELSE IF \E i \in 1..Len(difat) : Partial(img, difat[i]) THEN "io"
  ELSE IF difat # img.fat_secs /\ ~CellsKnown(img, difat) THEN "?fat-assembled-differently"
  ELSE ""

LibFatRaw(img, strict, difat) ==
  LET raw == IF difat = img.fat_secs THEN img.fat \o (IF Has(img, "fat_tail") THEN img.fat_tail ELSE <<>>)
             ELSE CatCells(img, difat, 1, Len(difat))
      f1 == IF strict THEN raw ELSE PopWhile(raw, img.nsec, LAMBDA c : c \in {0, DIFATM, FATM, FREE})
      f2 == PopWhile(f1, img.nsec, LAMBDA c : c = FREE)
  IN Pad(f2, img.nsec, FREE)

(* Allocator::validate; returns [stage, fat] *)
AllocValidate(img, strict, difat, fat0) ==
  LET n == Len(fat0)
      dsecs == {img.difat_secs[i] : i \in 1..Len(img.difat_secs)}
      fsecs == {difat[i] : i \in 1..Len(difat)}
      fat1 == [i \in 1..n |-> IF (i - 1) \in dsecs THEN DIFATM ELSE fat0[i]]
      fat2 == [i \in 1..n |-> IF (i - 1) \in fsecs THEN FATM ELSE fat1[i]]
      ptrs == {i \in 1..n : Regular(fat2[i])}
      stage ==
        IF n > img.nsec THEN "fat-longer-than-file"
        ELSE IF \E d \in dsecs : d >= n THEN "difat-sector-beyond-fat"
        ELSE IF strict /\ \E d \in dsecs : fat0[d + 1] # DIFATM THEN "difat-sector-unmarked"
        ELSE IF \E f \in fsecs : f >= n THEN "fat-sector-beyond-fat"
        ELSE IF strict /\ \E f \in fsecs : fat1[f + 1] # FATM THEN "fat-sector-unmarked"
        ELSE IF \E i \in 1..n : fat2[i] = INVALID THEN "fat-invalid-entry"
        ELSE IF \E i \in ptrs : U(fat2[i]) >= n THEN "fat-pointee-beyond-fat"
        ELSE IF Cardinality({fat2[i] : i \in ptrs}) # Cardinality(ptrs) THEN "sector-pointed-to-twice"
        ELSE ""
  IN [stage |-> stage, fat |-> fat2]

(* Allocator::next *)
NextOK(fat, cur) ==
  /\ cur >= 0 /\ cur < Len(fat)
  /\ LET v == fat[cur + 1] IN v = END \/ (v >= 0 /\ v < Len(fat))

(* "Read in directory": the loop over the directory chain.                  *)
(* Returns [stage, secs].                                                   *)
RECURSIVE DirWalk(_, _, _, _, _)
DirWalk(img, strict, fat, cur, acc) ==
  IF cur = END THEN [stage |-> "", secs |-> acc]
  ELSE IF strict /\ img.hdr.major = 4 /\ Len(acc) + 1 > U(img.hdr.ndir) THEN [stage |-> "num-dir-sectors", secs |-> acc]
  ELSE IF cur \in Specials THEN [stage |-> "dir-chain-invalid-sector", secs |-> acc]
  ELSE IF cur = BIG \/ cur >= img.nsec THEN [stage |-> "dir-chain-beyond-file", secs |-> acc]
  ELSE IF \E i \in 1..Len(acc) : acc[i] = cur THEN [stage |-> "dir-chain-repeats", secs |-> acc]
  ELSE IF Partial(img, cur) THEN [stage |-> "io", secs |-> acc]
  ELSE IF ~NextOK(fat, cur) THEN [stage |-> "dir-chain-next-invalid", secs |-> Append(acc, cur)]
  ELSE DirWalk(img, strict, fat, fat[cur + 1], Append(acc, cur))

(* DirEntry::read_from on one 128-byte slot *)
SlotStage(s, strict, major) ==
  LET size == IF major = 3 THEN s.size3 ELSE s.size IN
  IF s.nlen > 64 THEN "name-length-too-large"
  ELSE IF s.nlen % 2 # 0 THEN "name-length-odd"
  ELSE IF strict /\ ~s.t0 THEN "name-not-terminated"
  ELSE IF ~s.utf16 THEN "name-not-utf16"
  ELSE IF s.type \notin {TUnalloc, TStorage, TStream, TRoot} THEN "object-type"
  ELSE IF s.type = TRoot /\ strict /\ s.name # RootNameStr THEN "root-name"
  ELSE IF s.type # TRoot /\ s.nbad THEN "name-forbidden-character"
  ELSE IF s.color \notin {0, 1} THEN "color"
  ELSE IF s.linv THEN "left-sibling-invalid"
  ELSE IF s.rinv THEN "right-sibling-invalid"
  ELSE IF s.child # -1 /\ s.type = TStream THEN "stream-with-child"
  ELSE IF s.cinv THEN "child-invalid"
  ELSE IF strict /\ s.type = TStream /\ s.clsid # "00000000000000000000000000000000" THEN "stream-clsid"
  ELSE IF strict /\ s.type = TStream /\ s.ct # <<0, 0, 0>> THEN "stream-creation-time"
  ELSE IF strict /\ s.type = TStream /\ s.mt # <<0, 0, 0>> THEN "stream-modified-time"
  ELSE IF strict /\ s.type = TStorage /\ s.start # 0 THEN "storage-start-sector"
  ELSE IF strict /\ s.type = TStorage /\ size # 0 THEN "storage-length"
  ELSE ""

(* what read_from returns for an accepted slot *)
Norm(s, major) ==
  LET stream == s.type = TStream  storage == s.type = TStorage IN
  [name |-> IF s.type = TRoot THEN RootNameStr ELSE s.name,
   type |-> s.type, red |-> s.color = 0, left |-> s.left, right |-> s.right, child |-> s.child,
   clsid |-> IF stream THEN "00000000000000000000000000000000" ELSE s.clsid,
   bits |-> s.bits,
   ct |-> IF stream THEN <<0, 0, 0>> ELSE s.ct,
   mt |-> IF stream THEN <<0, 0, 0>> ELSE s.mt,
   start |-> IF storage THEN 0 ELSE s.start,
   size |-> IF storage THEN 0 ELSE IF major = 3 THEN s.size3 ELSE s.size,
   szmod |-> IF storage THEN 0 ELSE s.szmod]

(* Directory::validate: depth-first walk from the root over left / right /  *)
(* child links.  A slot reached twice is a "loop in tree".                   *)
Links(e) == (IF e.left # -1 THEN {<<"l", e.left>>} ELSE {}) \cup (IF e.right # -1 THEN {<<"r", e.right>>} ELSE {})
            \cup (IF e.child # -1 THEN {<<"c", e.child>>} ELSE {})
RECURSIVE Reach(_, _, _)
Reach(ents, frontier, seen) ==
  IF frontier = {} THEN seen
  ELSE LET n == Len(ents)
           nxt == {U(l[2]) : l \in UNION {Links(ents[i + 1]) : i \in frontier}}
           ok == {x \in nxt : x < n} \ seen
       IN Reach(ents, ok, seen \cup ok)

DirValidate(ents, strict) ==
  IF Len(ents) = 0 THEN "root-entry-missing"
  ELSE IF ents[1].szmod # 0 THEN "root-stream-length"
  ELSE
  LET n == Len(ents)
      R == Reach(ents, {0}, {0})
      refs == UNION {{<<i, l>> : l \in Links(ents[i + 1])} : i \in R}      \* <<from, <<kind, to>>>>
      tgt(r) == U(r[2][2])
  IN
  IF ents[1].type # TRoot THEN "root-object-type"
  ELSE IF \E i \in R \ {0} : ents[i + 1].type \notin {TStorage, TStream} THEN "entry-object-type"
  ELSE IF \E r \in refs : tgt(r) >= n THEN "link-beyond-directory"
  ELSE IF \E r \in refs : tgt(r) = 0 THEN "loop-in-tree"
  ELSE IF \E r1, r2 \in refs : r1 # r2 /\ tgt(r1) = tgt(r2) THEN "loop-in-tree"
  ELSE IF strict /\ \E r \in refs : r[2][1] \in {"l", "r"} /\ ents[r[1] + 1].red /\ ents[tgt(r) + 1].red THEN "adjacent-red"
  ELSE IF \E r \in refs : r[2][1] \in {"l", "r"} /\ ~(NameKnown(ents[r[1] + 1].name) /\ NameKnown(ents[tgt(r) + 1].name))
       THEN "?name-order-unknown"
  ELSE IF \E r \in refs : r[2][1] = "l" /\ ~NameLess(ents[tgt(r) + 1].name, ents[r[1] + 1].name) THEN "name-order"
  ELSE IF \E r \in refs : r[2][1] = "r" /\ ~NameLess(ents[r[1] + 1].name, ents[tgt(r) + 1].name) THEN "name-order"
  ELSE ""

(* Chain::new *)
RECURSIVE ChainWalk(_, _, _, _)
ChainWalk(fat, first, cur, acc) ==
  IF cur = END THEN [stage |-> "", secs |-> acc]
  ELSE IF ~NextOK(fat, cur) THEN [stage |-> "chain-next-invalid", secs |-> acc]
  ELSE IF fat[cur + 1] = first THEN [stage |-> "chain-returns-to-start", secs |-> acc]
  ELSE ChainWalk(fat, first, fat[cur + 1], Append(acc, cur))

(* MiniAllocator::validate; returns [stage, minifat] *)
MiniValidate(strict, root, minifat0) ==
  LET rootMini == U(root.size) \div MiniLen
      short == rootMini < Len(minifat0)
      mf == IF short /\ ~strict THEN SubSeq(minifat0, 1, rootMini) ELSE minifat0
      n == Len(mf)
      ptrs == {i \in 1..n : Regular(mf[i])}
      stage ==
        IF short /\ strict THEN "minifat-longer-than-mini-stream"
        ELSE IF \E i \in ptrs : U(mf[i]) >= n THEN "minifat-pointee-beyond"
        ELSE IF Cardinality({mf[i] : i \in ptrs}) # Cardinality(ptrs) THEN "mini-sector-pointed-to-twice"
        ELSE ""
  IN [stage |-> stage, minifat |-> mf]

---------------------------------------------------------------------------
Res(stage, st) ==
  IF stage = "" THEN [k |-> "ok", stage |-> "", st |-> st]
  ELSE IF SubSeq(stage, 1, 1) = "?" THEN [k |-> "unknown", stage |-> stage, st |-> <<>>]
  ELSE [k |-> "err", stage |-> stage, st |-> <<>>]

Verdict(img, strict) ==
  LET s1 == HeaderStage(img, strict) IN
  IF s1 # "" THEN Res(s1, <<>>) ELSE
  LET s2 == DifatStage(img, strict) IN
  IF s2 # "" THEN Res(s2, <<>>) ELSE
  LET difat == LibDifat(img, strict)
      s3 == FatStage(img, strict, difat) IN
  IF s3 # "" THEN Res(s3, <<>>) ELSE
  LET av == AllocValidate(img, strict, difat, LibFatRaw(img, strict, difat)) IN
  IF av.stage # "" THEN Res(av.stage, <<>>) ELSE
  LET fat == av.fat
      first == img.hdr.first_dir
      dw == DirWalk(img, strict, fat, first, <<>>) IN
  IF dw.stage # "" THEN Res(dw.stage, <<>>) ELSE
  IF dw.secs # img.dir_secs THEN Res("?directory-read-from-other-sectors", <<>>) ELSE
  LET major == img.hdr.major
      bad == {i \in 1..Len(img.slots) : SlotStage(img.slots[i], strict, major) # ""} IN
  IF bad # {} THEN Res(SlotStage(img.slots[CHOOSE i \in bad : \A j \in bad : i <= j], strict, major), <<>>) ELSE
  LET ents == [i \in 1..Len(img.slots) |-> Norm(img.slots[i], major)]
      s6 == DirValidate(ents, strict) IN
  IF s6 # "" THEN Res(s6, <<>>) ELSE
  LET mfirst == img.hdr.first_minifat
      cw == ChainWalk(fat, mfirst, mfirst, <<>>) IN
  IF cw.stage # "" THEN Res(cw.stage, <<>>) ELSE
  IF strict /\ U(img.hdr.nminifat) # Len(cw.secs) THEN Res("num-minifat-sectors", <<>>) ELSE
  IF \E i \in 1..Len(cw.secs) : Partial(img, cw.secs[i]) THEN Res("io", <<>>) ELSE
  IF cw.secs # img.minifat_secs THEN Res("?minifat-read-from-other-sectors", <<>>) ELSE
  LET mv == MiniValidate(strict, ents[1], img.minifat) IN
  IF mv.stage # "" THEN Res(mv.stage, <<>>) ELSE
  Res("", [fat |-> fat, difat |-> difat, difat_secs |-> img.difat_secs, minifat |-> mv.minifat,
           first_dir |-> first, first_minifat |-> mfirst, ents |-> ents])

(* C16, on the model: whatever strict open accepts, permissive open accepts *)
(* with the same tables and entries.                                         *)
StrictImpliesPermissive(img) ==
  LET a == Verdict(img, TRUE)  b == Verdict(img, FALSE) IN
  a.k = "ok" => (b.k = "ok" /\ b.st = a.st)
=============================================================================
