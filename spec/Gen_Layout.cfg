SPECIFICATION Spec
CONSTANT Dict <- DictAll
CONSTANTS Ver = 3 Gaps = 1 SlotSlack = 0 MiniGaps = 1 Canonical = FALSE
INVARIANT EmitLayout
CHECK_DEADLOCK FALSE
