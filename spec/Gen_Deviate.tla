---------------------------- MODULE Gen_Deviate ----------------------------
(***************************************************************************)
(* C16, second half: every deviation from MS-CFB that rust-cfb documents   *)
(* as tolerated, injected into a legal layout (Gen_Layout) at every        *)
(* applicable place, singly and in pairs from independent groups.          *)
(* Specified outcome for each: permissive open succeeds and exposes the    *)
(* logical content of the UNDAMAGED file; strict open rejects.             *)
(*                                                                         *)
(* Deviations that need a DIFAT sector (zero-padded DIFAT sector, DIFAT    *)
(* sector not marked in the FAT, DIFAT chain ended by the free marker)     *)
(* need 110 FAT sectors (7 MiB) at real geometry; they are produced by     *)
(* DifatDeviations on the big layout the check synthesises for them.       *)
(***************************************************************************)
EXTENDS Gen_Layout

CONSTANTS WithPairs

Ones == "ffffffffffffffffffffffffffffffff"
(* wrong root names: unrelated, differing only in case, a prefix, an extension *)
WrongRootNames == <<"Foobar", "ROOT ENTRY", "root entry", "Root entry", "Root Entr", "Root Entry2", "R">>

AllocSlots(l) == {i \in 1..Len(l.slots) : l.slots[i].type # 0}
StreamSlots(l) == {i \in AllocSlots(l) : l.slots[i].type = 2}
StorageSlots(l) == {i \in AllocSlots(l) : l.slots[i].type = 1}
(* parent -> child edges of the sibling trees, as indices into l.slots *)
SibEdges(l) == {<<i, j>> \in AllocSlots(l) \X AllocSlots(l) :
                  i # 1 /\ (l.slots[i].left = j - 1 \/ l.slots[i].right = j - 1)}

StreamTimes == << <<27, 5, 9>>, <<524288, 0, 0>>, <<1048575, 4194303, 4194303>> >>       \* (three 20 / 22 / 22-bit limbs)

Singles(l) ==
     {[kind |-> "fat_zero_pad", grp |-> "alloc", at |-> 0, val |-> 0]}
  \* the stale cell of an unmarked FAT sector may hold anything: end / free markers, the DIFAT marker, an ordinary sector
  \* number (another cell may "point" at the same sector), a number beyond the FAT, 0xFFFFFFFB
  \cup {[kind |-> "fatsec_unmarked", grp |-> "alloc", at |-> k, val |-> v] : k \in 1..Len(l.fatsecs),
          v \in {ENDC, FREE, -4, -5, 0, 1, 2, Len(l.fat) - 1, Len(l.fat), Len(l.fat) + 7}}
  \cup (IF Len(l.minifat) > 0 /\ Len(l.minifat) < Len(l.mfsecs) * FatPer
        \* what the excess entries hold is the writer's business: the end marker, ordinary numbers (an entry that
        \* "points" at a mini sector another entry points at as well), or zeros up to the end of the sector
        \* (not FREE: the reader drops trailing free entries, a MiniFAT "extended" by one is the same valid file)
        THEN {[kind |-> "minifat_long", grp |-> "alloc", at |-> 0, val |-> v] : v \in {ENDC, 0, 1}}
             \cup {[kind |-> "minifat_zero_pad", grp |-> "alloc", at |-> 0, val |-> 0]} ELSE {})
  \cup {[kind |-> "red_red", grp |-> "dir", at |-> e, val |-> 0] : e \in SibEdges(l)}
  \cup {[kind |-> "unterminated", grp |-> "dir", at |-> i, val |-> 0] : i \in AllocSlots(l)}
  \cup {[kind |-> "root_name", grp |-> "dir", at |-> 1, val |-> v] : v \in 1..Len(WrongRootNames)}
  \cup {[kind |-> "stream_clsid", grp |-> "dir", at |-> i, val |-> 0] : i \in StreamSlots(l)}
  \* a time on a stream: a small value, one with the top bit set (2^63 ticks), all ones (uninitialised memory)
  \cup {[kind |-> k, grp |-> "dir", at |-> i, val |-> v] : k \in {"stream_ctime", "stream_mtime"}, i \in StreamSlots(l), v \in 1..3}
  \cup {[kind |-> "storage_start", grp |-> "dir", at |-> i, val |-> v] : i \in StorageSlots(l), v \in {5, ENDC, FREE}}
  \cup {[kind |-> "storage_size", grp |-> "dir", at |-> i, val |-> 77] : i \in StorageSlots(l)}
  \cup {[kind |-> "hdr_nfat", grp |-> "hdr", at |-> 0, val |-> v] : v \in {Len(l.fatsecs) + 1, 0}}
  \cup {[kind |-> "hdr_ndifat", grp |-> "hdr", at |-> 0, val |-> 1]}
  \cup {[kind |-> "hdr_nminifat", grp |-> "hdr", at |-> 0, val |-> v] :
          v \in {Len(l.mfsecs) + 1} \cup (IF Len(l.mfsecs) > 0 THEN {0} ELSE {})}
  \cup (IF l.ver = 3 THEN {[kind |-> "hdr_ndir_v3", grp |-> "hdr", at |-> 0, val |-> 1]} ELSE {})

Hdr(l) == IF "hdr" \in DOMAIN l THEN l.hdr ELSE <<>>
SetHdr(l, k, v) == [hdr |-> (k :> v) @@ Hdr(l)] @@ l

Apply(l, d) ==
  CASE d.kind = "fat_zero_pad"    -> [fat_pad |-> 0] @@ l
    [] d.kind = "fatsec_unmarked" -> [l EXCEPT !.fat[l.fatsecs[d.at] + 1] = d.val]
    [] d.kind = "minifat_long"    -> [l EXCEPT !.minifat = Append(@, d.val)]
    [] d.kind = "minifat_zero_pad" -> [minifat_pad |-> 0] @@ l
    [] d.kind = "red_red"         -> [l EXCEPT !.slots[d.at[1]].color = 0, !.slots[d.at[2]].color = 0]
    [] d.kind = "unterminated"    -> [l EXCEPT !.slots[d.at] = [unterminated |-> TRUE] @@ @]
    [] d.kind = "root_name"       -> [l EXCEPT !.slots[1] = [rawname |-> WrongRootNames[d.val]] @@ @]
    [] d.kind = "stream_clsid"    -> [l EXCEPT !.slots[d.at].clsid = Ones]
    [] d.kind = "stream_ctime"    -> [l EXCEPT !.slots[d.at].ct = StreamTimes[d.val]]
    [] d.kind = "stream_mtime"    -> [l EXCEPT !.slots[d.at].mt = StreamTimes[4 - d.val]]
    [] d.kind = "storage_start"   -> [l EXCEPT !.slots[d.at].start = d.val]
    [] d.kind = "storage_size"    -> [l EXCEPT !.slots[d.at].size = d.val]
    [] d.kind = "hdr_nfat"        -> SetHdr(l, "nfat", d.val)
    [] d.kind = "hdr_ndifat"      -> SetHdr(l, "ndifat", d.val)
    [] d.kind = "hdr_nminifat"    -> SetHdr(l, "nminifat", d.val)
    [] d.kind = "hdr_ndir_v3"     -> SetHdr(l, "ndir", d.val)

Desc(d) == d.kind \o "@" \o ToString(d.at) \o "=" \o ToString(d.val)

(* pairs only across independent groups; the code strips a zero-padded FAT   *)
(* relative to the file's sector count, which no other deviation touches     *)
KindRank(k) ==
  CASE k = "red_red" -> 1 [] k = "unterminated" -> 2 [] k = "root_name" -> 3 [] k = "stream_clsid" -> 4
    [] k = "stream_ctime" -> 5 [] k = "stream_mtime" -> 6 [] k = "storage_start" -> 7 [] k = "storage_size" -> 8
    [] k = "hdr_nfat" -> 9 [] k = "hdr_ndifat" -> 10 [] k = "hdr_nminifat" -> 11 [] k = "hdr_ndir_v3" -> 12 [] OTHER -> 13
Pairs(l) == {<<a, b>> \in Singles(l) \X Singles(l) : a.grp = "alloc" /\ b.grp \in {"dir", "hdr"}}
            \cup {<<a, b>> \in Singles(l) \X Singles(l) : a.grp = "dir" /\ b.grp = "hdr"}
            \* different leniencies of the same group, in particular on the same entry (each is
            \* normalised by its own code path; they must not shadow each other)
            \cup {<<a, b>> \in Singles(l) \X Singles(l) :
                    a.grp = b.grp /\ a.grp \in {"dir", "hdr"} /\ KindRank(a.kind) < KindRank(b.kind)
                    /\ (a.grp = "dir" => (a.kind = "red_red" \/ b.kind = "root_name" \/ a.at = b.at))}

EmitDeviations ==
  phase = "done" =>
    /\ PrintT(<<"LAYOUT", ToJson([lay |-> Lay, tree |-> TreeWalk])>>)
    /\ \A d \in Singles(Lay) :
         PrintT(<<"DEVIATION", ToJson([lay |-> Apply(Lay, d), tree |-> TreeWalk, dev |-> Desc(d)])>>)
    /\ (WithPairs =>
          \A p \in Pairs(Lay) :
            PrintT(<<"DEVIATION", ToJson([lay |-> Apply(Apply(Lay, p[1]), p[2]), tree |-> TreeWalk,
                                          dev |-> Desc(p[1]) \o "+" \o Desc(p[2])])>>))
=============================================================================
