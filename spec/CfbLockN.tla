------------------------------ MODULE CfbLockN ------------------------------
(***************************************************************************)
(* The lock protocol of rust-cfb for ANY number of threads, at the level   *)
(* at which C14's quantifier "for all N reader threads" can be discharged  *)
(* by proof rather than by enumeration.                                    *)
(*                                                                         *)
(* A thread is idle, waits for / holds the shared guard, or waits for /    *)
(* holds the exclusive guard.  The lock is std's writer-preferring futex   *)
(* RwLock: a shared request is granted only if no writer holds or waits,   *)
(* an exclusive one only if nobody holds.  What makes this machine an      *)
(* abstraction of the library is NON-REENTRANCY: a thread that holds a     *)
(* guard performs no lock step other than releasing it.  That premise is   *)
(* not assumed about the code: MC_Lock checks that CfbLock, instantiated   *)
(* with the lock programs extracted from the real library, refines this    *)
(* module (PROPERTY Refines), and Trace_Lock rejects every recorded        *)
(* acquisition made while a guard is held.  The proofs (for every finite   *)
(* or infinite set Threads) are in CfbLockN_proofs.tla, checked by tlapm.  *)
(***************************************************************************)
EXTENDS Naturals

CONSTANT Threads
VARIABLE st

States == {"idle", "waitR", "holdR", "waitW", "holdW"}

TypeOK == st \in [Threads -> States]

CanRead  == \A u \in Threads : st[u] # "holdW" /\ st[u] # "waitW"
CanWrite == \A u \in Threads : st[u] # "holdW" /\ st[u] # "holdR"

Init == st = [t \in Threads |-> "idle"]

ReqR(t)   == /\ st[t] = "idle"
             /\ st' = [st EXCEPT ![t] = IF CanRead THEN "holdR" ELSE "waitR"]
GrantR(t) == /\ st[t] = "waitR" /\ CanRead
             /\ st' = [st EXCEPT ![t] = "holdR"]
RelR(t)   == /\ st[t] = "holdR"
             /\ st' = [st EXCEPT ![t] = "idle"]
ReqW(t)   == /\ st[t] = "idle"
             /\ st' = [st EXCEPT ![t] = IF CanWrite THEN "holdW" ELSE "waitW"]
GrantW(t) == /\ st[t] = "waitW" /\ CanWrite
             /\ st' = [st EXCEPT ![t] = "holdW"]
RelW(t)   == /\ st[t] = "holdW"
             /\ st' = [st EXCEPT ![t] = "idle"]

Next == \E t \in Threads : ReqR(t) \/ GrantR(t) \/ RelR(t) \/ ReqW(t) \/ GrantW(t) \/ RelW(t)
Spec == Init /\ [][Next]_st

(* the exclusive guard excludes every other guard *)
Mutex == \A t, u \in Threads :
           (t # u /\ st[t] = "holdW") => (st[u] # "holdW" /\ st[u] # "holdR")

(* what a thread in the middle of a call can do next *)
CanStep(t) == \/ st[t] = "holdR" \/ st[t] = "holdW"
              \/ st[t] = "waitR" /\ CanRead
              \/ st[t] = "waitW" /\ CanWrite

(* C14, deadlock freedom: whenever some call is in progress, some thread   *)
(* that is in the middle of a call can take its next step.                 *)
Progress == (\E t \in Threads : st[t] # "idle") => (\E t \in Threads : CanStep(t))

Inv == TypeOK /\ Mutex

=============================================================================
