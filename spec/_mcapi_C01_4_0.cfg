SPECIFICATION Spec
CONSTANT Dict <- MCDict
CONSTANTS Names = {"foo", "FOO", "bar", "a", "bad_colon"} MaxNodes = 4 MaxOps = 4
CONSTANTS SectorLen = 4 MiniLen = 2 Cutoff = 8 FatPer = 4 DirPer = 2 DifatHdr = 1 DirCount = FALSE
CONSTRAINT Bound
INVARIANT InvAllowed InvAbs
CHECK_DEADLOCK FALSE
