------------------------------- MODULE CfbApi -------------------------------
(***************************************************************************)
(* The API layer of rust-cfb (src/lib.rs) on top of the physical model:    *)
(* what every public mutating method and every lookup does BEFORE and      *)
(* AROUND the allocator / directory operations that CfbPhys transcribes -  *)
(* path normalisation, the lookups through stream_id_for_name_chain, the   *)
(* argument checks IN THE CODE'S ORDER, the loops of create_storage_all    *)
(* and remove_storage_all (which call the single-object methods and stop   *)
(* at the first error), the setters.  Each operator is deterministic and   *)
(* returns [p |-> new physical state, res |-> result]; a refusal returns   *)
(* the state it has reached at that point, NOT the state it started from - *)
(* that a refusal has no effect is a theorem about this layer (checked by  *)
(* MC_Api: C10 at design level), not an assumption built into it.          *)
(*                                                                         *)
(* MC_Api checks the refinement CfbApi => CfbTree: for every call of a     *)
(* bounded alphabet (every method x paths with '.', '..', case variants,   *)
(* an invalid name, nested parents, stream parents) in every reachable     *)
(* state the result is one the abstract model allows (success / error and  *)
(* the kind: C01, C09), a refusal leaves the physical state untouched      *)
(* (C10), and after a success the physical state abstracts to the abstract *)
(* model's successor - names, kinds, lengths and metadata (C01, C17).      *)
(*                                                                         *)
(* Fidelity: the error kind this layer predicts is the code's own          *)
(* precedence where several refusal reasons hold at once; Trace_File       *)
(* judges the kind against CfbTree's SET of allowed kinds, Trace_Api       *)
(* compares it with this layer's single answer and reports a difference as *)
(* drift (a reordering of independent checks is not a defect).             *)
(***************************************************************************)
EXTENDS CfbTree, IOUtils

CONSTANTS SectorLen, MiniLen, Cutoff, FatPer, DirPer, DifatHdr, DirCount

ALess(a, b) == Known(a) /\ Known(b) /\ KeyLess(Units(a), Units(b))
AEq(a, b)   == (a = b) \/ (Known(a) /\ Known(b) /\ Units(a) = Units(b))
P == INSTANCE CfbPhys WITH NameLess <- ALess, NameEq <- AEq, ModuloPolicy <- FALSE, TrackData <- FALSE, Scrub <- TRUE

(* self-test switch of MC_Api: create_storage_all without its up-front validation of every component (a late *)
(* InvalidInput after earlier components were created)                                                       *)
LazyCsa == "LAZYCSA" \in DOMAIN IOEnv
NO == -1
Err(p, e) == [p |-> p, res |-> [k |-> "err", e |-> e]]
Ok(p, v)  == [p |-> p, res |-> [k |-> "ok", v |-> v]]

(* stream_id_for_name_chain: from the root, one FindChild per name; a stream has no children *)
RECURSIVE LookupFrom(_, _, _)
LookupFrom(p, cur, names) ==
  IF names = <<>> \/ cur = NO THEN cur
  ELSE LookupFrom(p, P!FindChild(p, cur, Head(names)), Tail(names))
Lookup(p, names) == LookupFrom(p, 0, names)
KindOf(p, id) == P!E(p, id).kind

(* create_storage_with_path on an already normalised name chain *)
ApiCreateStorageNames(p, names, now) ==
  IF Lookup(p, names) # NO THEN Err(p, "AlreadyExists")             \* (the root included: names = <<>>)
  ELSE LET name == Last(names)  par == Lookup(p, Front(names)) IN
       IF ~Valid(name) THEN Err(p, "InvalidInput")                   \* validate_name comes before the parent lookup
       ELSE IF par = NO THEN Err(p, "NotFound")
       ELSE IF KindOf(p, par) = P!KStream THEN Err(p, "InvalidInput")
       ELSE Ok(P!CreateStorageAt(p, par, name, now), "unit")
ApiCreateStorage(p, sp, now) ==
  LET nc == Normalize(sp) IN
  IF ~nc.ok THEN Err(p, "InvalidInput") ELSE ApiCreateStorageNames(p, nc.names, now)

(* create_storage_all: every component validated up front, then one create_storage per missing prefix *)
RECURSIVE CsaLoop(_, _, _, _)
CsaLoop(p, names, i, now) ==
  IF i > Len(names) THEN Ok(p, "unit")
  ELSE LET pre == SubSeq(names, 1, i)  id == Lookup(p, pre) IN
       IF id # NO /\ KindOf(p, id) # P!KStream THEN CsaLoop(p, names, i + 1, now)       \* is_storage(prefix)
       ELSE LET r == ApiCreateStorageNames(p, pre, now) IN
            IF r.res.k = "err" THEN r ELSE CsaLoop(r.p, names, i + 1, now)
ApiCreateStorageAll(p, sp, now) ==
  LET nc == Normalize(sp) IN
  IF ~nc.ok THEN Err(p, "InvalidInput")
  ELSE IF ~LazyCsa /\ \E i \in 1..Len(nc.names) : ~Valid(nc.names[i]) THEN Err(p, "InvalidInput")
  ELSE CsaLoop(p, nc.names, 1, now)

(* create_stream / create_new_stream *)
ApiCreateStream(p, sp, overwrite) ==
  LET nc == Normalize(sp) IN
  IF ~nc.ok THEN Err(p, "InvalidInput")
  ELSE LET id == Lookup(p, nc.names) IN
  IF id # NO
  THEN IF KindOf(p, id) # P!KStream THEN Err(p, "AlreadyExists")
       ELSE IF ~overwrite THEN Err(p, "AlreadyExists")
       ELSE Ok(P!SetLen(p, id, 0), "unit")                           \* Stream::new + set_len(0): the entry stays
  ELSE LET name == Last(nc.names)  par == Lookup(p, Front(nc.names)) IN
       IF ~Valid(name) THEN Err(p, "InvalidInput")
       ELSE IF par = NO THEN Err(p, "NotFound")
       ELSE IF KindOf(p, par) = P!KStream THEN Err(p, "InvalidInput")
       ELSE Ok(P!InsertEntry(p, par, name, P!KStream).p, "unit")

ApiRemoveStreamNames(p, names) ==
  LET id == Lookup(p, names) IN
  IF id = NO THEN Err(p, "NotFound")
  ELSE IF KindOf(p, id) # P!KStream THEN Err(p, "InvalidInput")      \* the root included
  ELSE Ok(P!RemoveStream(p, Lookup(p, Front(names)), Last(names)), "unit")
ApiRemoveStream(p, sp) ==
  LET nc == Normalize(sp) IN IF ~nc.ok THEN Err(p, "InvalidInput") ELSE ApiRemoveStreamNames(p, nc.names)

ApiRemoveStorageNames(p, names) ==
  LET id == Lookup(p, names) IN
  IF id = NO THEN Err(p, "NotFound")
  ELSE IF KindOf(p, id) = P!KRoot THEN Err(p, "InvalidInput")
  ELSE IF KindOf(p, id) = P!KStream THEN Err(p, "InvalidInput")
  ELSE IF P!E(p, id).child # NO THEN Err(p, "InvalidInput")
  ELSE Ok(P!RemoveStorage(p, Lookup(p, Front(names)), Last(names)), "unit")
ApiRemoveStorage(p, sp) ==
  LET nc == Normalize(sp) IN IF ~nc.ok THEN Err(p, "InvalidInput") ELSE ApiRemoveStorageNames(p, nc.names)

(* walk_storage(path) collected, then consumed from its end: streams by remove_stream, storages (not the root) by   *)
(* remove_storage, each addressed by the path the walk built from the STORED names; the first error ends the loop   *)
RECURSIVE InOrd(_, _)
InOrd(p, cur) == IF cur = NO THEN <<>> ELSE InOrd(p, P!E(p, cur).left) \o <<cur>> \o InOrd(p, P!E(p, cur).right)
RECURSIVE WalkNames(_, _, _)
WalkNames(p, id, path) ==                      \* pre-order: sequence of [names, kind]
  LET kids == InOrd(p, P!E(p, id).child)
      F[i \in 0..Len(kids)] == IF i = 0 THEN <<>> ELSE F[i - 1] \o WalkNames(p, kids[i], Append(path, P!E(p, kids[i]).name))
  IN <<[names |-> path, kind |-> KindOf(p, id)]>> \o F[Len(kids)]
RECURSIVE RsaLoop(_, _, _)
RsaLoop(p, w, i) ==
  IF i = 0 THEN Ok(p, "unit")
  ELSE LET x == w[i]
           r == IF x.kind = P!KStream THEN ApiRemoveStreamNames(p, x.names)
                ELSE IF x.kind = P!KRoot THEN Ok(p, "unit")
                ELSE ApiRemoveStorageNames(p, x.names)
       IN IF r.res.k = "err" THEN r ELSE RsaLoop(r.p, w, i - 1)
StoredPath(p, names) == [i \in 1..Len(names) |-> P!E(p, Lookup(p, SubSeq(names, 1, i))).name]
ApiRemoveStorageAll(p, sp) ==
  LET nc == Normalize(sp) IN
  IF ~nc.ok THEN Err(p, "InvalidInput")
  ELSE LET id == Lookup(p, nc.names) IN
       IF id = NO THEN Err(p, "NotFound")
       ELSE LET w == WalkNames(p, id, StoredPath(p, nc.names)) IN RsaLoop(p, w, Len(w))

(* the setters *)
WithEntry(p, sp, clsidOnly, f(_, _)) ==
  LET nc == Normalize(sp) IN
  IF ~nc.ok THEN Err(p, "InvalidInput")
  ELSE LET id == Lookup(p, nc.names) IN
       IF id = NO THEN Err(p, "NotFound")
       ELSE IF clsidOnly /\ KindOf(p, id) = P!KStream THEN Err(p, "InvalidInput")
       ELSE Ok(f(p, id), "unit")
ApiSetClsid(p, sp, c) == LET F(q, id) == P!SetClsid(q, id, c) IN WithEntry(p, sp, TRUE, F)
ApiSetBits(p, sp, b)  == LET F(q, id) == P!SetBits(q, id, b) IN WithEntry(p, sp, FALSE, F)
ApiSetCTime(p, sp, t) == LET F(q, id) == P!SetCTime(q, id, t) IN WithEntry(p, sp, FALSE, F)
ApiSetMTime(p, sp, t) == LET F(q, id) == P!SetMTime(q, id, t) IN WithEntry(p, sp, FALSE, F)

(* whole-stream write through a fresh handle (open_stream, seek, write_all, flush) and set_len *)
ApiWriteAt(p, sp, off, n) ==
  LET nc == Normalize(sp) IN
  IF ~nc.ok THEN Err(p, "InvalidInput")
  ELSE LET id == Lookup(p, nc.names) IN
       IF id = NO THEN Err(p, "NotFound")
       ELSE IF KindOf(p, id) # P!KStream THEN Err(p, "InvalidInput")
       ELSE IF off > P!E(p, id).size THEN Err(p, "InvalidInput")      \* the seek is refused
       ELSE Ok(P!WriteData(p, id, off, n), "unit")
ApiSetLen(p, sp, n) ==
  LET nc == Normalize(sp) IN
  IF ~nc.ok THEN Err(p, "InvalidInput")
  ELSE LET id == Lookup(p, nc.names) IN
       IF id = NO THEN Err(p, "NotFound")
       ELSE IF KindOf(p, id) # P!KStream THEN Err(p, "InvalidInput")
       ELSE Ok(P!SetLen(p, id, n), "unit")

(* lookups that can be refused (only the kind of the answer is modelled here: the listings themselves are CfbTree's) *)
ApiResolve(p, sp, needStream, needStorage) ==
  LET nc == Normalize(sp) IN
  IF ~nc.ok THEN Err(p, "InvalidInput")
  ELSE LET id == Lookup(p, nc.names) IN
       IF id = NO THEN Err(p, "NotFound")
       ELSE IF needStream /\ KindOf(p, id) # P!KStream THEN Err(p, "InvalidInput")
       ELSE IF needStorage /\ KindOf(p, id) = P!KStream THEN Err(p, "InvalidInput")
       ELSE Ok(p, "unit")
ApiEntry(p, sp)       == ApiResolve(p, sp, FALSE, FALSE)
ApiOpenStream(p, sp)  == ApiResolve(p, sp, TRUE, FALSE)
ApiReadStorage(p, sp) == ApiResolve(p, sp, FALSE, TRUE)
ApiWalkStorage(p, sp) == ApiResolve(p, sp, FALSE, FALSE)

(* lookups *)
ApiExists(p, sp)    == LET nc == Normalize(sp) IN Ok(p, nc.ok /\ Lookup(p, nc.names) # NO)
ApiIsStream(p, sp)  == LET nc == Normalize(sp) IN
                    Ok(p, nc.ok /\ Lookup(p, nc.names) # NO /\ KindOf(p, Lookup(p, nc.names)) = P!KStream)
ApiIsStorage(p, sp) == LET nc == Normalize(sp) IN
                    Ok(p, nc.ok /\ Lookup(p, nc.names) # NO /\ KindOf(p, Lookup(p, nc.names)) # P!KStream)

---------------------------------------------------------------------------
(* Abstraction of a physical state to CfbTree's tree (lengths instead of bytes: RLen of the data; the root entry's  *)
(* length field is the mini stream's, an allocator artefact, and is not part of the logical content)               *)
RECURSIVE AbsFrom(_, _, _)
AbsFrom(p, id, kp) ==
  LET e == P!E(p, id)
      node == [kind |-> IF e.kind = P!KRoot THEN "root" ELSE IF e.kind = P!KStream THEN "stream" ELSE "storage",
               name |-> e.name, len |-> (IF e.kind = P!KStream THEN e.size ELSE 0), clsid |-> e.clsid, bits |-> e.bits, ct |-> e.ct, mt |-> e.mt]
      kids == InOrd(p, e.child)
      F[i \in 0..Len(kids)] == IF i = 0 THEN (kp :> node)
                               ELSE F[i - 1] @@ AbsFrom(p, kids[i], Append(kp, Units(P!E(p, kids[i]).name)))
  IN F[Len(kids)]
AbsTree(p) == AbsFrom(p, 0, <<>>)
TreeView(t) == [kp \in DOMAIN t |-> [kind |-> t[kp].kind, name |-> t[kp].name, len |-> RLen(t[kp].data),
                                     clsid |-> t[kp].clsid, bits |-> t[kp].bits, ct |-> t[kp].ct, mt |-> t[kp].mt]]
=============================================================================
