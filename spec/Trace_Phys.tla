----------------------------- MODULE Trace_Phys -----------------------------
(***************************************************************************)
(* Fidelity-level conformance of CfbPhys: the model, instantiated at the   *)
(* REAL geometries (V3: 512-byte sectors, 128 FAT cells, 4 directory slots *)
(* per sector; V4: 4096 / 1024 / 32; 109 header DIFAT entries), replays    *)
(* the file-level histories recorded by drive.rs and predicts, after every *)
(* operation, the exact allocation tables of the image the library wrote:  *)
(* FAT, DIFAT, MiniFAT, every directory slot's name / type / links / start *)
(* / size, the header counters and the number of sectors - and every       *)
(* slot's colour, CLSID, state bits and timestamps (mismatch kind "meta").  *)
(* A mismatch is printed as a DRIFT line.                                  *)
(* Histories that start from a file written by someone else (TLC-generated *)
(* layouts of C04: any sector order, slot gaps, red-black sibling trees)   *)
(* are followed too: the model state is then loaded from the decode of the *)
(* start image the way open() loads it (FromImage), so the model's removal *)
(* recolouring and its allocation out of ascending free lists are compared *)
(* with the code on foreign trees and fragmented tables as well.           *)
(*                                                                         *)
(* This is NOT a property-level verdict (a maintainer may change an        *)
(* allocation policy without breaking any property); it is what licenses   *)
(* reading MC_Phys's exhaustive design-level results as statements about   *)
(* the code: as long as no DRIFT is reported, the code follows the model   *)
(* the invariants were proved on.                                          *)
(* Only successful calls change the predicted state (refused calls have no *)
(* effect: that is C10, judged elsewhere).  Stream handles kept across     *)
(* events and non-default buffer sizes are outside this validator.         *)
(***************************************************************************)
EXTENDS CfbTree, Json, IOUtils, TLCExt

Rec    == ndJsonDeserialize(IOEnv.TRACE)
\* TLC evaluates a definition that the configuration substitutes for a constant again at EVERY use, but caches
\* an ordinary constant definition; the file is therefore read by DictFile (once) and DictIn only refers to it
\* (the Json module also leaks one file descriptor per read)
DictFile == JsonDeserialize(IOEnv.DICT)
DictIn == DictFile
Vals == JsonDeserialize(IOEnv.VALUES)

PLess(a, b) == Known(a) /\ Known(b) /\ KeyLess(Units(a), Units(b))
PEq(a, b)   == (a = b) \/ (Known(a) /\ Known(b) /\ Units(a) = Units(b))

P3 == INSTANCE CfbPhys WITH SectorLen <- 512, MiniLen <- 64, Cutoff <- 4096, FatPer <- 128, DirPer <- 4, DifatHdr <- 109,
                            DirCount <- FALSE, NameLess <- PLess, NameEq <- PEq, ModuloPolicy <- FALSE, TrackData <- FALSE, Scrub <- TRUE
P4 == INSTANCE CfbPhys WITH SectorLen <- 4096, MiniLen <- 64, Cutoff <- 4096, FatPer <- 1024, DirPer <- 32, DifatHdr <- 109,
                            DirCount <- TRUE, NameLess <- PLess, NameEq <- PEq, ModuloPolicy <- FALSE, TrackData <- FALSE, Scrub <- TRUE

(* The API layer (CfbApi = lib.rs on top of CfbPhys) at the real geometries: for every call the library REFUSED, the   *)
(* error kind the model's check order yields in the same physical state is compared with the library's ("api" drift).  *)
A3 == INSTANCE CfbApi WITH SectorLen <- 512, MiniLen <- 64, Cutoff <- 4096, FatPer <- 128, DirPer <- 4, DifatHdr <- 109, DirCount <- FALSE
A4 == INSTANCE CfbApi WITH SectorLen <- 4096, MiniLen <- 64, Cutoff <- 4096, FatPer <- 1024, DirPer <- 32, DifatHdr <- 109, DirCount <- TRUE

VARIABLES q, ver, l, skip
vars == <<q, ver, l, skip>>

Has(e, f) == f \in DOMAIN e
MB == 1048576        \* DEFAULT_STREAM_MAX_BUFFER_SIZE: one write-back per MiB of a long write

(* version dispatch *)
XFresh(v)                 == IF v = 3 THEN P3!Fresh ELSE P4!Fresh
XFindChild(p, par, n)     == IF ver = 3 THEN P3!FindChild(p, par, n) ELSE P4!FindChild(p, par, n)
XCreateStorage(p, par, n) == IF ver = 3 THEN P3!CreateStorage(p, par, n) ELSE P4!CreateStorage(p, par, n)
XCreateStream(p, par, n)  == IF ver = 3 THEN P3!CreateStream(p, par, n) ELSE P4!CreateStream(p, par, n)
XRemoveStream(p, par, n)  == IF ver = 3 THEN P3!RemoveStream(p, par, n) ELSE P4!RemoveStream(p, par, n)
XRemoveStorage(p, par, n) == IF ver = 3 THEN P3!RemoveStorage(p, par, n) ELSE P4!RemoveStorage(p, par, n)
XWriteData(p, id, o, n)   == IF ver = 3 THEN P3!WriteData(p, id, o, n) ELSE P4!WriteData(p, id, o, n)
XSetLen(p, id, n)         == IF ver = 3 THEN P3!SetLen(p, id, n) ELSE P4!SetLen(p, id, n)
XReload(p)                == IF ver = 3 THEN P3!Reload(p) ELSE P4!Reload(p)
XWriteCase(p, id, o, n)   == IF ver = 3 THEN P3!WriteCaseOf(p, id, o, n) ELSE P4!WriteCaseOf(p, id, o, n)
XResizeCase(p, id, n)     == IF ver = 3 THEN P3!ResizeCaseOf(p, id, n) ELSE P4!ResizeCaseOf(p, id, n)
XStepClass(w, p, p2)      == IF ver = 3 THEN "v3:" \o P3!StepClass(w, p, p2) ELSE "v4:" \o P4!StepClass(w, p, p2)
KStream == 2
KStorage == 1
SetSlot(p, id, e) == [p EXCEPT !.slots[id + 1] = e]

RECURSIVE ResolveFrom(_, _, _)
ResolveFrom(p, cur, names) ==
  IF names = <<>> \/ cur = -1 THEN cur
  ELSE ResolveFrom(p, XFindChild(p, cur, Head(names)), Tail(names))
XResolve(p, names) == ResolveFrom(p, 0, names)

RECURSIVE WriteChunks(_, _, _, _)
WriteChunks(p, id, off, n) ==
  IF n <= MB THEN XWriteData(p, id, off, n)
  ELSE WriteChunks(XWriteData(p, id, off, MB), id, off + MB, n - MB)

RECURSIVE CsaGoP(_, _, _)
CsaGoP(p, names, i) ==
  IF i > Len(names) THEN p
  ELSE LET par == XResolve(p, SubSeq(names, 1, i - 1)) IN
       IF XFindChild(p, par, names[i]) # -1 THEN CsaGoP(p, names, i + 1)
       ELSE CsaGoP(XCreateStorage(p, par, names[i]), names, i + 1)

(* pre-order walk of the subtree at slot id: sequence of [id, par, name, kind] *)
RECURSIVE InOrderP(_, _)
InOrderP(p, cur) == IF cur = -1 THEN <<>>
                    ELSE InOrderP(p, p.slots[cur + 1].left) \o <<cur>> \o InOrderP(p, p.slots[cur + 1].right)
RECURSIVE WalkP(_, _, _)
WalkP(p, id, par) ==
  LET kids == InOrderP(p, p.slots[id + 1].child)
      F[i \in 0..Len(kids)] == IF i = 0 THEN <<>> ELSE F[i - 1] \o WalkP(p, kids[i], id)
  IN <<[id |-> id, par |-> par, name |-> p.slots[id + 1].name, kind |-> p.slots[id + 1].kind]>> \o F[Len(kids)]
(* remove_storage_all: the collected walk is consumed from its end *)
RECURSIVE RemoveAllGo(_, _, _)
RemoveAllGo(p, w, i) ==
  IF i = 0 THEN p
  ELSE LET x == w[i] IN
       IF x.kind = KStream THEN RemoveAllGo(XRemoveStream(p, x.par, x.name), w, i - 1)
       ELSE IF x.id = 0 THEN RemoveAllGo(p, w, i - 1)
       ELSE RemoveAllGo(XRemoveStorage(p, x.par, x.name), w, i - 1)

ParentOfPath(p, names) == XResolve(p, SubSeq(names, 1, Len(names) - 1))

(* the stored spelling of the path to slot id (pre-order walk entries carry [id, par, name]) *)
RECURSIVE PathOfSlot(_, _)
PathOfSlot(w, id) ==
  IF id = 0 THEN <<>>
  ELSE LET x == w[CHOOSE i \in 1..Len(w) : w[i].id = id] IN PathOfSlot(w, x.par) \o <<x.name>>
(* insert_dir_entry stamps a new storage with the clock; the reading is taken from the event's `times` (the API's  *)
(* view after the call).  Only storages CREATED by this call are stamped: every other entry keeps what the model   *)
(* had, so a call that disturbs another entry's metadata is a mismatch.                                            *)
RECURSIVE StampAll(_, _, _, _)
StampAll(p, w, ids, times) ==
  IF ids = {} THEN p
  ELSE LET id == CHOOSE i \in ids : TRUE
           tm == TimeFor(times, PathOfSlot(w, id))
       IN StampAll(SetSlot(p, id, [p.slots[id + 1] EXCEPT !.ct = tm.ct, !.mt = tm.mt]), w, ids \ {id}, times)
StampNew(p0, p, e) ==
  LET new == {i \in 1..(Len(p.slots) - 1) :
                 p.slots[i + 1].kind = KStorage /\ (i >= Len(p0.slots) \/ p0.slots[i + 1].kind # KStorage \/ p0.slots[i + 1].name # p.slots[i + 1].name)}
  IN IF new = {} \/ ~Has(e, "times") THEN p ELSE StampAll(p, WalkP(p, 0, 0), new, e.times)
XNamePath(p, names) == [i \in 1..Len(names) |-> p.slots[XResolve(p, SubSeq(names, 1, i)) + 1].name]

XApply(p, e) ==
  LET nc == IF Has(e, "p") THEN Normalize(e.p) ELSE [ok |-> TRUE, names |-> <<>>]
      names == nc.names
      id == XResolve(p, names)
      ent == p.slots[id + 1]
  IN
  CASE e.op = "create_storage"     -> StampNew(p, XCreateStorage(p, ParentOfPath(p, names), names[Len(names)]), e)
    [] e.op = "create_storage_all" -> StampNew(p, CsaGoP(p, names, 1), e)
    [] e.op = "set_clsid"          -> SetSlot(p, id, [ent EXCEPT !.clsid = Vals.clsid[e.v]])
    [] e.op = "set_bits"           -> SetSlot(p, id, [ent EXCEPT !.bits = Vals.bits[e.v]])
    [] e.op = "set_ctime"          -> IF ent.kind = KStream THEN p ELSE SetSlot(p, id, [ent EXCEPT !.ct = Vals.time[e.v].q])
    [] e.op = "set_mtime"          -> IF ent.kind = KStream THEN p ELSE SetSlot(p, id, [ent EXCEPT !.mt = Vals.time[e.v].q])
    [] e.op = "touch"              -> IF ent.kind = KStream \/ ~Has(e, "times") THEN p
                                      ELSE SetSlot(p, id, [ent EXCEPT !.mt = TimeFor(e.times, XNamePath(p, names)).mt])
    [] e.op \in {"create_stream", "create_new_stream"} -> XCreateStream(p, ParentOfPath(p, names), names[Len(names)])
    [] e.op = "remove_storage"     -> XRemoveStorage(p, ParentOfPath(p, names), names[Len(names)])
    [] e.op = "remove_stream"      -> XRemoveStream(p, ParentOfPath(p, names), names[Len(names)])
    [] e.op = "remove_storage_all" ->
         LET w == WalkP(p, id, IF names = <<>> THEN 0 ELSE ParentOfPath(p, names)) IN RemoveAllGo(p, w, Len(w))
    [] e.op = "write"              -> IF RLen(e.runs) = 0 THEN p ELSE WriteChunks(p, id, e.off, RLen(e.runs))
    [] e.op = "set_len"            -> XSetLen(p, id, e.n)
    [] e.op = "reopen"             -> XReload(p)
    [] OTHER -> p

(* the class of a recorded step (CfbPhys, "Case analysis coverage") *)
XClass(p, p2, e) ==
  LET nc == IF Has(e, "p") THEN Normalize(e.p) ELSE [ok |-> TRUE, names |-> <<>>]
      id == XResolve(p, nc.names)
      what == CASE e.op = "write" /\ id > 0 /\ RLen(e.runs) > 0 -> XWriteCase(p, id, e.off, IF RLen(e.runs) > MB THEN MB ELSE RLen(e.runs))
                [] e.op = "set_len" /\ id > 0 -> XResizeCase(p, id, e.n)
                [] e.op \in {"create_stream", "create_new_stream"} -> (IF id > 0 THEN "recreate" ELSE "create_stream")
                [] OTHER -> e.op
  IN XStepClass(what, p, p2)

(* the result kind CfbApi predicts for a call (only its kind is used: "ok" or the error kind) *)
ApiRes(p, e) ==
  LET z == P3!ZT IN
  CASE e.op = "create_storage"     -> (IF ver = 3 THEN A3!ApiCreateStorage(p, e.p, z) ELSE A4!ApiCreateStorage(p, e.p, z)).res
    [] e.op = "create_storage_all" -> (IF ver = 3 THEN A3!ApiCreateStorageAll(p, e.p, z) ELSE A4!ApiCreateStorageAll(p, e.p, z)).res
    [] e.op = "create_stream"      -> (IF ver = 3 THEN A3!ApiCreateStream(p, e.p, TRUE) ELSE A4!ApiCreateStream(p, e.p, TRUE)).res
    [] e.op = "create_new_stream"  -> (IF ver = 3 THEN A3!ApiCreateStream(p, e.p, FALSE) ELSE A4!ApiCreateStream(p, e.p, FALSE)).res
    [] e.op = "remove_storage"     -> (IF ver = 3 THEN A3!ApiRemoveStorage(p, e.p) ELSE A4!ApiRemoveStorage(p, e.p)).res
    [] e.op = "remove_stream"      -> (IF ver = 3 THEN A3!ApiRemoveStream(p, e.p) ELSE A4!ApiRemoveStream(p, e.p)).res
    [] e.op = "remove_storage_all" -> (IF ver = 3 THEN A3!ApiRemoveStorageAll(p, e.p) ELSE A4!ApiRemoveStorageAll(p, e.p)).res
    [] e.op = "set_clsid"          -> (IF ver = 3 THEN A3!ApiSetClsid(p, e.p, "") ELSE A4!ApiSetClsid(p, e.p, "")).res
    [] e.op = "set_bits"           -> (IF ver = 3 THEN A3!ApiSetBits(p, e.p, "") ELSE A4!ApiSetBits(p, e.p, "")).res
    [] e.op \in {"set_ctime", "touch"} -> (IF ver = 3 THEN A3!ApiSetCTime(p, e.p, z) ELSE A4!ApiSetCTime(p, e.p, z)).res
    [] e.op = "set_mtime"          -> (IF ver = 3 THEN A3!ApiSetMTime(p, e.p, z) ELSE A4!ApiSetMTime(p, e.p, z)).res
    \* (the lookups are compared on every 16th line only: the query batteries issue them by the hundred thousand)
    [] e.op \in {"entry", "open_stream", "read_storage", "walk_storage"} /\ l % 16 # 0 -> [k |-> "?"]
    [] e.op = "entry"              -> (IF ver = 3 THEN A3!ApiEntry(p, e.p) ELSE A4!ApiEntry(p, e.p)).res
    [] e.op = "open_stream"        -> (IF ver = 3 THEN A3!ApiOpenStream(p, e.p) ELSE A4!ApiOpenStream(p, e.p)).res
    [] e.op = "read_storage"       -> (IF ver = 3 THEN A3!ApiReadStorage(p, e.p) ELSE A4!ApiReadStorage(p, e.p)).res
    [] e.op = "walk_storage"       -> (IF ver = 3 THEN A3!ApiWalkStorage(p, e.p) ELSE A4!ApiWalkStorage(p, e.p)).res
    [] e.op = "write" /\ Has(e, "p") -> (IF ver = 3 THEN A3!ApiWriteAt(p, e.p, e.off, 0) ELSE A4!ApiWriteAt(p, e.p, e.off, 0)).res    \* (kind only: a seek beyond the end is refused)
    [] e.op \in {"read", "set_len"} /\ Has(e, "p") -> (IF ver = 3 THEN A3!ApiOpenStream(p, e.p) ELSE A4!ApiOpenStream(p, e.p)).res
    [] OTHER -> [k |-> "?"]
ApiAgrees(p, e) ==
  LET r == ApiRes(p, e) IN
  r.k = "?" \/ (r.k = "err" /\ e.res.k = "err" /\ r.e = e.res.e)
AllNamesKnown(e) == ~Has(e, "p") \/ \A i \in 1..Len(e.p.t) : e.p.t[i] \in {".", ".."} \/ Known(e.p.t[i])

---------------------------------------------------------------------------
(* comparison of the predicted state with the raw decode of the image        *)
SlotView(s) == <<s.name, s.kind, s.left, s.right, s.child, s.start, s.size>>
ImgSlotView(s) == <<(IF s.type = 0 THEN "" ELSE s.name), s.type, s.left, s.right, s.child, s.start, s.size>>
MetaView(s) == <<s.color, s.clsid, s.bits, s.ct, s.mt>>
ImgMetaView(s) == <<s.color, s.clsid, s.bits, s.ct, s.mt>>
Mismatches(p, img) ==
  LET n == Len(p.slots)
      slotsOK == /\ Len(img.slots) >= n
                 /\ \A i \in 1..n : SlotView(p.slots[i]) = ImgSlotView(img.slots[i])
                 /\ \A i \in (n + 1)..Len(img.slots) : img.slots[i].type = 0
      metaOK == Len(img.slots) >= n => \A i \in 1..n : MetaView(p.slots[i]) = ImgMetaView(img.slots[i])
  IN SelectSeq(
       << <<"nsec", p.nsec = img.nsec>>,
          <<"fat", p.fat = img.fat>>,
          <<"difat", p.difat = img.hdr.difat \o img.difat_ext>>,
          <<"difat_secs", p.difatSecs = img.difat_secs>>,
          <<"minifat", p.minifat = img.minifat>>,
          <<"slots", slotsOK>>,
          <<"meta", metaOK>>,
          <<"hdr.nfat", p.hdr.nfat = img.hdr.nfat>>,
          <<"hdr.difat", p.hdr.ndifat = img.hdr.ndifat /\ p.hdr.firstDifat = img.hdr.first_difat>>,
          <<"hdr.minifat", p.hdr.nminifat = img.hdr.nminifat /\ p.hdr.firstMinifat = img.hdr.first_minifat>>,
          <<"hdr.dir", p.hdr.ndir = img.hdr.ndir /\ p.dirStart = img.hdr.first_dir>> >>,
       LAMBDA c : ~c[2])

(* What open() loads from an image (lib.rs open_internal, directory.rs, minialloc.rs): the FAT padded / cut to   *)
(* the number of sectors, ascending free lists, every slot of the directory chain, the MiniFAT without its       *)
(* trailing free entries; an empty stream has no chain whatever its start field says.  Used for files written by *)
(* someone else; only images are loaded whose mini stream is exactly as long as its MiniFAT (the model's own     *)
(* invariant; a longer container is legal but its handling is not transcribed).                                  *)
FreeIdx(t) == SelectSeq([i \in 1..Len(t) |-> i - 1], LAMBDA x : t[x + 1] = -1)
FromSlot(s, v) ==
  IF s.type = 0 THEN P3!Unalloc
  ELSE LET size == IF s.type = KStorage THEN 0 ELSE IF v = 3 THEN s.size3 ELSE s.size IN
       [name |-> s.name, kind |-> s.type, left |-> s.left, right |-> s.right, child |-> s.child,
        start |-> IF s.type = KStorage THEN 0 ELSE IF s.type = KStream /\ size = 0 THEN -2 ELSE s.start, size |-> size,
        color |-> s.color, clsid |-> s.clsid, bits |-> s.bits, ct |-> s.ct, mt |-> s.mt]
FromImage(img, v) ==
  LET fat == [i \in 1..img.nsec |-> IF i <= Len(img.fat) THEN img.fat[i] ELSE -1] IN
  [nsec |-> img.nsec, fat |-> fat, free |-> FreeIdx(fat), difat |-> img.hdr.difat \o img.difat_ext, difatSecs |-> img.difat_secs,
   slots |-> [i \in 1..Len(img.slots) |-> FromSlot(img.slots[i], v)], dirStart |-> img.hdr.first_dir,
   minifat |-> img.minifat, minifatStart |-> img.hdr.first_minifat, freeMini |-> FreeIdx(img.minifat),
   hdr |-> [nfat |-> img.hdr.nfat, firstDifat |-> img.hdr.first_difat, ndifat |-> img.hdr.ndifat,
            firstMinifat |-> img.hdr.first_minifat, nminifat |-> img.hdr.nminifat, ndir |-> img.hdr.ndir],
   data |-> <<>>]
Loadable(e) ==
  /\ Has(e, "img") /\ ~e.img.short /\ e.img.geometry /\ ~Has(e, "expect") /\ ~Has(e, "surplus")
  /\ Len(e.img.slots) > 0 /\ e.img.slots[1].type = 5
  /\ (IF e.ver = 3 THEN e.img.slots[1].size3 ELSE e.img.slots[1].size) = 64 * Len(e.img.minifat)

Init == q = <<>> /\ ver = 0 /\ l = 1 /\ skip = TRUE /\ TLCSet(41, 0) /\ TLCSet(46, 0) /\ TLCSet(47, 0)

Step ==
  /\ l <= Len(Rec)
  /\ LET e == Rec[l] IN
     IF e.ev = "reset"
     THEN (* only histories that start from a fresh file with the default buffer size are followed *)
          LET fresh == e.res.k = "ok" /\ ~Has(e, "tree") /\ e.ver \in {3, 4}
              foreign == e.res.k = "ok" /\ Has(e, "tree") /\ e.ver \in {3, 4} /\ Loadable(e)
              follow == fresh \/ foreign IN
          /\ ver' = IF follow THEN e.ver ELSE 0
          /\ q' = IF fresh THEN XFresh(e.ver) ELSE IF foreign THEN FromImage(e.img, e.ver) ELSE <<>>
          /\ (IF foreign THEN TLCSet(46, TLCGet(46) + 1) ELSE TRUE)
          /\ skip' = ~follow
     ELSE IF skip \/ e.res.k = "panic" THEN UNCHANGED <<q, ver, skip>>
     ELSE IF Has(e, "h") /\ e.h # ""
     THEN /\ PrintT(<<"NOTE", "phys-handle-history", e.hi, e.oi, l>>) /\ skip' = TRUE /\ UNCHANGED <<q, ver>>
     ELSE LET q2 == IF e.res.k = "ok" THEN XApply(q, e) ELSE q
              apiBad == e.res.k = "err" /\ e.res.e \in {"NotFound", "AlreadyExists", "InvalidInput"} /\ AllNamesKnown(e) /\ ~ApiAgrees(q, e)
              bad == IF e.heavy /\ Has(e, "img") /\ ~e.img.short /\ e.img.geometry THEN Mismatches(q2, e.img) ELSE <<>>
          IN /\ q' = q2 /\ UNCHANGED ver
             /\ (IF e.heavy /\ Has(e, "img") THEN TLCSet(41, TLCGet(41) + 1) ELSE TRUE)
             /\ (IF e.res.k = "ok" /\ e.op \in {"write", "set_len", "create_stream", "create_new_stream", "create_storage", "create_storage_all",
                                                  "remove_stream", "remove_storage", "remove_storage_all"}
                 THEN PrintT(<<"CLASS", XClass(q, q2, e)>>) ELSE TRUE)
             /\ (\A i \in 1..Len(bad) : PrintT(<<"DRIFT", bad[i][1], e.hi, e.oi, l>>))
             /\ (IF apiBad THEN PrintT(<<"DRIFT", "api", e.hi, e.oi, l>>) ELSE TRUE)
             /\ (IF e.res.k = "err" /\ ApiRes(q, e).k # "?" THEN TLCSet(47, TLCGet(47) + 1) ELSE TRUE)
             /\ skip' = (bad # <<>>)
  /\ l' = l + 1
Next == Step
Spec == Init /\ [][Next]_vars
Consumed == IF TLCGet("stats").diameter = Len(Rec) + 1
            THEN PrintT(<<"COMPARED", TLCGet(41)>>) /\ PrintT(<<"FOREIGN", TLCGet(46)>>) /\ PrintT(<<"REFUSALS", TLCGet(47)>>)
            ELSE PrintT(<<"STUCK", TLCGet("stats").diameter, Len(Rec)>>) /\ FALSE
=============================================================================
