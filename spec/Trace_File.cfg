SPECIFICATION Spec
CONSTANT Dict <- DictIn
CONSTANTS MiniLen = 64 CutoffLen = 4096 DifatHdrLen = 109
POSTCONDITION Consumed
CHECK_DEADLOCK FALSE
