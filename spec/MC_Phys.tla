------------------------------ MODULE MC_Phys ------------------------------
(***************************************************************************)
(* Bounded instance of CfbPhys at a tiny geometry (4-byte sectors holding  *)
(* 4 FAT cells, 2-byte mini sectors, cutoff 8, 2 directory slots per       *)
(* sector, 1 DIFAT entry in the header).  Every sequence of create /       *)
(* overwrite / write / set_len / remove / reopen on a few root-level names *)
(* up to a depth bound is explored; in every state                         *)
(*   InvWF     the image satisfies WF - the SAME rules R1-R8 of CfbImage   *)
(*             that judge real images in Trace_File (C03 at design level); *)
(*   InvFree / InvCounts   free lists and header counters are consistent;  *)
(*   InvAbs    names, kinds and lengths in the image are those of the      *)
(*             abstract history (refinement of CfbTree on lengths).        *)
(* A second FAT sector, DIFAT sectors, further directory and MiniFAT       *)
(* sectors are all reached within the bound - the growth paths that need   *)
(* megabytes at real geometry.                                             *)
(*                                                                         *)
(* Cycle mode (C15 at design level): after a prefix TLC picks a cycle from *)
(* the templates below, the cycle is replayed four times and the file size *)
(* after each repetition is recorded; NoGrowth demands that repetitions 3  *)
(* and 4 leave the size of repetition 2 unchanged whenever the cycle is    *)
(* net-zero on the abstract state.                                         *)
(***************************************************************************)
EXTENDS Naturals, Integers, Sequences, FiniteSets, TLC, IOUtils

CONSTANTS Names,        \* e.g. {"a", "b", "c"}
          Sizes,        \* stream sizes / write lengths, in bytes of the tiny geometry
          MaxOps,       \* depth bound of the free exploration (prefix)
          V4,           \* TRUE: header counts directory sectors
          Cycles,       \* TRUE: cycle mode
          OldPolicy     \* TRUE: the pinned commit's container-extension test (violates NoGrowth)

Rank(n) == CASE n = "a" -> 1 [] n = "b" -> 2 [] n = "c" -> 3 [] n = "d" -> 4 [] n = "z" -> 5 [] n = "y" -> 6 [] OTHER -> 9
MCLess(a, b) == Rank(a) < Rank(b)
MCEq(a, b) == a = b
AllNames == Names \cup {"z", "y"}
MCDict == [n \in AllNames |-> [u |-> <<Rank(n)>>, v |-> TRUE]]

SLEN == 4
(* self-test switch: the pinned commit's set_len, which zeroed nothing it exposed *)
NoScrub == "NOSCRUB" \in DOMAIN IOEnv
(* the bytes of every sector are part of the state only when DATA is set in the environment (C08 / C01 design runs):
   they multiply the state space, which the table-level invariants do not need *)
WithData == "DATA" \in DOMAIN IOEnv
(* C17 at design level: with META in the environment the alphabet also holds the metadata setters and InvMeta   *)
(* compares every entry's CLSID, state bits and times with the abstract history (they multiply the state space, *)
(* so the allocation-level runs leave them out)                                                                *)
WithMeta == "META" \in DOMAIN IOEnv
P == INSTANCE CfbPhys WITH SectorLen <- SLEN, MiniLen <- 2, Cutoff <- 8, FatPer <- 4, DirPer <- 2, DifatHdr <- 1,
                           DirCount <- V4, NameLess <- MCLess, NameEq <- MCEq, ModuloPolicy <- OldPolicy, TrackData <- WithData, Scrub <- ~NoScrub
I == INSTANCE CfbImage WITH Dict <- MCDict, MiniLen <- 2, CutoffLen <- 8, DifatHdrLen <- 1
MCKnown(n) == TRUE
O == INSTANCE CfbOpen WITH DifatHdrLen <- 1, MiniLen <- 2, CutoffLen <- 8, NameLess <- MCLess, NameKnown <- MCKnown,
                           RootNameStr <- "Root Entry"

VARIABLES p,        \* physical state (CfbPhys)
          model,    \* abstract state: name -> [kind, size]
          nops,
          phase, cyc, pos, rep, sizes, base
vars == <<p, model, nops, phase, cyc, pos, rep, sizes, base>>

---------------------------------------------------------------------------
(* The image of a physical state, in the format of the raw decoder           *)
NilC == "00000000000000000000000000000000"
ImgSlot(e) ==
  IF e.kind = P!KUnalloc
  THEN [name |-> "", nunits |-> 0, nlen |-> 0, term_ok |-> FALSE, pad_zero |-> TRUE, type |-> 0, color |-> 0,
        left |-> -1, right |-> -1, child |-> -1, clsid |-> NilC, bits |-> "00000000", ct |-> <<0, 0, 0>>, mt |-> <<0, 0, 0>>,
        start |-> 0, size |-> 0, blank |-> TRUE,
        t0 |-> TRUE, utf16 |-> TRUE, nbad |-> FALSE, linv |-> FALSE, rinv |-> FALSE, cinv |-> FALSE, size3 |-> 0, szmod |-> 0]
  ELSE [name |-> e.name, nunits |-> (IF e.kind = P!KRoot THEN 10 ELSE 1), nlen |-> (IF e.kind = P!KRoot THEN 22 ELSE 4),
        term_ok |-> TRUE, pad_zero |-> TRUE, type |-> e.kind, color |-> e.color,
        left |-> e.left, right |-> e.right, child |-> e.child, clsid |-> e.clsid, bits |-> e.bits,
        ct |-> e.ct, mt |-> e.mt, start |-> e.start, size |-> e.size, blank |-> FALSE,
        t0 |-> TRUE, utf16 |-> TRUE, nbad |-> FALSE, linv |-> FALSE, rinv |-> FALSE, cinv |-> FALSE, size3 |-> e.size,
        szmod |-> e.size % 2]

Image(q) ==
  LET dirSecs == P!Chain(q, q.dirStart)
      nslots == 2 * Len(dirSecs)
      hdrDifat == SubSeq(q.difat, 1, IF Len(q.difat) < 1 THEN Len(q.difat) ELSE 1)
  IN [short |-> FALSE, geometry |-> TRUE, slen |-> SLEN, nsec |-> q.nsec, flen |-> (q.nsec + 1) * SLEN, flen_rem |-> 0,
      hdr |-> [magic |-> "d0cf11e0a1b11ae1", clsid_zero |-> TRUE, major |-> IF V4 THEN 4 ELSE 3, minor |-> 62, bom |-> 65534,
               sshift |-> IF V4 THEN 12 ELSE 9, mshift |-> 6, resv_zero |-> TRUE, pad_zero |-> TRUE, cutoff |-> 8,
               ndir |-> q.hdr.ndir, nfat |-> q.hdr.nfat, first_dir |-> q.dirStart, txn |-> 0,
               first_minifat |-> q.hdr.firstMinifat, nminifat |-> q.hdr.nminifat,
               first_difat |-> q.hdr.firstDifat, ndifat |-> q.hdr.ndifat, difat |-> hdrDifat],
      difat_secs |-> q.difatSecs, difat_end |-> -2,
      difat_ext |-> SubSeq(q.difat, 2, Len(q.difat)), difat_ext_rawlen |-> 3 * Len(q.difatSecs),
      fat |-> q.fat, fat_secs |-> q.difat, fat_len |-> 4 * Len(q.difat), fat_tail_nonfree |-> 0, fat_tail |-> <<>>,
      dir_secs |-> dirSecs, dir_end |-> -2,
      slots |-> [i \in 1..nslots |-> IF i <= Len(q.slots) THEN ImgSlot(q.slots[i]) ELSE ImgSlot(P!Unalloc)],
      minifat |-> q.minifat, minifat_secs |-> P!Chain(q, q.minifatStart), minifat_end |-> -2,
      minifat_rawlen |-> 4 * Len(P!Chain(q, q.minifatStart)),
      root_secs |-> P!Chain(q, P!RootStart(q)), root_end |-> -2]

---------------------------------------------------------------------------
(* Operations: records [op, n, a, b]; Enabled says when the abstract model   *)
(* lets the call succeed (refused calls do nothing and are not explored)     *)
IsStream(m, n) == n \in DOMAIN m /\ m[n].kind = "stream"
Enabled(m, o) ==
  CASE o.op = "create_stream"  -> o.n \notin DOMAIN m \/ IsStream(m, o.n)
    [] o.op = "create_storage" -> o.n \notin DOMAIN m
    [] o.op = "remove"         -> o.n \in DOMAIN m
    [] o.op = "write"          -> IsStream(m, o.n) /\ o.a <= m[o.n].size /\ o.b > 0
    [] o.op = "set_len"        -> IsStream(m, o.n)
    [] o.op = "reopen"         -> TRUE
    [] o.op = "set_clsid"      -> o.n \in DOMAIN m /\ m[o.n].kind = "storage"    \* (on a stream: refused, CfbTree)
    [] o.op \in {"set_bits", "set_ct", "set_mt"} -> o.n \in DOMAIN m

(* metadata tokens of the tiny instance: one non-default value per field, and the "clock" of operation k *)
MClsid == "11111111111111111111111111111111"
MBits  == "000000ff"
MTime  == <<7, 7, 7>>
Clock(k) == <<k, 0, 1>>
NoMeta == [clsid |-> P!NilC, bits |-> P!ZeroBits, ct |-> P!ZT, mt |-> P!ZT]

(* the abstract bytes of a stream: a sequence of tags; every write uses a fresh tag (the number of *)
(* the operation), set_len pads with the tag 0 = "a zero byte"                                     *)
Overwrite(b, off, n, t) ==
  [i \in 1..(IF Len(b) > off + n THEN Len(b) ELSE off + n) |-> IF i > off /\ i <= off + n THEN t ELSE b[i]]
Resized(b, n) == [i \in 1..n |-> IF i <= Len(b) THEN b[i] ELSE 0]
ApplyModelT(m, o, t) ==
  CASE o.op = "create_stream"  -> IF o.n \in DOMAIN m THEN [m EXCEPT ![o.n].size = 0, ![o.n].bytes = <<>>]    \* overwritten: the entry (state bits) stays
                                  ELSE (o.n :> [kind |-> "stream", size |-> 0, bytes |-> <<>>, meta |-> NoMeta]) @@ m
    [] o.op = "create_storage" -> (o.n :> [kind |-> "storage", size |-> 0, bytes |-> <<>>,
                                           meta |-> [NoMeta EXCEPT !.ct = Clock(t), !.mt = Clock(t)]]) @@ m
    [] o.op = "set_clsid"      -> [m EXCEPT ![o.n].meta.clsid = MClsid]
    [] o.op = "set_bits"       -> [m EXCEPT ![o.n].meta.bits = MBits]
    [] o.op = "set_ct"         -> IF m[o.n].kind = "stream" THEN m ELSE [m EXCEPT ![o.n].meta.ct = MTime]
    [] o.op = "set_mt"         -> IF m[o.n].kind = "stream" THEN m ELSE [m EXCEPT ![o.n].meta.mt = MTime]
    [] o.op = "remove"         -> [x \in (DOMAIN m) \ {o.n} |-> m[x]]
    [] o.op = "write"          -> [m EXCEPT ![o.n].size = (IF @ > o.a + o.b THEN @ ELSE o.a + o.b),
                                            ![o.n].bytes = Overwrite(@, o.a, o.b, t)]
    [] o.op = "set_len"        -> [m EXCEPT ![o.n].size = o.a, ![o.n].bytes = Resized(@, o.a)]
    [] o.op = "reopen"         -> m
ApplyModel(m, o) == ApplyModelT(m, o, 7)

ApplyPhysT(q, m, o, t) ==
  CASE o.op = "create_stream"  -> P!CreateStream(q, 0, o.n)
    [] o.op = "create_storage" -> P!CreateStorageAt(q, 0, o.n, Clock(t))
    [] o.op = "set_clsid"      -> P!SetClsid(q, P!FindChild(q, 0, o.n), MClsid)
    [] o.op = "set_bits"       -> P!SetBits(q, P!FindChild(q, 0, o.n), MBits)
    [] o.op = "set_ct"         -> P!SetCTime(q, P!FindChild(q, 0, o.n), MTime)
    [] o.op = "set_mt"         -> P!SetMTime(q, P!FindChild(q, 0, o.n), MTime)
    [] o.op = "remove"         -> IF m[o.n].kind = "stream" THEN P!RemoveStream(q, 0, o.n) ELSE P!RemoveStorage(q, 0, o.n)
    [] o.op = "write"          -> P!WriteDataT(q, P!FindChild(q, 0, o.n), o.a, o.b, t)
    [] o.op = "set_len"        -> P!SetLenT(q, P!FindChild(q, 0, o.n), o.a)
    [] o.op = "reopen"         -> P!Reload(q)
ApplyPhys(q, m, o) == ApplyPhysT(q, m, o, 7)

Op(o, n, a, b) == [op |-> o, n |-> n, a |-> a, b |-> b]
Alphabet ==
  {Op(o, n, 0, 0) : o \in {"create_stream", "create_storage", "remove"}, n \in Names}
  \cup {Op("write", n, a, b) : n \in Names, a \in {0, 1, 3}, b \in Sizes \ {0}}
  \cup {Op("set_len", n, a, 0) : n \in Names, a \in Sizes}
  \cup {Op("reopen", "", 0, 0)}
  \cup (IF WithMeta THEN {Op(o, n, 0, 0) : o \in {"set_clsid", "set_bits", "set_ct", "set_mt"}, n \in Names} ELSE {})

(* Cycle templates on the scratch names z, y and on an existing stream *)
CycleSet(m) ==
  {<<Op("create_stream", "z", 0, 0), Op("write", "z", 0, s), Op("remove", "z", 0, 0)>> : s \in Sizes \ {0}}
  \cup {<<Op("create_stream", "z", 0, 0), Op("write", "z", 0, s), Op("set_len", "z", t, 0), Op("remove", "z", 0, 0)>> :
          s \in Sizes \ {0}, t \in Sizes}
  \cup {<<Op("create_stream", "z", 0, 0), Op("create_stream", "y", 0, 0), Op("write", "z", 0, s), Op("write", "y", 0, t),
          Op("remove", "z", 0, 0), Op("remove", "y", 0, 0)>> : s \in Sizes \ {0}, t \in {1, 9}}
  \cup {<<Op("create_storage", "z", 0, 0), Op("remove", "z", 0, 0)>>}
  \cup UNION {{<<Op("set_len", n, s, 0), Op("set_len", n, m[n].size, 0)>> : s \in Sizes} : n \in {x \in DOMAIN m : m[x].kind = "stream"}}
  \cup UNION {{<<Op("create_stream", n, 0, 0), Op("write", n, 0, s), Op("set_len", n, m[n].size, 0)>> : s \in Sizes \ {0}} :
                n \in {x \in DOMAIN m : m[x].kind = "stream" /\ m[x].size > 0}}

Init ==
  /\ p = P!Fresh /\ model = <<>> /\ nops = 0
  /\ phase = "prefix" /\ cyc = <<>> /\ pos = 1 /\ rep = 0 /\ sizes = <<>> /\ base = <<>>

(* case analysis coverage (CfbPhys): with CLASSES set in the environment every transition prints its class *)
EmitClasses == "CLASSES" \in DOMAIN IOEnv
OpClass(q, m, o) ==
  CASE o.op = "write"         -> P!WriteCaseOf(q, P!FindChild(q, 0, o.n), o.a, o.b)
    [] o.op = "set_len"       -> P!ResizeCaseOf(q, P!FindChild(q, 0, o.n), o.a)
    [] o.op = "create_stream" -> (IF o.n \in DOMAIN m THEN "recreate" ELSE "create_stream")
    [] o.op = "remove"        -> (IF m[o.n].kind = "stream" THEN "remove_stream" ELSE "remove_storage")
    [] OTHER -> o.op
Do(o) ==
  /\ phase = "prefix" /\ nops < MaxOps /\ Enabled(model, o)
  /\ p' = ApplyPhysT(p, model, o, nops + 1) /\ model' = ApplyModelT(model, o, nops + 1) /\ nops' = nops + 1
  /\ UNCHANGED <<phase, cyc, pos, rep, sizes, base>>
  /\ (EmitClasses => PrintT(<<"CLASS", P!StepClass(OpClass(p, model, o), p, p')>>))

StartCycle ==
  /\ Cycles /\ phase = "prefix"
  /\ \E c \in CycleSet(model) :
       /\ \A i \in 1..Len(c) : TRUE
       /\ cyc' = c
  /\ phase' = "cycle" /\ pos' = 1 /\ rep' = 1 /\ sizes' = <<>> /\ base' = model
  /\ UNCHANGED <<p, model, nops>>

CycleStep ==
  /\ phase = "cycle"
  /\ LET o == cyc[pos] IN
     /\ Enabled(model, o)
     /\ p' = ApplyPhys(p, model, o) /\ model' = ApplyModel(model, o)
     /\ IF pos = Len(cyc)
        THEN /\ sizes' = Append(sizes, p'.nsec)
             /\ pos' = 1
             /\ IF rep = 4 THEN phase' = "done" /\ rep' = rep ELSE rep' = rep + 1 /\ phase' = phase
        ELSE pos' = pos + 1 /\ UNCHANGED <<sizes, rep, phase>>
  /\ UNCHANGED <<nops, cyc, base>>

Next == (\E o \in Alphabet : Do(o)) \/ StartCycle \/ CycleStep
Spec == Init /\ [][Next]_vars

---------------------------------------------------------------------------
InvFree   == P!FreeListOK(p)
InvCounts == P!CountsOK(p)
InvWF     == I!WFNames(Image(p)) = <<>>
InvAbs ==
  LET live == {i \in 1..(Len(p.slots) - 1) : P!E(p, i).kind # P!KUnalloc} IN
  /\ Cardinality(live) = Cardinality(DOMAIN model)
  /\ \A n \in DOMAIN model :
       \E i \in live : /\ P!E(p, i).name = n
                       /\ P!E(p, i).kind = (IF model[n].kind = "stream" THEN P!KStream ELSE P!KStorage)
                       /\ P!E(p, i).size = model[n].size
(* C17 at design level: every entry carries exactly the CLSID, state bits and times of the abstract history -   *)
(* what a setter stored stays through every later operation on this or any other entry (slot reuse, relinking   *)
(* on removal, directory growth, overwrite by create_stream, reopen); a new storage has the clock reading of    *)
(* its creation in both time fields; streams always have a nil CLSID and zero times; freed slots are blank.     *)
InvMeta ==
  /\ \A n \in DOMAIN model :
       LET id == P!FindChild(p, 0, n)  e == P!E(p, id) IN
       /\ id # -1
       /\ [clsid |-> e.clsid, bits |-> e.bits, ct |-> e.ct, mt |-> e.mt] = model[n].meta
       /\ (model[n].kind = "stream" => (e.clsid = P!NilC /\ e.ct = P!ZT /\ e.mt = P!ZT))
       /\ e.color = P!BLACK
  /\ \A i \in 1..(Len(p.slots) - 1) : P!E(p, i).kind = P!KUnalloc => P!E(p, i) = P!Unalloc
  /\ P!MetaOf(P!E(p, 0)) = <<P!BLACK, P!NilC, P!ZeroBits, P!ZT, P!ZT>>
(* witness for the self-test: some state holds a storage whose four fields were all set *)
NeverAllMetaSet == \A n \in DOMAIN model : ~(model[n].meta.clsid = MClsid /\ model[n].meta.bits = MBits /\ model[n].meta.ct = MTime /\ model[n].meta.mt = MTime)

(* C08 / C01 at design level: every stream reads back exactly the abstract   *)
(* bytes - what was written last, and zeros for everything set_len added,    *)
(* whatever the reused (mini) sectors held before.                           *)
InvData ==
  \A n \in DOMAIN model :
    model[n].kind = "stream" =>
      LET id == P!FindChild(p, 0, n) IN id # -1 /\ P!ReadStream(p, id) = model[n].bytes
(* the zero-exposure half alone (C08): no stream shows a stale byte where the abstract bytes are zero *)
ZeroExposure ==
  \A n \in DOMAIN model :
    model[n].kind = "stream" =>
      LET id == P!FindChild(p, 0, n)  b == P!ReadStream(p, id) IN
      \A i \in 1..Len(model[n].bytes) : model[n].bytes[i] = 0 => b[i] = 0

(* C02 at design level: every image the write paths produce is accepted by  *)
(* the open path (CfbOpen = transcription of open_internal and the          *)
(* validators), strictly and permissively, with the same tables.            *)
InvOpen ==
  LET a == O!Verdict(Image(p), TRUE)  b == O!Verdict(Image(p), FALSE) IN
  a.k = "ok" /\ b.k = "ok" /\ a.st = b.st

(* C16 at design level: damage one value of the image (any header counter   *)
(* or start sector, any DIFAT / FAT / MiniFAT cell, any link, type, colour, *)
(* start, length, terminator, CLSID or time of any slot) with every value   *)
(* class; whenever the strict validator still accepts, the permissive one   *)
(* accepts too and ends with the same tables and entries.  Damage that      *)
(* makes the library read its tables from other sectors than the decode     *)
(* lists is outside what the image record can express ("unknown").          *)
CellVals(img) == {0, 1, 2, img.nsec - 1, img.nsec, -1, -2, -3, -4, -5, -9}
SetHdr(img, f, v) == [img EXCEPT !.hdr = [@ EXCEPT ![f] = v]]
Damaged(img) ==
  LET V == CellVals(img) IN
  {SetHdr(img, f, v) : f \in {"ndir", "nfat", "first_dir", "first_minifat", "nminifat", "first_difat", "ndifat"}, v \in V}
  \cup {[img EXCEPT !.hdr.difat = [@ EXCEPT ![i] = v]] : i \in 1..Len(img.hdr.difat), v \in V}
  \cup {[img EXCEPT !.difat_ext = [@ EXCEPT ![i] = v]] : i \in 1..Len(img.difat_ext), v \in V}
  \cup {[img EXCEPT !.fat = [@ EXCEPT ![i] = v]] : i \in 1..Len(img.fat), v \in V}
  \cup {[img EXCEPT !.minifat = [@ EXCEPT ![i] = v]] : i \in 1..Len(img.minifat), v \in V}
  \cup UNION {
       {[img EXCEPT !.slots[i].type = v] : v \in {0, 1, 2, 3, 5}}
       \cup {[img EXCEPT !.slots[i].color = v] : v \in {0, 1, 2}}
       \cup {[img EXCEPT !.slots[i].left = v] : v \in {-1, 0, 1, 2, 3, -9}}
       \cup {[img EXCEPT !.slots[i].right = v] : v \in {-1, 0, 1, 2, 3, -9}}
       \cup {[img EXCEPT !.slots[i].child = v] : v \in {-1, 0, 1, 2, 3, -9}}
       \cup {[img EXCEPT !.slots[i].start = v] : v \in V}
       \cup {[img EXCEPT !.slots[i].size = v, !.slots[i].size3 = v, !.slots[i].szmod = v % 2] : v \in {0, 1, 2, 7, 8, 9}}
       \cup {[img EXCEPT !.slots[i].t0 = FALSE], [img EXCEPT !.slots[i].clsid = "11"], [img EXCEPT !.slots[i].ct = <<1, 0, 0>>],
              [img EXCEPT !.slots[i].mt = <<1, 0, 0>>], [img EXCEPT !.slots[i].name = "Root Entry"], [img EXCEPT !.slots[i].name = "b"],
              [img EXCEPT !.slots[i].linv = TRUE], [img EXCEPT !.slots[i].nbad = TRUE], [img EXCEPT !.slots[i].nlen = 66]}
       : i \in 1..Len(img.slots)}
InvC16 == \A d \in Damaged(Image(p)) : O!StrictImpliesPermissive(d)
(* witnesses for the self-test: damage that strict open accepts exists, and damage that only  *)
(* permissive open accepts exists                                                             *)
NoDamageStrictAccepts == \A d \in Damaged(Image(p)) : d = Image(p) \/ O!Verdict(d, TRUE).k # "ok"
NoDamageOnlyPermissive == \A d \in Damaged(Image(p)) : ~(O!Verdict(d, TRUE).k = "err" /\ O!Verdict(d, FALSE).k = "ok")

(* C15: the size after repetition 2 is the baseline; later repetitions must not change it *)
Shape(m) == [n \in DOMAIN m |-> <<m[n].kind, m[n].size>>]
NoGrowth ==
  (phase = "done" /\ Shape(model) = Shape(base)) => (sizes[3] = sizes[2] /\ sizes[4] = sizes[2])

(* coverage witnesses: TLC reports a violation of each of these "invariants"  *)
(* exactly when the growth path is reachable (used by the self-test only)     *)
NeverSecondFatSector == Len(p.difat) < 2
NeverDifatSector     == p.difatSecs = <<>>
NeverTwoMiniFat      == p.hdr.nminifat < 2
=============================================================================
