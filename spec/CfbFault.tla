------------------------------ MODULE CfbFault ------------------------------
(***************************************************************************)
(* The write paths of rust-cfb at the granularity of single backend        *)
(* writes, with an explicit split between the tables the library keeps in  *)
(* memory (m) and the bytes of the file (d), and with a write that fails.  *)
(*                                                                         *)
(* CfbPhys gives the result of every operation; this module gives the      *)
(* ORDER in which an operation updates memory and writes the file          *)
(* (alloc.rs, minialloc.rs, directory.rs, stream.rs, lib.rs), because that *)
(* order is what decides what a failed call leaves behind:                 *)
(*                                                                         *)
(*   run state  s = [m, d, ok, n, failAt]                                  *)
(*   W(s, w)    the n-th write of the run: applied to d, or - when         *)
(*              n = failAt - fails: ok becomes FALSE and every later step  *)
(*              of the operation (memory or file) is skipped, which is     *)
(*              what `?` does in the code                                  *)
(*   memory updates are written in the position they have in the code     *)
(*   relative to the writes (set_fat: file first, then memory;             *)
(*   with_dir_entry_mut: memory first, then file; ...).                    *)
(*                                                                         *)
(* The file is modelled below the table level: a header and a sequence of  *)
(* sectors, each a row of cells or of directory slots.  Decode(d) reads it *)
(* back the way the independent decoder of the harness does, so that the   *)
(* open-path model (CfbOpen) can be asked whether the file still opens and *)
(* what it then contains.                                                  *)
(*                                                                         *)
(* MC_Fault explores, at tiny geometry, every reachable state x every      *)
(* operation x every write position of it as the failing one, followed by  *)
(* the retry of the failed call (C13's quantifier), optionally with        *)
(* another operation in between.                                           *)
(*                                                                         *)
(* Not modelled: stream bytes, a directory entry torn in the middle (an    *)
(* entry is written in one step), sector initialisation torn in the        *)
(* middle.                                                                 *)
(***************************************************************************)
EXTENDS Naturals, Integers, Sequences, FiniteSets, TLC

CONSTANTS SectorLen, MiniLen, Cutoff, FatPer, DirPer, DifatHdr, DirCount,
          NameLess(_, _), NameEq(_, _),
          KeepLog, KeepDisk,
          FreeFirst     \* TRUE: the orders of the pinned commit (release an old chain before the entry is
                        \* updated / removed, claim a sector in the FAT before writing it, relink the
                        \* in-memory tree link by link, keep a half-added FAT sector in memory);
                        \* FALSE: the repaired orders

DifatPer == FatPer - 1
FREE   == -1
ENDC   == -2
FATM   == -3
DIFATM == -4
GARB   == -5          \* a cell of a sector that does not hold cells
NO     == -1
CeilDiv(a, b) == (a + b - 1) \div b

KUnalloc == 0
KStorage == 1
KStream  == 2
KRoot    == 5
Unalloc == [name |-> "", kind |-> KUnalloc, left |-> NO, right |-> NO, child |-> NO, start |-> 0, size |-> 0]
NewEntry(name, kind) ==
  [name |-> name, kind |-> kind, left |-> NO, right |-> NO, child |-> NO,
   start |-> IF kind = KStorage THEN 0 ELSE ENDC, size |-> 0]

---------------------------------------------------------------------------
(* The file                                                                  *)
Row(v) == [i \in 1..FatPer |-> v]
SecFat   == [cells |-> Row(FREE), slots |-> <<>>]
SecDifat == [cells |-> [i \in 1..FatPer |-> IF i = FatPer THEN ENDC ELSE FREE], slots |-> <<>>]
SecDir   == [cells |-> Row(GARB), slots |-> [i \in 1..DirPer |-> Unalloc]]
SecZero  == [cells |-> Row(0), slots |-> <<>>]
SecOf(kind) == CASE kind = "fat" -> SecFat [] kind = "difat" -> SecDifat [] kind = "dir" -> SecDir [] OTHER -> SecZero

(* a write at or beyond the end of the file extends it (the gap reads as zeros) *)
Extend(d, sec) ==
  IF sec < Len(d.sec) THEN d ELSE [d EXCEPT !.sec = @ \o [i \in 1..(sec + 1 - Len(@)) |-> SecZero]]

ApplyW(d0, w) ==
  CASE w[1] = "init"  -> LET d == Extend(d0, w[2]) IN [d EXCEPT !.sec[w[2] + 1] = SecOf(w[3])]
    [] w[1] = "cell"  -> LET d == Extend(d0, w[2]) IN [d EXCEPT !.sec[w[2] + 1].cells[w[3] + 1] = w[4]]
    [] w[1] = "slot"  -> LET d == Extend(d0, w[2]) IN
                         IF d.sec[w[2] + 1].slots = <<>> THEN d     \* not a directory sector: bytes of no consequence here
                         ELSE [d EXCEPT !.sec[w[2] + 1].slots[w[3] + 1] = w[4]]
    [] w[1] = "link"  -> LET d == Extend(d0, w[2]) IN
                         IF d.sec[w[2] + 1].slots = <<>> THEN d
                         ELSE [d EXCEPT !.sec[w[2] + 1].slots[w[3] + 1] =
                                 [@ EXCEPT ![w[4]] = w[5]]]
    [] w[1] = "hdr"   -> [d0 EXCEPT !.hdr[w[2]] = w[3]]
    [] w[1] = "hdrdifat" -> [d0 EXCEPT !.hdr.difat[w[2] + 1] = w[3]]

(* CompoundFile::create: header, FAT sector 0, directory sector 1 with the root entry *)
FreshMem ==
  [fat |-> <<FATM, ENDC>>, free |-> <<>>, difat |-> <<0>>, difatSecs |-> <<>>,
   slots |-> <<NewEntry("Root Entry", KRoot)>>, dirStart |-> 1,
   minifat |-> <<>>, minifatStart |-> ENDC, freeMini |-> <<>>, nsec |-> 2]
FreshDisk ==
  [hdr |-> [nfat |-> 1, firstDifat |-> ENDC, ndifat |-> 0, firstMinifat |-> ENDC, nminifat |-> 0,
            ndir |-> IF DirCount THEN 1 ELSE 0, firstDir |-> 1,
            difat |-> [i \in 1..DifatHdr |-> IF i = 1 THEN 0 ELSE FREE]],
   sec |-> << [SecFat EXCEPT !.cells[1] = FATM, !.cells[2] = ENDC],
              [SecDir EXCEPT !.slots[1] = NewEntry("Root Entry", KRoot)] >>]

---------------------------------------------------------------------------
(* Runs                                                                      *)
Start(m, d, failAt) == [m |-> m, d |-> d, ok |-> TRUE, n |-> 0, failAt |-> failAt, r |-> 0, fw |-> <<>>, log |-> <<>>]
(* KeepLog: the writes of a run are also collected in order (s.log), for the comparison with the write calls *)
(* recorded from the real library (Trace_Writes); KeepDisk = FALSE leaves d alone (real geometry: only the    *)
(* order matters there, the file itself is what the harness decodes)                                          *)
W(s, w) == IF ~s.ok THEN s
           ELSE IF s.n + 1 = s.failAt THEN [s EXCEPT !.ok = FALSE, !.n = @ + 1, !.fw = w]
           ELSE [s EXCEPT !.d = IF KeepDisk THEN ApplyW(@, w) ELSE @, !.n = @ + 1,
                          !.log = IF KeepLog THEN Append(@, w) ELSE @]
M(s, m2) == IF s.ok THEN [s EXCEPT !.m = m2] ELSE s          \* a memory update (skipped after a failure)
Ret(s, v) == IF s.ok THEN [s EXCEPT !.r = v] ELSE s
Abort(s) == [s EXCEPT !.ok = FALSE]                          \* an internal refusal ("freed twice", bad chain)

E(m, i) == m.slots[i + 1]
RECURSIVE ChainOf(_, _, _)
ChainOf(m, cur, fuel) ==
  IF cur = ENDC \/ cur < 0 \/ cur >= Len(m.fat) \/ fuel = 0 THEN <<>>
  ELSE <<cur>> \o ChainOf(m, m.fat[cur + 1], fuel - 1)
Chain(m, start) == ChainOf(m, start, Len(m.fat) + 1)
RECURSIVE MiniChainOf(_, _, _)
MiniChainOf(m, cur, fuel) ==
  IF cur = ENDC \/ cur < 0 \/ cur >= Len(m.minifat) \/ fuel = 0 THEN <<>>
  ELSE <<cur>> \o MiniChainOf(m, m.minifat[cur + 1], fuel - 1)
MiniChain(m, start) == MiniChainOf(m, start, Len(m.minifat) + 1)

---------------------------------------------------------------------------
(* Allocator (alloc.rs)                                                      *)
(* Sectors::init_sector: the sector count grows first, then the sector is written *)
InitSector(s, id, kind) ==
  LET s1 == IF s.ok /\ id = s.m.nsec THEN M(s, [s.m EXCEPT !.nsec = @ + 1]) ELSE s
  IN W(s1, <<"init", id, kind>>)

(* set_fat: the cell is written to the FAT sector the in-memory DIFAT names, then memory *)
SetFat(s, i, v) ==
  IF ~s.ok THEN s
  ELSE IF i \div FatPer >= Len(s.m.difat) THEN Abort(s)
  ELSE LET s1 == W(s, <<"cell", s.m.difat[(i \div FatPer) + 1], i % FatPer, v>>)
       IN M(s1, IF i = Len(s1.m.fat) THEN [s1.m EXCEPT !.fat = Append(@, v)] ELSE [s1.m EXCEPT !.fat[i + 1] = v])

AppendFatSector(s0) ==
  IF ~s0.ok THEN s0 ELSE
  LET id == Len(s0.m.fat)
      s1 == InitSector(s0, id, "fat")
      di == Len(s0.m.difat)
      s2 == M(s1, [s1.m EXCEPT !.difat = Append(@, id)])              \* self.difat.push before set_fat
      s3 == SetFat(s2, id, FATM)
      s4 == IF di < DifatHdr THEN W(s3, <<"hdrdifat", di, id>>)
            ELSE LET dsi == (di - DifatHdr) \div DifatPer
                     s5 == IF s3.ok /\ dsi >= Len(s3.m.difatSecs)
                           THEN LET nid == Len(s3.m.fat)
                                    a == InitSector(s3, nid, "difat")
                                    b == SetFat(a, nid, DIFATM)
                                    c == IF b.ok /\ b.m.difatSecs # <<>>
                                         THEN W(b, <<"cell", b.m.difatSecs[Len(b.m.difatSecs)], FatPer - 1, nid>>) ELSE b
                                    e == M(c, [c.m EXCEPT !.difatSecs = Append(@, nid)])
                                    f == IF e.ok THEN W(e, <<"hdr", "firstDifat", e.m.difatSecs[1]>>) ELSE e
                                IN IF f.ok THEN W(f, <<"hdr", "ndifat", Len(f.m.difatSecs)>>) ELSE f
                           ELSE s3
                 IN IF s5.ok
                    THEN W(s5, <<"cell", s5.m.difatSecs[dsi + 1], (di - DifatHdr) - dsi * DifatPer, id>>)
                    ELSE s5
      s6 == IF s4.ok THEN W(s4, <<"hdr", "nfat", Len(s4.m.difat)>>) ELSE s4
  IN IF s6.ok \/ FreeFirst THEN s6
     \* (repaired) nothing of a half-added FAT sector stays in memory: the retry adds it again at the same place
     ELSE [s6 EXCEPT !.m = [@ EXCEPT !.fat = SubSeq(@, 1, Len(s0.m.fat)), !.difat = SubSeq(@, 1, Len(s0.m.difat)),
                                     !.difatSecs = SubSeq(@, 1, Len(s0.m.difatSecs))]]

ClaimSector(s, id, kind) ==
  IF FreeFirst THEN InitSector(SetFat(s, id, ENDC), id, kind) ELSE SetFat(InitSector(s, id, kind), id, ENDC)

(* allocate_sector(kind): returns the id in r *)
AllocSector(s, kind) ==
  IF ~s.ok THEN s
  ELSE IF s.m.free # <<>>
  THEN LET id == s.m.free[Len(s.m.free)]
           s1 == M(s, [s.m EXCEPT !.free = SubSeq(@, 1, Len(@) - 1)])          \* pop; then the sector is written, then
       IN Ret(ClaimSector(s1, id, kind), id)                                   \* claimed in the FAT (pinned: the reverse)
  ELSE LET s1 == IF Len(s.m.fat) % FatPer = 0 THEN AppendFatSector(s) ELSE s
       IN IF ~s1.ok THEN s1
          ELSE LET id == Len(s1.m.fat) IN Ret(ClaimSector(s1, id, kind), id)

(* extend_chain(start, kind): r = new sector *)
ExtendChain(s, start, kind) ==
  IF ~s.ok THEN s
  ELSE LET ch == Chain(s.m, start) IN
       IF ch = <<>> THEN Abort(s)
       ELSE LET a == AllocSector(s, kind) IN Ret(SetFat(a, ch[Len(ch)], a.r), a.r)

(* free_sector: the cell first, then the free list *)
FreeSector(s, id) ==
  IF ~s.ok THEN s
  ELSE IF id < 0 \/ id >= Len(s.m.fat) \/ s.m.fat[id + 1] = FREE THEN Abort(s)        \* "freed twice"
  ELSE LET s1 == SetFat(s, id, FREE) IN M(s1, [s1.m EXCEPT !.free = Append(@, id)])
RECURSIVE FreeSeq(_, _)
FreeSeq(s, secs) == IF secs = <<>> \/ ~s.ok THEN s ELSE FreeSeq(FreeSector(s, Head(secs)), Tail(secs))
(* free_chain walks the chain as it goes (next is read before the sector is freed) *)
FreeChain(s, start) == IF s.ok THEN FreeSeq(s, Chain(s.m, start)) ELSE s

RECURSIVE GrowChain(_, _, _, _)
(* Chain::write / set_len growth, one sector at a time; r = start of the chain *)
GrowChain(s, start, n, kind) ==
  IF ~s.ok THEN s
  ELSE IF Len(Chain(s.m, start)) >= n THEN Ret(s, start)
  ELSE IF start = ENDC THEN LET a == AllocSector(s, kind) IN GrowChain(a, a.r, n, kind)
  ELSE GrowChain(ExtendChain(s, start, kind), start, n, kind)

(* Chain::set_len; r = start *)
ChainSetLen(s, start, nbytes) ==
  IF ~s.ok THEN s ELSE
  LET n == CeilDiv(nbytes, SectorLen)
      ch == Chain(s.m, start)
  IN IF n = 0 THEN Ret(IF ch = <<>> THEN s ELSE FreeChain(s, start), start)
     ELSE IF n < Len(ch) THEN Ret(FreeSeq(SetFat(s, ch[n], ENDC), SubSeq(ch, n + 1, Len(ch))), start)
     ELSE IF n = Len(ch) THEN Ret(s, start)
     ELSE GrowChain(s, start, n, "zero")

---------------------------------------------------------------------------
(* Directory entries on the file: entry i lives in the (i / DirPer)-th sector of the directory chain *)
DirSec(m, i) == LET ch == Chain(m, m.dirStart) IN IF (i \div DirPer) < Len(ch) THEN ch[(i \div DirPer) + 1] ELSE -1
WriteEntry(s, i) ==       \* write_dir_entry: the whole entry, from memory
  IF ~s.ok THEN s ELSE IF DirSec(s.m, i) = -1 THEN Abort(s)
  ELSE W(s, <<"slot", DirSec(s.m, i), i % DirPer, E(s.m, i)>>)
(* with_dir_entry_mut: memory first, then the file; (repaired) the old entry is restored when the write fails *)
SetEntry(s, i, e) ==
  IF ~s.ok THEN s
  ELSE LET t == WriteEntry(M(s, [s.m EXCEPT !.slots[i + 1] = e]), i)
       IN IF t.ok \/ FreeFirst THEN t ELSE [t EXCEPT !.m = [@ EXCEPT !.slots[i + 1] = E(s.m, i)]]
(* set_left_sibling / set_right_sibling / the child link in remove_dir_entry: memory first, then the field *)
SetLink(s, i, field, v) ==
  IF ~s.ok THEN s ELSE IF DirSec(s.m, i) = -1 THEN Abort(s)
  ELSE W(M(s, [s.m EXCEPT !.slots[i + 1][field] = v]), <<"link", DirSec(s.m, i), i % DirPer, field, v>>)

---------------------------------------------------------------------------
(* MiniAllocator (minialloc.rs)                                              *)
SetMini(s, i, v) ==      \* set_minifat: the file first (through the MiniFAT chain), then memory
  IF ~s.ok THEN s
  ELSE LET ch == Chain(s.m, s.m.minifatStart) IN
       IF (i \div FatPer) >= Len(ch) THEN Abort(s)
       ELSE LET s1 == W(s, <<"cell", ch[(i \div FatPer) + 1], i % FatPer, v>>)
            IN M(s1, IF i = Len(s1.m.minifat) THEN [s1.m EXCEPT !.minifat = Append(@, v)] ELSE [s1.m EXCEPT !.minifat[i + 1] = v])

AppendMiniSector(s) ==
  IF ~s.ok THEN s ELSE
  LET root == E(s.m, 0)
      a == IF root.start = ENDC THEN AllocSector(s, "zero")
           ELSE IF root.size >= SectorLen * Len(Chain(s.m, root.start))
                THEN Ret(ExtendChain(s, root.start, "zero"), root.start)
                ELSE Ret(s, root.start)
  IN IF ~a.ok THEN a
     ELSE SetEntry(a, 0, [E(a.m, 0) EXCEPT !.start = a.r, !.size = @ + MiniLen])

RECURSIVE PopFreeMini(_)
PopFreeMini(m) ==
  IF m.freeMini = <<>> THEN [m |-> m, id |-> -1]
  ELSE LET id == m.freeMini[Len(m.freeMini)]
           m1 == [m EXCEPT !.freeMini = SubSeq(@, 1, Len(@) - 1)]
       IN IF id < Len(m1.minifat) /\ m1.minifat[id + 1] = FREE THEN [m |-> m1, id |-> id] ELSE PopFreeMini(m1)

(* allocate_mini_sector(END_OF_CHAIN): r = id *)
AllocMini(s) ==
  IF ~s.ok THEN s ELSE
  LET f == PopFreeMini(s.m) IN
  IF f.id # -1 THEN Ret(SetMini(M(s, f.m), f.id, ENDC), f.id)
  ELSE LET s0 == M(s, f.m)
           s1 == IF s0.m.minifatStart = ENDC
                 THEN LET a == AllocSector(s0, "fat")
                          b == IF a.ok THEN W(a, <<"hdr", "firstMinifat", a.r>>) ELSE a
                          c == IF b.ok THEN W(b, <<"hdr", "nminifat", 1>>) ELSE b
                      IN M(c, [c.m EXCEPT !.minifatStart = a.r])       \* remembered once the header refers to it
                 ELSE IF Len(s0.m.minifat) >= FatPer * Len(Chain(s0.m, s0.m.minifatStart))
                      THEN LET a == ExtendChain(s0, s0.m.minifatStart, "fat") IN
                           IF a.ok THEN W(a, <<"hdr", "nminifat", Len(Chain(a.m, a.m.minifatStart))>>) ELSE a
                      ELSE s0
       IN IF ~s1.ok THEN s1
          ELSE LET id == Len(s1.m.minifat) IN Ret(SetMini(AppendMiniSector(s1), id, ENDC), id)   \* grow first, then claim

RECURSIVE TrimMini(_)
TrimMini(m) ==
  IF m.minifat # <<>> /\ m.minifat[Len(m.minifat)] = FREE
  THEN TrimMini([m EXCEPT !.minifat = SubSeq(@, 1, Len(@) - 1)])
  ELSE m
FreeMiniSector(s, i) ==
  IF ~s.ok THEN s
  ELSE IF i < 0 \/ i >= Len(s.m.minifat) \/ s.m.minifat[i + 1] = FREE THEN Abort(s)
  ELSE LET s1 == SetMini(s, i, FREE)
           m1 == [s1.m EXCEPT !.freeMini = Append(@, i)]
           m2 == TrimMini(m1)
           m3 == [m2 EXCEPT !.freeMini = SelectSeq(@, LAMBDA x : x < Len(m2.minifat))]
           s2 == M(s1, m3)
           newSize == E(s1.m, 0).size - MiniLen * (Len(m1.minifat) - Len(m2.minifat))
       IN IF s2.ok /\ newSize # E(s2.m, 0).size THEN SetEntry(s2, 0, [E(s2.m, 0) EXCEPT !.size = newSize]) ELSE s2
RECURSIVE FreeMiniSeq(_, _)
FreeMiniSeq(s, ms) == IF ms = <<>> \/ ~s.ok THEN s ELSE FreeMiniSeq(FreeMiniSector(s, Head(ms)), Tail(ms))
FreeMiniChain(s, start) == IF s.ok THEN FreeMiniSeq(s, MiniChain(s.m, start)) ELSE s

RECURSIVE GrowMini(_, _, _)
GrowMini(s, start, n) ==       \* r = start of the mini chain
  IF ~s.ok THEN s ELSE
  LET ch == MiniChain(s.m, start) IN
  IF Len(ch) >= n THEN Ret(s, start)
  ELSE LET a == AllocMini(s) IN
       IF start = ENDC THEN GrowMini(a, a.r, n)
       ELSE GrowMini(SetMini(a, ch[Len(ch)], a.r), start, n)

MiniSetLen(s, start, nbytes) ==
  IF ~s.ok THEN s ELSE
  LET n == CeilDiv(nbytes, MiniLen)
      ch == MiniChain(s.m, start)
  IN IF n = 0 THEN Ret(IF ch = <<>> THEN s ELSE FreeMiniSeq(s, ch), start)
     ELSE IF n < Len(ch) THEN Ret(FreeMiniSeq(SetMini(s, ch[n], ENDC), SubSeq(ch, n + 1, Len(ch))), start)
     ELSE IF n = Len(ch) THEN Ret(s, start)
     ELSE GrowMini(s, start, n)

---------------------------------------------------------------------------
(* Directory (directory.rs)                                                  *)
FirstUnalloc(m) ==
  LET free == {i \in 0..(Len(m.slots) - 1) : E(m, i).kind = KUnalloc} IN
  IF free = {} THEN -1 ELSE CHOOSE i \in free : \A j \in free : i <= j

AllocDirEntry(s) ==       \* r = slot
  IF ~s.ok THEN s ELSE
  LET f == FirstUnalloc(s.m) IN
  IF f # -1 THEN Ret(s, f)
  ELSE LET s1 == IF Len(s.m.slots) % DirPer = 0
                 THEN LET a == ExtendChain(s, s.m.dirStart, "dir") IN
                      IF a.ok /\ DirCount THEN W(a, <<"hdr", "ndir", Len(Chain(a.m, a.m.dirStart))>>) ELSE a
                 ELSE s
       IN IF ~s1.ok THEN s1 ELSE Ret(M(s1, [s1.m EXCEPT !.slots = Append(@, Unalloc)]), Len(s1.m.slots))

RECURSIVE Descend(_, _, _, _)
Descend(m, name, cur, acc) ==
  IF cur = NO \/ cur < 0 \/ cur >= Len(m.slots) \/ Len(acc) > Len(m.slots) THEN acc
  ELSE LET acc2 == Append(acc, cur) IN
       IF NameEq(E(m, cur).name, name) THEN acc2
       ELSE IF NameLess(name, E(m, cur).name) THEN Descend(m, name, E(m, cur).left, acc2)
       ELSE Descend(m, name, E(m, cur).right, acc2)
FindChild(m, parent, name) ==
  LET path == Descend(m, name, E(m, parent).child, <<>>) IN
  IF path # <<>> /\ NameEq(E(m, path[Len(path)]).name, name) THEN path[Len(path)] ELSE NO

(* insert_dir_entry (repaired order): the new entry is written, then the link to it; memory is linked last;
   on failure the slot is released in memory *)
InsertEntry(s, parent, name, kind) ==
  IF ~s.ok THEN s ELSE
  LET a == AllocDirEntry(s) IN
  IF ~a.ok THEN a ELSE
  LET id == a.r
      path == Descend(a.m, name, E(a.m, parent).child, <<>>)
      owner == IF path = <<>> THEN parent ELSE path[Len(path)]
      field == IF path = <<>> THEN "child" ELSE IF NameLess(name, E(a.m, owner).name) THEN "left" ELSE "right"
      b == M(a, [a.m EXCEPT !.slots[id + 1] = NewEntry(name, kind)])
      c == WriteEntry(b, id)
      e == IF c.ok /\ DirSec(c.m, owner) # -1 THEN W(c, <<"link", DirSec(c.m, owner), owner % DirPer, field, id>>) ELSE c
  IN IF e.ok THEN Ret(M(e, [e.m EXCEPT !.slots[owner + 1][field] = id]), id)
     ELSE [e EXCEPT !.m = [b.m EXCEPT !.slots[id + 1] = Unalloc]]          \* the failure path releases the slot

RECURSIVE LinkEach(_, _, _)
LinkEach(s, plan, i) == IF i > Len(plan) \/ ~s.ok THEN s ELSE LinkEach(SetLink(s, plan[i][1], plan[i][2], plan[i][3]), plan, i + 1)
RECURSIVE WriteLinks(_, _, _)
WriteLinks(s, plan, i) ==
  IF i > Len(plan) \/ ~s.ok THEN s
  ELSE IF DirSec(s.m, plan[i][1]) = -1 THEN Abort(s)
  ELSE WriteLinks(W(s, <<"link", DirSec(s.m, plan[i][1]), plan[i][1] % DirPer, plan[i][2], plan[i][3]>>), plan, i + 1)
RECURSIVE ApplyLinks(_, _, _)
ApplyLinks(m, plan, i) == IF i > Len(plan) THEN m ELSE ApplyLinks([m EXCEPT !.slots[plan[i][1] + 1][plan[i][2]] = plan[i][3]], plan, i + 1)
CommitLinks(s, plan) == IF s.ok THEN M(s, ApplyLinks(s.m, plan, 1)) ELSE s

RECURSIVE RightmostOf(_, _, _)
RightmostOf(m, par, cur) ==
  IF E(m, cur).right = NO THEN [par |-> par, id |-> cur] ELSE RightmostOf(m, cur, E(m, cur).right)

(* remove_dir_entry: relink (memory first, field by field), then the owner's link, then the slot is cleared
   (file first) *)
RemoveEntry(s, parent, name) ==
  IF ~s.ok THEN s ELSE
  LET m == s.m
      path == Descend(m, name, E(m, parent).child, <<>>)
  IN IF path = <<>> \/ ~NameEq(E(m, path[Len(path)]).name, name) THEN Abort(s) ELSE
  LET id == path[Len(path)]
      owner == IF Len(path) > 1 THEN path[Len(path) - 1] ELSE parent
      viaChild == Len(path) = 1
      l == E(m, id).left
      r == E(m, id).right
      two == l # NO /\ r # NO
      pr == IF two THEN RightmostOf(m, id, l) ELSE [par |-> NO, id |-> NO]
      repl == IF l = NO THEN r ELSE IF r = NO THEN l ELSE pr.id
      \* the planned changes, from the unchanged tree: <<entry, field, value>>
      plan == (IF two /\ pr.par # id THEN << <<pr.par, "right", E(m, pr.id).left>>, <<pr.id, "left", l>> >> ELSE <<>>)
              \o (IF two THEN << <<pr.id, "right", r>> >> ELSE <<>>)
              \o << IF viaChild THEN <<parent, "child", repl>>
                    ELSE IF E(m, owner).left = id THEN <<owner, "left", repl>> ELSE <<owner, "right", repl>> >>
      s3 == IF FreeFirst THEN LinkEach(s, plan, 1)             \* pinned: memory and file link by link
            ELSE CommitLinks(WriteLinks(s, plan, 1), plan)     \* repaired: all writes, then memory
      \* free_dir_entry: the file first, then memory
      s4 == IF s3.ok /\ DirSec(s3.m, id) # -1 THEN W(s3, <<"slot", DirSec(s3.m, id), id % DirPer, Unalloc>>) ELSE s3
  IN M(s4, [s4.m EXCEPT !.slots[id + 1] = Unalloc])

---------------------------------------------------------------------------
(* Stream write paths (stream.rs); the chain a stream stops using is released before (FreeFirst, the pinned
   order) or after (repaired) its directory entry is updated *)
WriteData(s, id, off, n) ==
  IF ~s.ok \/ n = 0 THEN s ELSE
  LET e == E(s.m, id)
      newLen == IF e.size > off + n THEN e.size ELSE off + n
      migrate == e.start # ENDC /\ e.size < Cutoff /\ newLen >= Cutoff
      s0 == IF migrate /\ FreeFirst THEN FreeMiniChain(s, e.start) ELSE s
      r == IF e.start = ENDC
           THEN (IF newLen < Cutoff THEN GrowMini(s0, ENDC, CeilDiv(off + n, MiniLen))
                 ELSE GrowChain(s0, ENDC, CeilDiv(off + n, SectorLen), "zero"))
           ELSE IF e.size < Cutoff
           THEN (IF newLen < Cutoff THEN GrowMini(s0, e.start, CeilDiv(off + n, MiniLen))
                 ELSE GrowChain(s0, ENDC, CeilDiv(off + n, SectorLen), "zero"))
           ELSE GrowChain(s0, e.start, CeilDiv(off + n, SectorLen), "zero")
      q == IF r.ok THEN SetEntry(r, id, [E(r.m, id) EXCEPT !.start = r.r, !.size = newLen]) ELSE r
  IN IF migrate /\ ~FreeFirst THEN FreeMiniChain(q, e.start) ELSE q

Resize(s, id, newLen) ==
  IF ~s.ok THEN s ELSE
  LET e == E(s.m, id)
      mini == e.start # ENDC /\ e.size < Cutoff
      reg == e.start # ENDC /\ e.size >= Cutoff
      dropMini == mini /\ (newLen = 0 \/ newLen >= Cutoff)
      dropReg == reg /\ newLen < Cutoff
      s0 == IF FreeFirst THEN (IF dropMini THEN FreeMiniChain(s, e.start) ELSE IF dropReg THEN FreeChain(s, e.start) ELSE s) ELSE s
      r == IF e.start = ENDC
           THEN (IF newLen < Cutoff THEN MiniSetLen(s0, ENDC, newLen) ELSE ChainSetLen(s0, ENDC, newLen))
           ELSE IF mini
           THEN (IF newLen = 0 THEN Ret(s0, ENDC)
                 ELSE IF newLen < Cutoff THEN MiniSetLen(s0, e.start, newLen)
                 ELSE LET g == GrowChain(s0, ENDC, CeilDiv(e.size, SectorLen), "zero") IN ChainSetLen(g, g.r, newLen))
           ELSE (IF newLen = 0 THEN Ret(s0, ENDC)
                 ELSE IF newLen < Cutoff THEN GrowMini(s0, ENDC, CeilDiv(newLen, MiniLen))
                 ELSE ChainSetLen(s0, e.start, newLen))
      st == IF ~r.ok THEN ENDC ELSE IF newLen = 0 /\ e.start = ENDC THEN ENDC ELSE r.r
      q == IF r.ok THEN SetEntry(r, id, [E(r.m, id) EXCEPT !.start = st, !.size = newLen]) ELSE r
  IN IF FreeFirst THEN q
     ELSE IF dropMini THEN FreeMiniChain(q, e.start) ELSE IF dropReg THEN FreeChain(q, e.start) ELSE q

---------------------------------------------------------------------------
(* API level: what the public call does, looked up in the IN-MEMORY tree (which is what the code consults).   *)
(* Each returns a run; refusals the abstract model would also give (missing, existing) end as Abort.           *)
CreateStorage(s, name) ==
  IF FindChild(s.m, 0, name) # NO THEN Abort(s) ELSE InsertEntry(s, 0, name, KStorage)
CreateStream(s, name) ==
  LET c == FindChild(s.m, 0, name) IN
  IF c = NO THEN InsertEntry(s, 0, name, KStream)
  ELSE IF E(s.m, c).kind # KStream THEN Abort(s)
  ELSE IF E(s.m, c).size = 0 THEN s ELSE Resize(s, c, 0)         \* create_stream over an existing stream: set_len(0)
Remove(s, name) ==
  LET c == FindChild(s.m, 0, name) IN
  IF c = NO THEN Abort(s)
  ELSE IF E(s.m, c).kind = KStorage THEN RemoveEntry(s, 0, name)
  ELSE LET e == E(s.m, c)
           Release(t) == IF e.start = ENDC THEN t ELSE IF e.size < Cutoff THEN FreeMiniChain(t, e.start) ELSE FreeChain(t, e.start)
       IN \* remove_stream: (pinned) the chain is released, then the entry removed; (repaired) the entry first
          IF FreeFirst THEN RemoveEntry(Release(s), 0, name) ELSE Release(RemoveEntry(s, 0, name))
Write(s, name, off, n) ==
  LET c == FindChild(s.m, 0, name) IN
  IF c = NO \/ E(s.m, c).kind # KStream \/ off > E(s.m, c).size THEN Abort(s) ELSE WriteData(s, c, off, n)
(* Stream::set_len compares with the length the HANDLE knows (cur), which a failed call has not changed *)
SetLen(s, name, n, cur) ==
  LET c == FindChild(s.m, 0, name) IN
  IF c = NO \/ E(s.m, c).kind # KStream THEN Abort(s)
  ELSE IF n = cur THEN s ELSE Resize(s, c, n)

(* the same below any storage (Trace_Writes follows recorded histories with nested paths) *)
CreateStreamAt(s, parent, name) ==
  LET c == FindChild(s.m, parent, name) IN
  IF c = NO THEN InsertEntry(s, parent, name, KStream)
  ELSE IF E(s.m, c).size = 0 THEN s ELSE Resize(s, c, 0)
RemoveStreamAt(s, parent, name) ==
  LET c == FindChild(s.m, parent, name) IN
  IF c = NO THEN Abort(s)
  ELSE LET e == E(s.m, c)
           Release(t) == IF e.start = ENDC THEN t ELSE IF e.size < Cutoff THEN FreeMiniChain(t, e.start) ELSE FreeChain(t, e.start)
       IN IF FreeFirst THEN RemoveEntry(Release(s), parent, name) ELSE Release(RemoveEntry(s, parent, name))
(* what open() rebuilds from the image *)
Reload(m) ==
  LET nslots == DirPer * Len(Chain(m, m.dirStart)) IN
  [m EXCEPT !.free = SelectSeq([i \in 1..Len(m.fat) |-> i - 1], LAMBDA x : m.fat[x + 1] = FREE),
            !.freeMini = SelectSeq([i \in 1..Len(m.minifat) |-> i - 1], LAMBDA x : m.minifat[x + 1] = FREE),
            !.slots = [i \in 1..nslots |-> IF i <= Len(m.slots) THEN m.slots[i] ELSE Unalloc]]

---------------------------------------------------------------------------
(* Reading the file back (the harness's independent decoder, at this geometry) *)
Cells(d, sec) == IF sec >= 0 /\ sec < Len(d.sec) THEN d.sec[sec + 1].cells ELSE Row(GARB)
RECURSIVE FollowDifat(_, _, _)
FollowDifat(d, cur, acc) ==
  IF cur < 0 \/ cur >= Len(d.sec) \/ (\E i \in 1..Len(acc) : acc[i] = cur) THEN [secs |-> acc, end |-> cur]
  ELSE FollowDifat(d, Cells(d, cur)[FatPer], Append(acc, cur))
RECURSIVE Cat(_, _)
Cat(f, n) == IF n = 0 THEN <<>> ELSE Cat(f, n - 1) \o f[n]
RECURSIVE Follow(_, _, _)
Follow(fat, cur, acc) ==
  IF cur < 0 \/ cur >= Len(fat) \/ (\E i \in 1..Len(acc) : acc[i] = cur) THEN [secs |-> acc, end |-> cur]
  ELSE Follow(fat, fat[cur + 1], Append(acc, cur))
TrimFree(q) == LET n == IF \E i \in 1..Len(q) : q[i] # FREE THEN CHOOSE i \in 1..Len(q) : q[i] # FREE /\ \A j \in (i + 1)..Len(q) : q[j] = FREE ELSE 0
               IN SubSeq(q, 1, n)

NilC == "00000000000000000000000000000000"
ImgSlot(e) ==
  [name |-> e.name, nunits |-> 1, nlen |-> IF e.kind = KUnalloc THEN 0 ELSE 4, term_ok |-> TRUE, pad_zero |-> TRUE,
   type |-> e.kind, color |-> 1, left |-> e.left, right |-> e.right, child |-> e.child, clsid |-> NilC, bits |-> "00000000",
   ct |-> <<0, 0, 0>>, mt |-> <<0, 0, 0>>, start |-> e.start, size |-> e.size, blank |-> e.kind = KUnalloc,
   t0 |-> TRUE, utf16 |-> TRUE, nbad |-> FALSE, linv |-> FALSE, rinv |-> FALSE, cinv |-> FALSE, size3 |-> e.size,
   szmod |-> e.size % MiniLen]
GarbSlot == [ImgSlot(Unalloc) EXCEPT !.type = 255]

Decode(d) ==
  LET nsec == Len(d.sec)
      dc == FollowDifat(d, d.hdr.firstDifat, <<>>)
      ext == Cat([i \in 1..Len(dc.secs) |-> SubSeq(Cells(d, dc.secs[i]), 1, FatPer - 1)], Len(dc.secs))
      entries == d.hdr.difat \o ext
      fatSecs == SelectSeq(entries, LAMBDA x : x >= 0 /\ x < nsec)
      full == Cat([i \in 1..Len(fatSecs) |-> Cells(d, fatSecs[i])], Len(fatSecs))
      fat == SubSeq(full, 1, IF Len(full) < nsec THEN Len(full) ELSE nsec)
      dirc == Follow(fat, d.hdr.firstDir, <<>>)
      slots == Cat([i \in 1..Len(dirc.secs) |->
                      IF d.sec[dirc.secs[i] + 1].slots = <<>> THEN [j \in 1..DirPer |-> GarbSlot]
                      ELSE [j \in 1..DirPer |-> ImgSlot(d.sec[dirc.secs[i] + 1].slots[j])]], Len(dirc.secs))
      mfc == Follow(fat, d.hdr.firstMinifat, <<>>)
      mf == Cat([i \in 1..Len(mfc.secs) |-> Cells(d, mfc.secs[i])], Len(mfc.secs))
  IN [short |-> FALSE, geometry |-> TRUE, slen |-> SectorLen, nsec |-> nsec, flen |-> (nsec + 1) * SectorLen, flen_rem |-> 0,
      hdr |-> [magic |-> "d0cf11e0a1b11ae1", clsid_zero |-> TRUE, major |-> IF DirCount THEN 4 ELSE 3, minor |-> 62, bom |-> 65534,
               sshift |-> IF DirCount THEN 12 ELSE 9, mshift |-> 6, resv_zero |-> TRUE, pad_zero |-> TRUE, cutoff |-> Cutoff,
               ndir |-> d.hdr.ndir, nfat |-> d.hdr.nfat, first_dir |-> d.hdr.firstDir, txn |-> 0,
               first_minifat |-> d.hdr.firstMinifat, nminifat |-> d.hdr.nminifat,
               first_difat |-> d.hdr.firstDifat, ndifat |-> d.hdr.ndifat, difat |-> TrimFree(d.hdr.difat)],
      difat_secs |-> dc.secs, difat_end |-> dc.end, difat_ext |-> TrimFree(ext), difat_ext_rawlen |-> Len(ext),
      fat |-> fat, fat_secs |-> fatSecs, fat_len |-> Len(full), fat_tail_nonfree |-> 0,
      fat_tail |-> TrimFree(SubSeq(full, Len(fat) + 1, Len(full))),
      dir_secs |-> dirc.secs, dir_end |-> dirc.end, slots |-> slots,
      minifat |-> TrimFree(mf), minifat_secs |-> mfc.secs, minifat_end |-> mfc.end, minifat_rawlen |-> Len(mf),
      root_secs |-> <<>>, root_end |-> ENDC]
=============================================================================
