------------------------------- MODULE MC_Api -------------------------------
(***************************************************************************)
(* Refinement check  CfbApi (lib.rs on CfbPhys, tiny geometry)  =>  CfbTree *)
(* (the abstract model that judges real executions).  Both are driven by   *)
(* the same call; in every reachable state and for every call of the       *)
(* alphabet                                                                 *)
(*   InvAllowed   the API layer's result is one the abstract model allows  *)
(*                (success / error and the error kind: C01, C09);          *)
(*   InvNoEffect  a refused call left the physical state exactly as it was *)
(*                - although create_storage_all and remove_storage_all are *)
(*                loops over single-object calls that stop at the first    *)
(*                error (C10 at design level);                             *)
(*   InvAbs       the physical state abstracts to the abstract tree: key   *)
(*                paths, stored names, kinds, lengths, CLSID, state bits,  *)
(*                times (C01, C17);                                        *)
(*   InvWF        the image is well-formed (the CfbImage rules; nested     *)
(*                storages, which MC_Phys does not reach).                 *)
(* The alphabet: every mutating method x paths of depth <= 2 over names    *)
(* with a case variant and an invalid name, spelled with '.', '..'         *)
(* (resolvable and escaping), the root; stream writes on both sides of the *)
(* cutoff; setters on every kind of object.                                *)
(***************************************************************************)
EXTENDS CfbApi, Json, IOUtils, TLCExt

CONSTANTS Names, MaxNodes, MaxOps

DictFile == JsonDeserialize(IOEnv.DICT)
DictAll == DictFile
MCDict  == [n \in Names |-> DictAll[n]]

VARIABLES p, st, nops, last
vars == <<p, st, nops, last>>

Sp(t) == [t |-> t, lead |-> TRUE, trail |-> FALSE]
P1 == {<<n>> : n \in Names}
P2 == {<<m, n>> : m \in {"foo"} \cap Names, n \in Names}
Odd == {<<>>, <<"..">>, <<".">>, <<"foo", "..">>, <<"foo", ".">>, <<"foo", "..", "bar">>, <<"bar", "..", "..">>, <<"foo", "..", "foo", "a">>}
Paths == P1 \cup P2 \cup Odd

MClsid == "11111111111111111111111111111111"
MBits  == "000000ff"
MTime  == <<7, 7, 7>>

Calls ==
  {[op |-> o, p |-> Sp(t)] :
     o \in {"create_storage", "create_stream", "create_new_stream", "create_storage_all",
            "remove_storage", "remove_stream", "remove_storage_all"},
     t \in Paths}
  \cup {[op |-> "write", p |-> Sp(t), off |-> 0, n |-> n] : t \in P1 \cup {<<"foo", "a">>}, n \in {1, 9}}
  \cup {[op |-> "set_len", p |-> Sp(t), n |-> n] : t \in P1, n \in {0, 3}}
  \cup {[op |-> o, p |-> Sp(t)] : o \in {"set_clsid", "set_bits", "set_ctime", "set_mtime"}, t \in P1 \cup {<<>>, <<"foo", "a">>}}
  \* the lookups: their answers are compared exactly (they change nothing, so they only add transitions, not states)
  \cup {[op |-> o, p |-> Sp(t)] : o \in {"exists", "is_stream", "is_storage"}, t \in Paths}
Queries == {"exists", "is_stream", "is_storage"}

Abstract(s, c) ==
  CASE c.op = "create_storage"     -> CreateStorage(s, c.p, <<>>)
    [] c.op = "create_storage_all" -> CreateStorageAll(s, c.p, <<>>)
    [] c.op = "create_stream"      -> CreateStreamGen(s, c.p, TRUE)
    [] c.op = "create_new_stream"  -> CreateStreamGen(s, c.p, FALSE)
    [] c.op = "remove_storage"     -> RemoveStorage(s, c.p)
    [] c.op = "remove_stream"      -> RemoveStream(s, c.p)
    [] c.op = "remove_storage_all" -> RemoveStorageAll(s, c.p)
    [] c.op = "write"              -> WriteAt(s, c.p, c.off, <<<<1, c.n>>>>)
    [] c.op = "set_len"            -> SetLen(s, c.p, c.n)
    [] c.op = "set_clsid"          -> SetClsid(s, c.p, MClsid)
    [] c.op = "set_bits"           -> SetBits(s, c.p, MBits)
    [] c.op = "set_ctime"          -> SetCTime(s, c.p, MTime)
    [] c.op = "set_mtime"          -> SetMTime(s, c.p, MTime)
    [] c.op = "exists"             -> Exists(s, c.p)
    [] c.op = "is_stream"          -> IsStream(s, c.p)
    [] c.op = "is_storage"         -> IsStorage(s, c.p)
Concrete(q, c) ==
  CASE c.op = "create_storage"     -> ApiCreateStorage(q, c.p, TZero)
    [] c.op = "create_storage_all" -> ApiCreateStorageAll(q, c.p, TZero)
    [] c.op = "create_stream"      -> ApiCreateStream(q, c.p, TRUE)
    [] c.op = "create_new_stream"  -> ApiCreateStream(q, c.p, FALSE)
    [] c.op = "remove_storage"     -> ApiRemoveStorage(q, c.p)
    [] c.op = "remove_stream"      -> ApiRemoveStream(q, c.p)
    [] c.op = "remove_storage_all" -> ApiRemoveStorageAll(q, c.p)
    [] c.op = "write"              -> ApiWriteAt(q, c.p, c.off, c.n)
    [] c.op = "set_len"            -> ApiSetLen(q, c.p, c.n)
    [] c.op = "set_clsid"          -> ApiSetClsid(q, c.p, MClsid)
    [] c.op = "set_bits"           -> ApiSetBits(q, c.p, MBits)
    [] c.op = "set_ctime"          -> ApiSetCTime(q, c.p, MTime)
    [] c.op = "set_mtime"          -> ApiSetMTime(q, c.p, MTime)
    [] c.op = "exists"             -> ApiExists(q, c.p)
    [] c.op = "is_stream"          -> ApiIsStream(q, c.p)
    [] c.op = "is_storage"         -> ApiIsStorage(q, c.p)

SameRes(a, b) == a.k = b.k /\ (a.k = "err" => a.e = b.e)

Init == p = P!Fresh /\ st = InitState /\ nops = 0 /\ last = [allowed |-> TRUE, noeffect |-> TRUE, loopref |-> FALSE]

Do(c) ==
  LET r == Concrete(p, c)
      outs == Abstract(st, c)
      match == {o \in outs : IF c.op \in Queries THEN o.res = r.res ELSE SameRes(o.res, r.res)}
  IN /\ nops < MaxOps
     /\ p' = r.p /\ nops' = nops + 1
     /\ st' = IF match = {} THEN st ELSE (CHOOSE o \in match : TRUE).st
     \* (which call it was is in the action label of an error trace; keeping it out of the state keeps the graph small)
     /\ last' = [allowed |-> match # {}, noeffect |-> (r.res.k = "err" => r.p = p),
                 loopref |-> (c.op \in {"create_storage_all", "remove_storage_all"} /\ r.res.k = "err" /\ Len(Normalize(c.p).names) >= 2)]
Next == \E c \in Calls : Do(c)
Spec == Init /\ [][Next]_vars
Bound == Cardinality(DOMAIN st.tree) <= MaxNodes

InvAllowed  == last.allowed
InvNoEffect == last.noeffect
InvAbs      == AbsTree(p) = TreeView(st.tree)
(* witnesses for the self-test: refusals of every kind are reached, and a refusal in the middle of a loop is reached *)
NeverRefusedInLoop == ~last.loopref
=============================================================================
