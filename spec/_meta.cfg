SPECIFICATION Spec
CONSTANTS Names = {"a", "b", "c"} Sizes = {0, 3, 9} MaxOps = 5 V4 = FALSE Cycles = FALSE OldPolicy = FALSE
INVARIANT InvFree InvCounts InvWF InvAbs InvMeta InvOpen
CHECK_DEADLOCK FALSE
