------------------------------ MODULE MC_Lock ------------------------------
(***************************************************************************)
(* Bounded instance of CfbLock.  The programs come from the environment    *)
(* variable PROGS: a JSON file written by the check from what ldrive       *)
(* extracted out of the real library (reader programs / handle programs,   *)
(* each a sequence of "R","r","W","w").  TLC explores every interleaving   *)
(* of NReaders reader threads and the handle thread making MaxCalls calls  *)
(* each, under the writer-preferring lock rule, and reports a deadlock or  *)
(* a re-entrant acquisition.                                               *)
(***************************************************************************)
EXTENDS CfbLock, Json, IOUtils

CONSTANTS NReaders

ProgsIn == JsonDeserialize(IOEnv.PROGS)
ToProgSet(ps) == {ps[i] : i \in 1..Len(ps)}

MCReaders     == {"r1", "r2", "r3"}
MCReadersN    == IF NReaders = 1 THEN {"r1"} ELSE IF NReaders = 2 THEN {"r1", "r2"} ELSE MCReaders
MCHandle      == "h"
MCReaderProgs == ToProgSet(ProgsIn.reader)
MCHandleProgs == ToProgSet(ProgsIn.handle)

(* Refinement: CfbLock on the extracted programs implements CfbLockN, the  *)
(* N-thread machine whose deadlock freedom and mutual exclusion are proved *)
(* for every number of threads (tlapm: 57 obligations).  A thread that     *)
(* requests the lock while holding a guard has no counterpart there.       *)
AbsSt == [t \in Threads |-> IF t \in waitR THEN "waitR" ELSE IF t \in waitW THEN "waitW"
                            ELSE IF writer = t THEN "holdW" ELSE IF held[t] > 0 THEN "holdR" ELSE "idle"]
Abs == INSTANCE CfbLockN WITH Threads <- Threads, st <- AbsSt
Refines == Abs!Spec
AbsProgress == Abs!Progress
=============================================================================
