----------------------------- MODULE CfbTree -----------------------------
(***************************************************************************)
(* Abstract model of a compound file: a tree of storages holding          *)
(* case-insensitively unique names whose leaves are byte vectors, plus    *)
(* per-entry metadata and a table of open stream handles.                 *)
(*                                                                         *)
(* Every public method of rust-cfb's CompoundFile is one operator         *)
(* returning the SET of allowed outcomes [st, res] in a given state: a     *)
(* singleton where the property texts and the documentation fix the       *)
(* behaviour, several outcomes in the deliberately under-specified        *)
(* corners (DESIGN.md section 9).  The same operators are used by the     *)
(* bounded model-checking instance (MC_Tree) and by the trace validator   *)
(* (Trace_File).                                                          *)
(***************************************************************************)
EXTENDS Naturals, Integers, Sequences, FiniteSets, SequencesExt, Functions, TLC, Rle

CONSTANT Dict      \* name id |-> [u |-> upper-cased UTF-16 units, v |-> valid?]

NameIds  == DOMAIN Dict
Units(n) == Dict[n].u
Valid(n) == Dict[n].v
Known(n) == n \in NameIds

NilClsid == "00000000000000000000000000000000"
ZeroBits == "00000000"
TZero    == <<0, 0, 0>>
RootName == "Root Entry"

---------------------------------------------------------------------------
(* CFB name order on upper-cased unit sequences: shorter first, then       *)
(* lexicographic by code unit.                                             *)
RECURSIVE LexLess(_, _)
LexLess(a, b) == IF a = <<>> \/ b = <<>> THEN FALSE
                 ELSE IF Head(a) # Head(b) THEN Head(a) < Head(b)
                 ELSE LexLess(Tail(a), Tail(b))
KeyLess(a, b) == \/ Len(a) < Len(b)
                 \/ Len(a) = Len(b) /\ LexLess(a, b)

(* three-limb comparison of 64-bit quantities *)
TimeLeq(a, b) == \/ a[1] < b[1]
                 \/ a[1] = b[1] /\ a[2] < b[2]
                 \/ a[1] = b[1] /\ a[2] = b[2] /\ a[3] <= b[3]

---------------------------------------------------------------------------
(* Run-length encoded byte vectors live in module Rle.                     *)
---------------------------------------------------------------------------
(* Paths.  A spelled path is [t |-> tokens, lead |-> BOOLEAN, trail |->    *)
(* BOOLEAN]; a token is a name id, "." or "..".                            *)
RECURSIVE NormGo(_, _)
NormGo(toks, acc) ==
  IF toks = <<>> THEN [ok |-> TRUE, names |-> acc]
  ELSE LET t == Head(toks) IN
       IF t = "." THEN NormGo(Tail(toks), acc)
       ELSE IF t = ".." THEN IF acc = <<>> THEN [ok |-> FALSE, names |-> <<>>]
                             ELSE NormGo(Tail(toks), Front(acc))
       ELSE NormGo(Tail(toks), Append(acc, t))
Normalize(p) == NormGo(p.t, <<>>)

AllKnown(names) == \A i \in 1..Len(names) : Known(names[i])
KeyPath(names)  == [i \in 1..Len(names) |-> Units(names[i])]

---------------------------------------------------------------------------
(* The tree: key path |-> node.                                            *)
RootNode == [kind |-> "root", name |-> RootName, data |-> <<>>,
             clsid |-> NilClsid, bits |-> ZeroBits, ct |-> TZero, mt |-> TZero]
EmptyTree == (<<>> :> RootNode)
InitState == [tree |-> EmptyTree, handles |-> <<>>]   \* handles: function h |-> key path

NewStorage(n, ct, mt) == [kind |-> "storage", name |-> n, data |-> <<>>,
                          clsid |-> NilClsid, bits |-> ZeroBits, ct |-> ct, mt |-> mt]
NewStream(n) == [kind |-> "stream", name |-> n, data |-> <<>>,
                 clsid |-> NilClsid, bits |-> ZeroBits, ct |-> TZero, mt |-> TZero]

IsPrefixOf(a, b) == Len(a) <= Len(b) /\ SubSeq(b, 1, Len(a)) = a
Children(t, kp) == {q \in DOMAIN t : Len(q) = Len(kp) + 1 /\ IsPrefixOf(kp, q)}
Subtree(t, kp)  == {q \in DOMAIN t : IsPrefixOf(kp, q)}
SortedChildren(t, kp) ==
  SetToSortSeq(Children(t, kp), LAMBDA a, b : KeyLess(a[Len(a)], b[Len(b)]))

RECURSIVE WalkFrom(_, _)
WalkFrom(t, kp) ==
  LET cs == SortedChildren(t, kp)
      F[i \in 0..Len(cs)] == IF i = 0 THEN <<>> ELSE F[i - 1] \o WalkFrom(t, cs[i])
  IN <<kp>> \o F[Len(cs)]

NamePath(t, kp) == [i \in 1..Len(kp) |-> t[SubSeq(kp, 1, i)].name]

EntryRec(t, kp) ==
  LET nd == t[kp] IN
  [p |-> NamePath(t, kp), n |-> nd.name, k |-> nd.kind,
   l |-> IF nd.kind = "stream" THEN RLen(nd.data) ELSE 0,
   c |-> nd.clsid, b |-> nd.bits, ct |-> nd.ct, mt |-> nd.mt]
WalkRec(t, kp) ==
  LET nd == t[kp] IN
  [p |-> NamePath(t, kp), n |-> nd.name, k |-> nd.kind,
   l |-> IF nd.kind = "stream" THEN RLen(nd.data) ELSE 0,
   c |-> nd.clsid, b |-> nd.bits, ct |-> nd.ct, mt |-> nd.mt, d |-> nd.data]
WalkDump(t) == LET w == WalkFrom(t, <<>>) IN [i \in 1..Len(w) |-> WalkRec(t, w[i])]
ListRec(t, kp) == [p |-> NamePath(t, kp), k |-> t[kp].kind]

RemoveKeys(t, S) == [q \in (DOMAIN t) \ S |-> t[q]]

---------------------------------------------------------------------------
(* Outcomes                                                                *)
OkV(st, v)   == [st |-> st, res |-> [k |-> "ok", v |-> v]]
ErrE(st, e)  == [st |-> st, res |-> [k |-> "err", e |-> e]]
Errs(st, S)  == {ErrE(st, e) : e \in S}
WithTree(st, t) == [st EXCEPT !.tree = t]

(* Why a creation at the (not yet existing) key path kp is refused; {} if   *)
(* it is not.  Several reasons may hold at once: any applicable kind is     *)
(* accepted (DESIGN 9, error precedence).                                   *)
CreateRefusals(t, names, kp) ==
  LET par == Front(kp) IN
  (IF par \notin DOMAIN t THEN {"NotFound"}
   ELSE IF t[par].kind = "stream" THEN {"NotFound", "InvalidInput"}
   ELSE {})
  \cup (IF ~Valid(names[Len(names)]) THEN {"InvalidInput"} ELSE {})

(* Times of storages created by a step are not predictable; they are bound  *)
(* from the event (`times`: sequence of [p, ct, mt]); MC instances pass     *)
(* <<>> and get TZero.                                                      *)
TimeFor(times, np) ==
  LET hits == {i \in 1..Len(times) : times[i].p = np} IN
  IF hits = {} THEN [ct |-> TZero, mt |-> TZero]
  ELSE LET i == CHOOSE i \in hits : TRUE IN [ct |-> times[i].ct, mt |-> times[i].mt]

CreateStorage(st, p, times) ==
  LET nc == Normalize(p) t == st.tree IN
  IF ~nc.ok \/ ~AllKnown(nc.names) THEN {ErrE(st, "InvalidInput")}
  ELSE LET kp == KeyPath(nc.names) IN
  IF kp \in DOMAIN t THEN {ErrE(st, "AlreadyExists")}
  ELSE LET R == CreateRefusals(t, nc.names, kp) IN
  IF R # {} THEN Errs(st, R)
  ELSE LET np == NamePath(t, Front(kp)) \o <<Last(nc.names)>>
           tm == TimeFor(times, np)
       IN {OkV(WithTree(st, t @@ (kp :> NewStorage(Last(nc.names), tm.ct, tm.mt))), "unit")}

(* create_storage_all: every missing prefix is created; the first prefix    *)
(* that exists as a stream refuses the call with AlreadyExists; an invalid  *)
(* component refuses with InvalidInput; in both cases nothing is created.   *)
RECURSIVE CsaGo(_, _, _, _)
CsaGo(t, names, i, times) ==
  IF i > Len(names) THEN t
  ELSE LET kp == KeyPath(SubSeq(names, 1, i)) IN
       IF kp \in DOMAIN t THEN CsaGo(t, names, i + 1, times)
       ELSE LET np == NamePath(t, Front(kp)) \o <<names[i]>>
                tm == TimeFor(times, np)
            IN CsaGo(t @@ (kp :> NewStorage(names[i], tm.ct, tm.mt)), names, i + 1, times)
CreateStorageAll(st, p, times) ==
  LET nc == Normalize(p) t == st.tree IN
  IF ~nc.ok \/ ~AllKnown(nc.names) THEN {ErrE(st, "InvalidInput")}
  ELSE LET names == nc.names
           blocked == {i \in 1..Len(names) :
                          LET kp == KeyPath(SubSeq(names, 1, i)) IN
                          kp \in DOMAIN t /\ t[kp].kind = "stream"}
           missing == {i \in 1..Len(names) : KeyPath(SubSeq(names, 1, i)) \notin DOMAIN t}
           badname == {i \in missing : ~Valid(names[i])}
           R == (IF blocked # {} THEN {"AlreadyExists"} ELSE {})
                \cup (IF badname # {} THEN {"InvalidInput"} ELSE {})
       IN IF R # {} THEN Errs(st, R)
          ELSE {OkV(WithTree(st, CsaGo(t, names, 1, times)), "unit")}

CreateStreamGen(st, p, overwrite) ==
  LET nc == Normalize(p) t == st.tree IN
  IF ~nc.ok \/ ~AllKnown(nc.names) THEN {ErrE(st, "InvalidInput")}
  ELSE LET kp == KeyPath(nc.names) IN
  IF kp \in DOMAIN t
  THEN IF t[kp].kind # "stream" THEN {ErrE(st, "AlreadyExists")}
       ELSE IF ~overwrite THEN {ErrE(st, "AlreadyExists")}
       ELSE {OkV(WithTree(st, [t EXCEPT ![kp].data = <<>>]), "unit")}
  ELSE LET R == CreateRefusals(t, nc.names, kp) IN
  IF R # {} THEN Errs(st, R)
  ELSE {OkV(WithTree(st, t @@ (kp :> NewStream(Last(nc.names)))), "unit")}
CreateStream(st, p)    == CreateStreamGen(st, p, TRUE)
CreateNewStream(st, p) == CreateStreamGen(st, p, FALSE)

(* Generic lookup prologue shared by the remaining methods *)
Resolve(st, p) ==
  LET nc == Normalize(p) IN
  IF ~nc.ok THEN [e |-> "InvalidInput", kp |-> <<>>]
  ELSE IF ~AllKnown(nc.names) THEN [e |-> "NotFound", kp |-> <<>>]
  ELSE LET kp == KeyPath(nc.names) IN
       IF kp \notin DOMAIN st.tree THEN [e |-> "NotFound", kp |-> kp]
       ELSE [e |-> "none", kp |-> kp]

RemoveStorage(st, p) ==
  LET r == Resolve(st, p) t == st.tree IN
  IF r.e # "none" THEN {ErrE(st, r.e)}
  ELSE IF t[r.kp].kind # "storage" THEN {ErrE(st, "InvalidInput")}   \* root or stream
  ELSE IF Children(t, r.kp) # {} THEN {ErrE(st, "InvalidInput")}
  ELSE {OkV(WithTree(st, RemoveKeys(t, {r.kp})), "unit")}

RemoveStream(st, p) ==
  LET r == Resolve(st, p) t == st.tree IN
  IF r.e # "none" THEN {ErrE(st, r.e)}
  ELSE IF t[r.kp].kind # "stream" THEN {ErrE(st, "InvalidInput")}
  ELSE {OkV(WithTree(st, RemoveKeys(t, {r.kp})), "unit")}

(* remove_storage_all on a stream path is an under-specified corner: the    *)
(* code removes the stream; an InvalidInput refusal would be as good.       *)
RemoveStorageAll(st, p) ==
  LET r == Resolve(st, p) t == st.tree IN
  IF r.e # "none" THEN {ErrE(st, r.e)}
  ELSE IF t[r.kp].kind = "stream"
       THEN {OkV(WithTree(st, RemoveKeys(t, {r.kp})), "unit"), ErrE(st, "InvalidInput")}
  ELSE IF t[r.kp].kind = "root"
       THEN {OkV(WithTree(st, RemoveKeys(t, Subtree(t, <<>>) \ {<<>>})), "unit")}
  ELSE {OkV(WithTree(st, RemoveKeys(t, Subtree(t, r.kp))), "unit")}

Exists(st, p)    == LET r == Resolve(st, p) IN {OkV(st, r.e = "none")}
IsStream(st, p)  == LET r == Resolve(st, p) IN
                    {OkV(st, r.e = "none" /\ st.tree[r.kp].kind = "stream")}
IsStorage(st, p) == LET r == Resolve(st, p) IN
                    {OkV(st, r.e = "none" /\ st.tree[r.kp].kind # "stream")}

(* entry(p): the path field echoes the request; it is compared by key.      *)
EntryOf(st, p) ==
  LET r == Resolve(st, p) IN
  IF r.e # "none" THEN {ErrE(st, r.e)} ELSE {OkV(st, EntryRec(st.tree, r.kp))}
RootEntry(st) == {OkV(st, EntryRec(st.tree, <<>>))}

ReadStorage(st, p) ==
  LET r == Resolve(st, p) t == st.tree IN
  IF r.e # "none" THEN {ErrE(st, r.e)}
  ELSE IF t[r.kp].kind = "stream" THEN {ErrE(st, "InvalidInput")}
  ELSE LET cs == SortedChildren(t, r.kp) IN
       {OkV(st, [i \in 1..Len(cs) |-> ListRec(t, cs[i])])}

(* walk_storage on a stream path: under-specified (code yields the stream) *)
WalkStorage(st, p) ==
  LET r == Resolve(st, p) t == st.tree IN
  IF r.e # "none" THEN {ErrE(st, r.e)}
  ELSE LET w == WalkFrom(t, r.kp)
           okres == OkV(st, [i \in 1..Len(w) |-> ListRec(t, w[i])])
       IN IF t[r.kp].kind = "stream" THEN {okres, ErrE(st, "InvalidInput")} ELSE {okres}

OpenStream(st, p, h) ==
  LET r == Resolve(st, p) t == st.tree IN
  IF r.e # "none" THEN {ErrE(st, r.e)}
  ELSE IF t[r.kp].kind # "stream" THEN {ErrE(st, "InvalidInput")}
  ELSE LET st2 == IF h = "" THEN st ELSE [st EXCEPT !.handles = (h :> r.kp) @@ @] IN
       {OkV(st2, RLen(t[r.kp].data))}

ReadAll(st, p) ==
  LET r == Resolve(st, p) t == st.tree IN
  IF r.e # "none" THEN {ErrE(st, r.e)}
  ELSE IF t[r.kp].kind # "stream" THEN {ErrE(st, "InvalidInput")}
  ELSE {OkV(st, t[r.kp].data)}

WriteAtKp(st, kp, off, runs) ==
  LET t == st.tree IN
  IF off > RLen(t[kp].data) THEN {ErrE(st, "InvalidInput")}
  ELSE {OkV(WithTree(st, [t EXCEPT ![kp].data = RSplice(@, off, runs)]), "unit")}
WriteAt(st, p, off, runs) ==
  LET r == Resolve(st, p) t == st.tree IN
  IF r.e # "none" THEN {ErrE(st, r.e)}
  ELSE IF t[r.kp].kind # "stream" THEN {ErrE(st, "InvalidInput")}
  ELSE WriteAtKp(st, r.kp, off, runs)

SetLen(st, p, n) ==
  LET r == Resolve(st, p) t == st.tree IN
  IF r.e # "none" THEN {ErrE(st, r.e)}
  ELSE IF t[r.kp].kind # "stream" THEN {ErrE(st, "InvalidInput")}
  ELSE {OkV(WithTree(st, [t EXCEPT ![r.kp].data = RSetLen(@, n)]), "unit")}

SetClsid(st, p, c) ==
  LET r == Resolve(st, p) t == st.tree IN
  IF r.e # "none" THEN {ErrE(st, r.e)}
  ELSE IF t[r.kp].kind = "stream" THEN {ErrE(st, "InvalidInput")}
  ELSE {OkV(WithTree(st, [t EXCEPT ![r.kp].clsid = c]), "unit")}

SetBits(st, p, b) ==
  LET r == Resolve(st, p) t == st.tree IN
  IF r.e # "none" THEN {ErrE(st, r.e)}
  ELSE {OkV(WithTree(st, [t EXCEPT ![r.kp].bits = b]), "unit")}

(* time setters: no effect on streams; q is the quantised FILETIME          *)
SetCTime(st, p, q) ==
  LET r == Resolve(st, p) t == st.tree IN
  IF r.e # "none" THEN {ErrE(st, r.e)}
  ELSE IF t[r.kp].kind = "stream" THEN {OkV(st, "unit")}
  ELSE {OkV(WithTree(st, [t EXCEPT ![r.kp].ct = q]), "unit")}
SetMTime(st, p, q) ==
  LET r == Resolve(st, p) t == st.tree IN
  IF r.e # "none" THEN {ErrE(st, r.e)}
  ELSE IF t[r.kp].kind = "stream" THEN {OkV(st, "unit")}
  ELSE {OkV(WithTree(st, [t EXCEPT ![r.kp].mt = q]), "unit")}
(* touch: as SetMTime with the clock; on the root the documentation says    *)
(* "no effect" while the code sets the time: both accepted.                 *)
Touch(st, p, times) ==
  LET r == Resolve(st, p) t == st.tree IN
  IF r.e # "none" THEN {ErrE(st, r.e)}
  ELSE IF t[r.kp].kind = "stream" THEN {OkV(st, "unit")}
  ELSE LET tm == TimeFor(times, NamePath(t, r.kp))
           set == OkV(WithTree(st, [t EXCEPT ![r.kp].mt = tm.mt]), "unit")
       IN IF t[r.kp].kind = "root" THEN {set, OkV(st, "unit")} ELSE {set}

Flush(st)  == {OkV(st, "unit")}
(* Reopening the bytes is the identity on the logical state; all handles    *)
(* are gone afterwards.                                                     *)
Reopen(st) == {OkV([st EXCEPT !.handles = <<>>], "unit")}

(* Handle operations.  In file-level histories every handle operation       *)
(* flushes before it returns, so a handle never holds pending data between  *)
(* events and is fully described by the stream it is bound to.  A handle    *)
(* whose stream no longer exists is outside the properties (never driven).  *)
HAlive(st, h) == h \in DOMAIN st.handles /\ st.handles[h] \in DOMAIN st.tree
                 /\ st.tree[st.handles[h]].kind = "stream"
HWrite(st, h, off, runs) == WriteAtKp(st, st.handles[h], off, runs)
HRead(st, h)   == {OkV(st, st.tree[st.handles[h]].data)}
HLen(st, h)    == {OkV(st, RLen(st.tree[st.handles[h]].data))}
HSetLen(st, h, n) ==
  LET kp == st.handles[h] IN
  {OkV(WithTree(st, [st.tree EXCEPT ![kp].data = RSetLen(@, n)]), "unit")}
HClose(st, h)  == {OkV([st EXCEPT !.handles = [x \in (DOMAIN @) \ {h} |-> @[x]]], "unit")}
(* create_stream / create_new_stream keeping the handle *)
CreateStreamH(st, p, overwrite, h) ==
  LET outs == CreateStreamGen(st, p, overwrite) IN
  IF h = "" THEN outs
  ELSE {IF o.res.k = "ok"
        THEN [o EXCEPT !.st.handles = (h :> KeyPath(Normalize(p).names)) @@ @]
        ELSE o : o \in outs}

---------------------------------------------------------------------------
(* State invariants of the abstract model (checked by MC_Tree).            *)
TreeOK(t) ==
  /\ <<>> \in DOMAIN t /\ t[<<>>].kind = "root"
  /\ \A kp \in DOMAIN t :
       kp # <<>> =>
         /\ t[kp].kind \in {"storage", "stream"}
         /\ Front(kp) \in DOMAIN t /\ t[Front(kp)].kind # "stream"
         /\ Units(t[kp].name) = kp[Len(kp)]       \* stored spelling folds to its key
         /\ Valid(t[kp].name)
  /\ \A kp \in DOMAIN t :
       t[kp].kind = "stream" => t[kp].clsid = NilClsid /\ t[kp].ct = TZero /\ t[kp].mt = TZero
=============================================================================
