------------------------------ MODULE MC_Fault ------------------------------
(***************************************************************************)
(* C13 (and the write-through half of C02) at design level: CfbFault, the  *)
(* write paths at the granularity of single backend writes, explored at    *)
(* the tiny geometry of MC_Phys.                                           *)
(*                                                                         *)
(* Fault-free exploration: every sequence of create / overwrite / write /  *)
(* set_len / remove on a few root-level names up to MaxOps.  In every      *)
(* reachable state (m = memory, d = file, am = abstract content):          *)
(*                                                                         *)
(*  InvThrough  the file, read back from its sectors, is accepted by the   *)
(*              open-path model and holds exactly the tables memory holds  *)
(*              (write-through: nothing is only in memory);                *)
(*  InvPhys     memory equals the state CfbPhys computes for the same      *)
(*              history (the two transcriptions agree; CfbPhys is bound to *)
(*              the code by Trace_Phys);                                   *)
(*  InvRetry    for every enabled operation and every write of it taken as *)
(*              the failing one: the call is aborted there (what `?` does),*)
(*              then retried; if the retry succeeds, the file opens, holds *)
(*              the abstract content after the operation, every stream's   *)
(*              chain has the length its size needs, no two owners share a *)
(*              sector or mini sector - and memory and file agree again;   *)
(*  InvRetry2   the same with one successful operation on ANOTHER name     *)
(*              between the failure and the retry (the failed call's       *)
(*              leftovers must not be handed to someone else and then      *)
(*              released again).                                           *)
(* A retry that is refused is not judged ("later calls may fail").         *)
(* Old = TRUE switches CfbFault to the pinned orders; the self-test        *)
(* requires TLC to find the four defects repaired in /repo with it.        *)
(***************************************************************************)
EXTENDS Naturals, Integers, Sequences, FiniteSets, TLC

CONSTANTS Names, Sizes, MaxOps, V4, Old, Interleave

Rank(n) == CASE n = "a" -> 1 [] n = "b" -> 2 [] n = "c" -> 3 [] n = "d" -> 4 [] OTHER -> 9
MCLess(a, b) == Rank(a) < Rank(b)
MCEq(a, b) == a = b
MCKnown(n) == TRUE
SLEN == 4
F == INSTANCE CfbFault WITH SectorLen <- SLEN, MiniLen <- 2, Cutoff <- 8, FatPer <- 4, DirPer <- 2, DifatHdr <- 1,
                            DirCount <- V4, NameLess <- MCLess, NameEq <- MCEq, FreeFirst <- Old,
                            KeepLog <- FALSE, KeepDisk <- TRUE
P == INSTANCE CfbPhys WITH SectorLen <- SLEN, MiniLen <- 2, Cutoff <- 8, FatPer <- 4, DirPer <- 2, DifatHdr <- 1,
                           DirCount <- V4, NameLess <- MCLess, NameEq <- MCEq, ModuloPolicy <- FALSE, TrackData <- FALSE, Scrub <- TRUE
O == INSTANCE CfbOpen WITH DifatHdrLen <- 1, MiniLen <- 2, CutoffLen <- 8, NameLess <- MCLess, NameKnown <- MCKnown,
                           RootNameStr <- "Root Entry"

VARIABLES m, d, p, am, nops
vars == <<m, d, p, am, nops>>

---------------------------------------------------------------------------
Op(o, n, a, b) == [op |-> o, n |-> n, a |-> a, b |-> b]
Alphabet ==
  {Op(o, n, 0, 0) : o \in {"create_stream", "create_storage", "remove"}, n \in Names}
  \cup {Op("write", n, a, b) : n \in Names, a \in {0, 3}, b \in Sizes \ {0}}
  \cup {Op("set_len", n, a, 0) : n \in Names, a \in Sizes}
IsStream(x, n) == n \in DOMAIN x /\ x[n].kind = "stream"
Enabled(x, o) ==
  CASE o.op = "create_stream"  -> o.n \notin DOMAIN x \/ IsStream(x, o.n)
    [] o.op = "create_storage" -> o.n \notin DOMAIN x
    [] o.op = "remove"         -> o.n \in DOMAIN x
    [] o.op = "write"          -> IsStream(x, o.n) /\ o.a <= x[o.n].size
    [] o.op = "set_len"        -> IsStream(x, o.n)
ApplyModel(x, o) ==
  CASE o.op = "create_stream"  -> (o.n :> [kind |-> "stream", size |-> 0]) @@ x
    [] o.op = "create_storage" -> (o.n :> [kind |-> "storage", size |-> 0]) @@ x
    [] o.op = "remove"         -> [y \in (DOMAIN x) \ {o.n} |-> x[y]]
    [] o.op = "write"          -> [x EXCEPT ![o.n].size = IF @ > o.a + o.b THEN @ ELSE o.a + o.b]
    [] o.op = "set_len"        -> [x EXCEPT ![o.n].size = o.a]
RunH(s, o, x) ==
  CASE o.op = "create_stream"  -> F!CreateStream(s, o.n)
    [] o.op = "create_storage" -> F!CreateStorage(s, o.n)
    [] o.op = "remove"         -> F!Remove(s, o.n)
    [] o.op = "write"          -> F!Write(s, o.n, o.a, o.b)
    \* the length the handle knows: (repaired) after a failed set_len the handle follows the directory entry, which
    \* is only changed when its write succeeded; (pinned) the handle kept the length from before the failed call
    [] o.op = "set_len"        -> F!SetLen(s, o.n, o.a, IF Old \/ F!FindChild(s.m, 0, o.n) = -1 THEN x[o.n].size
                                                       ELSE F!E(s.m, F!FindChild(s.m, 0, o.n)).size)
Run(s, o) == RunH(s, o, am)          \* the handle of o.n knows the length the abstract state has
ApplyPhys(q, x, o) ==
  CASE o.op = "create_stream"  -> P!CreateStream(q, 0, o.n)
    [] o.op = "create_storage" -> P!CreateStorage(q, 0, o.n)
    [] o.op = "remove"         -> IF x[o.n].kind = "stream" THEN P!RemoveStream(q, 0, o.n) ELSE P!RemoveStorage(q, 0, o.n)
    [] o.op = "write"          -> P!WriteData(q, P!FindChild(q, 0, o.n), o.a, o.b)
    [] o.op = "set_len"        -> P!SetLen(q, P!FindChild(q, 0, o.n), o.a)

Init == m = F!FreshMem /\ d = F!FreshDisk /\ p = P!Fresh /\ am = <<>> /\ nops = 0
Do(o) ==
  /\ nops < MaxOps /\ Enabled(am, o)
  /\ LET r == Run(F!Start(m, d, 0), o) IN m' = r.m /\ d' = r.d
  /\ p' = ApplyPhys(p, am, o) /\ am' = ApplyModel(am, o) /\ nops' = nops + 1
Next == \E o \in Alphabet : Do(o)
Spec == Init /\ [][Next]_vars

---------------------------------------------------------------------------
(* What a file is worth: read back sector by sector, judged by the open-path model *)
RECURSIVE FollowC(_, _, _)
FollowC(t, cur, acc) ==      \* a chain through table t; ok iff it ends with ENDC
  IF cur = F!ENDC THEN [ok |-> TRUE, secs |-> acc]
  ELSE IF cur < 0 \/ cur >= Len(t) \/ (\E i \in 1..Len(acc) : acc[i] = cur) THEN [ok |-> FALSE, secs |-> acc]
  ELSE FollowC(t, t[cur + 1], Append(acc, cur))
RECURSIVE InOrder(_, _, _)
InOrder(ents, cur, fuel) ==
  IF cur = -1 \/ cur < 0 \/ cur >= Len(ents) \/ fuel = 0 THEN <<>>
  ELSE InOrder(ents, ents[cur + 1].left, fuel - 1) \o <<cur>> \o InOrder(ents, ents[cur + 1].right, fuel - 1)
Range(q) == {q[i] : i \in 1..Len(q)}
RECURSIVE Flat(_, _)
Flat(f, n) == IF n = 0 THEN <<>> ELSE Flat(f, n - 1) \o f[n]
NoDup(q) == Cardinality(Range(q)) = Len(q)
KindName(k) == IF k = 2 THEN "stream" ELSE "storage"

GoodDisk(dd, x) ==
  LET img == F!Decode(dd)
      v == O!Verdict(img, FALSE)
  IN v.k = "ok" /\
  LET ents == v.st.ents  fat == v.st.fat  mf == v.st.minifat
      kids == InOrder(ents, ents[1].child, Len(ents) + 1)
      streams == SelectSeq(kids, LAMBDA i : ents[i + 1].type = 2)
      big == SelectSeq(streams, LAMBDA i : ents[i + 1].size >= 8)
      small == SelectSeq(streams, LAMBDA i : ents[i + 1].size > 0 /\ ents[i + 1].size < 8)
      bigCh == [k \in 1..Len(big) |-> FollowC(fat, ents[big[k] + 1].start, <<>>)]
      smallCh == [k \in 1..Len(small) |-> FollowC(mf, ents[small[k] + 1].start, <<>>)]
      dirCh == FollowC(fat, v.st.first_dir, <<>>)
      mfCh == FollowC(fat, v.st.first_minifat, <<>>)
      rootCh == FollowC(fat, ents[1].start, <<>>)
      owners == dirCh.secs \o mfCh.secs \o rootCh.secs \o v.st.difat \o v.st.difat_secs
                \o Flat([k \in 1..Len(big) |-> bigCh[k].secs], Len(big))
  IN /\ NoDup(kids)
     /\ {ents[i + 1].name : i \in Range(kids)} = DOMAIN x
     /\ \A i \in Range(kids) : LET e == ents[i + 1] IN
          /\ e.name \in DOMAIN x => (KindName(e.type) = x[e.name].kind /\ (e.type = 2 => e.size = x[e.name].size))
          /\ (e.type = 2 /\ e.size = 0 => e.start = F!ENDC)
     /\ \A k \in 1..Len(big) : bigCh[k].ok /\ Len(bigCh[k].secs) = F!CeilDiv(ents[big[k] + 1].size, SLEN)
     /\ \A k \in 1..Len(small) : /\ smallCh[k].ok /\ Len(smallCh[k].secs) = F!CeilDiv(ents[small[k] + 1].size, 2)
                                 /\ \A q \in Range(smallCh[k].secs) : (q + 1) * 2 <= ents[1].size
     /\ dirCh.ok /\ mfCh.ok /\ rootCh.ok
     /\ ents[1].size <= Len(rootCh.secs) * SLEN
     /\ NoDup(owners)                                                               \* at most one owner per sector
     /\ NoDup(Flat([k \in 1..Len(small) |-> smallCh[k].secs], Len(small)))           \* ... and per mini sector
     /\ \A q \in Range(owners) : q >= 0 /\ q < Len(fat) /\ fat[q + 1] # F!FREE       \* nothing in use is marked free

(* memory and file hold the same tables *)
Agree(mm, dd) ==
  LET img == F!Decode(dd) IN
  /\ img.fat = mm.fat
  /\ img.minifat = F!TrimFree(mm.minifat) /\ F!TrimFree(mm.minifat) = mm.minifat
  /\ img.hdr.first_minifat = mm.minifatStart
  /\ img.hdr.first_dir = mm.dirStart
  /\ img.fat_secs = mm.difat
  /\ img.difat_secs = mm.difatSecs
  /\ Len(img.slots) >= Len(mm.slots)
  /\ \A i \in 1..Len(img.slots) :
       LET want == IF i <= Len(mm.slots) THEN F!ImgSlot(mm.slots[i]) ELSE F!ImgSlot(F!Unalloc) IN img.slots[i] = want
  /\ Len(dd.sec) = mm.nsec

InvThrough == Agree(m, d) /\ GoodDisk(d, am) /\ O!Verdict(F!Decode(d), TRUE).k = "ok"
InvPhys ==
  /\ m.fat = p.fat /\ m.free = p.free /\ m.difat = p.difat /\ m.difatSecs = p.difatSecs /\ m.slots = [i \in 1..Len(p.slots) |-> P!Core(p.slots[i])]
  /\ m.minifat = p.minifat /\ m.minifatStart = p.minifatStart /\ m.freeMini = p.freeMini /\ m.nsec = p.nsec
  /\ d.hdr.nfat = p.hdr.nfat /\ d.hdr.ndifat = p.hdr.ndifat /\ d.hdr.firstDifat = p.hdr.firstDifat
  /\ d.hdr.nminifat = p.hdr.nminifat /\ d.hdr.firstMinifat = p.hdr.firstMinifat /\ d.hdr.ndir = p.hdr.ndir

(* every write of every enabled operation as the failing one, then the retry *)
RetryOK(mm, dd, x, o) ==
  LET full == Run(F!Start(mm, dd, 0), o) IN
  \A k \in 1..full.n :
    LET f == Run(F!Start(mm, dd, k), o)
        r == Run(F!Start(f.m, f.d, 0), o)
    IN (~f.ok /\ r.ok) => (GoodDisk(r.d, ApplyModel(x, o)) /\ Agree(r.m, r.d))
InvRetry == \A o \in Alphabet : Enabled(am, o) => RetryOK(m, d, am, o)

(* the same as a set of witnesses (printed by the self-test and when a run fails) *)
RetryWitnesses(mm, dd, x) ==
  UNION {LET full == Run(F!Start(mm, dd, 0), o) IN
         {<<o, k, Run(F!Start(mm, dd, k), o).fw, (IF GoodDisk(Run(F!Start(Run(F!Start(mm, dd, k), o).m, Run(F!Start(mm, dd, k), o).d, 0), o).d, ApplyModel(x, o))
                   THEN "memory-and-file-disagree" ELSE "file-not-good")>> :
            k \in {j \in 1..full.n :
                     LET f == Run(F!Start(mm, dd, j), o)
                         r == Run(F!Start(f.m, f.d, 0), o)
                     IN ~f.ok /\ r.ok /\ ~(GoodDisk(r.d, ApplyModel(x, o)) /\ Agree(r.m, r.d))}}
         : o \in {o \in Alphabet : Enabled(x, o)}}
InvRetryShow == LET w == RetryWitnesses(m, d, am) IN w = {} \/ (PrintT(<<"RETRY-FAILS", w>>) /\ FALSE)

(* ... with one successful operation on another name in between *)
InvRetry2 ==
  Interleave =>
  \A o \in Alphabet : Enabled(am, o) =>
    LET full == Run(F!Start(m, d, 0), o) IN
    \A k \in 1..full.n :
      LET f == Run(F!Start(m, d, k), o) IN
      ~f.ok =>
        \A o2 \in Alphabet : (o2.n # o.n /\ Enabled(am, o2)) =>
          LET g == Run(F!Start(f.m, f.d, 0), o2)
              r == Run(F!Start(g.m, g.d, 0), o)
          IN (g.ok /\ r.ok) => GoodDisk(r.d, ApplyModel(ApplyModel(am, o2), o))
Retry2Witnesses ==
  UNION {LET full == Run(F!Start(m, d, 0), o) IN
         UNION {LET f == Run(F!Start(m, d, k), o) IN
                IF f.ok THEN {} ELSE
                {<<o, k, f.fw, o2>> : o2 \in {o2 \in Alphabet : o2.n # o.n /\ Enabled(am, o2) /\
                     LET g == Run(F!Start(f.m, f.d, 0), o2)
                         r == Run(F!Start(g.m, g.d, 0), o)
                     IN g.ok /\ r.ok /\ ~GoodDisk(r.d, ApplyModel(ApplyModel(am, o2), o))}}
                : k \in 1..full.n}
         : o \in {o \in Alphabet : Enabled(am, o)}}
InvRetry2Show == LET w == Retry2Witnesses IN w = {} \/ (PrintT(<<"RETRY2-FAILS", w>>) /\ FALSE)
=============================================================================
