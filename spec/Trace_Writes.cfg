SPECIFICATION Spec
CONSTANT Dict <- DictIn
POSTCONDITION Consumed
CHECK_DEADLOCK FALSE
