SPECIFICATION Spec
CONSTANTS K = 5 Depth = 1
INVARIANT InClass
CHECK_DEADLOCK FALSE
