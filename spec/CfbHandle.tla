----------------------------- MODULE CfbHandle -----------------------------
(***************************************************************************)
(* The stream-handle cache of rust-cfb (internal/stream.rs and             *)
(* internal/stream_buffer.rs), transcribed action by action, next to the   *)
(* reference semantics every handle must have: a byte vector with a        *)
(* cursor.                                                                 *)
(*                                                                         *)
(* Handle state h:                                                         *)
(*   file   committed bytes of the stream (what the directory entry and    *)
(*          chain hold)                                   -- run list      *)
(*   total  Stream::total_len (includes not yet written-back data)         *)
(*   boff   buf_offset_from_start                                          *)
(*   pos, cap, dlen, data   StreamBuffer: cursor, filled length,           *)
(*          data.len(), contents (run list of length dlen)                 *)
(*   dirty  flusher.is_some()                                              *)
(*                                                                         *)
(* FixDirty / FixRefill select the repaired protocol (TRUE) or the         *)
(* protocol of the pinned commit (FALSE): "keep the dirty marker when the  *)
(* write-back fails" and "drop the window when the refill fails".          *)
(* Every step that performs backend I/O takes a boolean saying whether     *)
(* that I/O fails; one write-back happens completely or not at all.        *)
(***************************************************************************)
EXTENDS Naturals, Integers, Sequences, FiniteSets, TLC, Rle

CONSTANTS MinBuf, Growth, MaxBuf, FixDirty, FixRefill

Pos(h) == h.boff + h.pos

NewHandle(file) ==
  [file |-> file, total |-> RLen(file), boff |-> 0, pos |-> 0, cap |-> 0,
   dlen |-> MinBuf, data |-> RZeros(MinBuf), dirty |-> FALSE]

(* flush_changes: the marker is taken first (stream.rs); the repair puts it  *)
(* back when the write-back fails.                                           *)
FlushChanges(h, fail) ==
  IF ~h.dirty THEN [h |-> h, ok |-> TRUE, io |-> FALSE]
  ELSE IF fail THEN [h |-> [h EXCEPT !.dirty = FixDirty], ok |-> FALSE, io |-> TRUE]
  ELSE [h |-> [h EXCEPT !.dirty = FALSE,
                        !.file = RSplice(h.file, h.boff, RTake(h.data, h.cap))],
        ok |-> TRUE, io |-> TRUE]

Clear(h) == [h EXCEPT !.pos = 0, !.cap = 0]

(* fill_buf: returns [h, ok, wio, rio] (which I/O happened) *)
FillBuf(h, failW, failR) ==
  IF ~(h.pos < h.cap) /\ Pos(h) < h.total
  THEN LET f == FlushChanges(h, failW) IN
       IF ~f.ok THEN [h |-> f.h, ok |-> FALSE, wio |-> f.io, rio |-> FALSE]
       ELSE LET h1 == [f.h EXCEPT !.boff = @ + f.h.pos, !.pos = 0]
                remaining == h1.total - h1.boff
                dl == IF remaining <= h1.dlen THEN h1.dlen
                      ELSE RMax(RMin(remaining, MaxBuf), MinBuf)
                h2 == [h1 EXCEPT !.dlen = dl, !.data = RCat(@, RZeros(dl - h1.dlen))]
            IN IF failR
               THEN [h |-> (IF FixRefill THEN [h2 EXCEPT !.cap = 0] ELSE h2),
                     ok |-> FALSE, wio |-> f.io, rio |-> TRUE]
               ELSE LET avail == IF h2.boff >= RLen(h2.file) THEN 0 ELSE RLen(h2.file) - h2.boff
                        n == RMin(avail, h2.dlen)
                    IN [h |-> [h2 EXCEPT !.data = RSplice(@, 0, RSlice(h2.file, h2.boff, n)),
                                         !.cap = n, !.pos = RMin(@, n)],
                        ok |-> TRUE, wio |-> f.io, rio |-> (n > 0)]
  ELSE [h |-> h, ok |-> TRUE, wio |-> FALSE, rio |-> FALSE]

(* StreamBuffer::write_bytes; none = "buffer cannot grow" *)
WriteBytes(h, bs) ==
  LET full == h.pos >= h.dlen
      canGrow == h.dlen < MaxBuf
      nl == RMin(h.dlen * Growth, MaxBuf)
      t == IF full /\ canGrow
           THEN [h EXCEPT !.dlen = nl, !.data = RCat(@, RZeros(nl - h.dlen))] ELSE h
  IN IF full /\ ~canGrow THEN [none |-> TRUE, h |-> h, n |-> 0]
     ELSE LET w == RMin(RLen(bs), t.dlen - t.pos) IN
          [none |-> FALSE, n |-> w,
           h |-> [t EXCEPT !.data = RSplice(@, t.pos, RTake(bs, w)),
                           !.pos = @ + w, !.cap = RMax(@, t.pos + w)]]

Modified(h, n) ==
  IF n > 0 THEN [h EXCEPT !.dirty = TRUE, !.total = RMax(@, h.boff + h.cap)] ELSE h

(* Write::write -> [h, ok, n, wio] *)
Write(h, bs, failW) ==
  LET w1 == WriteBytes(h, bs) IN
  IF ~w1.none THEN [h |-> Modified(w1.h, w1.n), ok |-> TRUE, n |-> w1.n, wio |-> FALSE]
  ELSE LET f == FlushChanges(h, failW) IN
       IF ~f.ok THEN [h |-> f.h, ok |-> FALSE, n |-> 0, wio |-> f.io]
       ELSE LET h1 == Clear([f.h EXCEPT !.boff = @ + f.h.pos])
                w2 == WriteBytes(h1, bs)
                n2 == IF w2.none THEN 0 ELSE w2.n
            IN [h |-> Modified(w2.h, n2), ok |-> TRUE, n |-> n2, wio |-> f.io]

(* Seek to an already validated absolute position -> [h, ok, wio] *)
SeekTo(h, np, failW) ==
  IF np < h.boff \/ np > h.boff + h.cap
  THEN LET f == FlushChanges(h, failW) IN
       IF ~f.ok THEN [h |-> f.h, ok |-> FALSE, wio |-> f.io]
       ELSE [h |-> Clear([f.h EXCEPT !.boff = np]), ok |-> TRUE, wio |-> f.io]
  ELSE [h |-> [h EXCEPT !.pos = np - h.boff], ok |-> TRUE, wio |-> FALSE]

(* set_len -> [h, ok, wio, zio]; failZ = the resize itself fails *)
SetLen(h, n, failW, failZ) ==
  IF n = h.total THEN [h |-> h, ok |-> TRUE, wio |-> FALSE, zio |-> FALSE]
  ELSE LET np == RMin(Pos(h), n)
           f == FlushChanges(h, failW) IN
       IF ~f.ok THEN [h |-> f.h, ok |-> FALSE, wio |-> f.io, zio |-> FALSE]
       ELSE IF failZ THEN [h |-> f.h, ok |-> FALSE, wio |-> f.io, zio |-> TRUE]
       ELSE [h |-> Clear([f.h EXCEPT !.file = RSetLen(@, n), !.total = n, !.boff = np]),
             ok |-> TRUE, wio |-> f.io, zio |-> TRUE]

(* Write::flush -> [h, ok, wio, fio]; failF = the inner flush fails *)
Flush(h, failW, failF) ==
  LET f == FlushChanges(h, failW) IN
  IF ~f.ok THEN [h |-> f.h, ok |-> FALSE, wio |-> f.io, fio |-> FALSE]
  ELSE [h |-> f.h, ok |-> ~failF, wio |-> f.io, fio |-> TRUE]

(* what a fresh handle would read now *)
Committed(h) == h.file
(* what this handle should read: committed bytes overlaid with its pending window *)
View(h) == IF h.dirty THEN RSplice(h.file, h.boff, RTake(h.data, h.cap)) ELSE h.file

(* Structural invariants of the cache *)
CacheOK(h) ==
  /\ h.pos <= h.cap /\ h.cap <= h.dlen /\ RLen(h.data) = h.dlen
  /\ h.dlen >= MinBuf /\ h.dlen <= RMax(MaxBuf, MinBuf)
  /\ h.boff <= RLen(h.file)                    \* write-back never leaves a hole
  /\ Pos(h) <= h.total
  /\ (~h.dirty => h.total = RLen(h.file))
  /\ (~h.dirty /\ h.cap > 0 => RSlice(h.file, h.boff, h.cap) = RNorm(RTake(h.data, h.cap)))
=============================================================================
