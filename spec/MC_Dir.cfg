SPECIFICATION Spec
CONSTANTS Keys = {1,2,3,4,5} CopyOnRemove = FALSE Emit = FALSE WithHandle = FALSE ViewShape = TRUE MaxOps = 99
VIEW View_
CONSTRAINT Bound
ACTION_CONSTRAINT EmitEdge
INVARIANT TreeOK HandleBound
CHECK_DEADLOCK FALSE
