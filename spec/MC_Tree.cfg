SPECIFICATION Spec
CONSTANT Dict <- MCDict
CONSTANT MaxNodes = 4
CONSTANT Names = {"foo", "FOO", "bar", "a", "bad_colon"}
CONSTANT Emit = FALSE
VIEW View
CONSTRAINT Bound
ACTION_CONSTRAINT EmitEdge
INVARIANT InvTree InvSorted InvWalk
PROPERTY RefusalsStutter
CHECK_DEADLOCK FALSE
