------------------------------- MODULE CfbDir -------------------------------
(***************************************************************************)
(* The directory of one storage as rust-cfb maintains it                   *)
(* (src/internal/directory.rs): a table of slots, first-free slot          *)
(* allocation, an UNBALANCED binary search tree of siblings hanging off    *)
(* the parent's child link, insertion at a leaf, and removal by relinking  *)
(* (the removed entry's in-order predecessor takes its place; no entry     *)
(* ever moves to another slot).  Transcribed action by action:             *)
(*   Insert(k)  = allocate_dir_entry + insert_dir_entry                    *)
(*   Remove(k)  = remove_dir_entry + free_dir_entry                        *)
(* Keys are integers; their order stands for the CFB name order.           *)
(*                                                                         *)
(* Ghost state: every created entry gets a fresh serial; an open handle    *)
(* remembers (slot id, serial).  HandleBound is C07 at design level: as    *)
(* long as the handle's own stream exists, its slot still holds it.        *)
(*                                                                         *)
(* CopyOnRemove = TRUE selects the protocol of the pinned commit (the      *)
(* predecessor's CONTENT is copied into the removed entry's slot and the   *)
(* predecessor's slot is freed), which violates HandleBound.               *)
(***************************************************************************)
EXTENDS Naturals, Integers, Sequences, FiniteSets, TLC

CONSTANTS Keys,          \* set of integer keys
          CopyOnRemove   \* FALSE = current code (relink), TRUE = pinned commit (copy)

NO == -1
Unalloc == [key |-> 0, left |-> NO, right |-> NO, serial |-> 0, alloc |-> FALSE]

VARIABLES slots,     \* sequence; slots[i + 1] is slot id i; slot 0 is the parent (root)
          child,     \* the parent's child link
          serialCtr,
          handle     \* [slot, serial] or [slot |-> NO, serial |-> 0]
dvars == <<slots, child, serialCtr, handle>>

E(s, i) == s[i + 1]
SetE(s, i, e) == [s EXCEPT ![i + 1] = e]
NSlots(s) == Len(s)

DirInit ==
  /\ slots = <<[key |-> 0, left |-> NO, right |-> NO, serial |-> 0, alloc |-> TRUE]>>
  /\ child = NO /\ serialCtr = 0 /\ handle = [slot |-> NO, serial |-> 0]

Live(s) == {i \in 1..(NSlots(s) - 1) : E(s, i).alloc}
LiveKeys(s) == {E(s, i).key : i \in Live(s)}

(* allocate_dir_entry: first unallocated slot, else append *)
FirstFree(s) ==
  LET free == {i \in 1..(NSlots(s) - 1) : ~E(s, i).alloc} IN
  IF free = {} THEN NSlots(s) ELSE CHOOSE i \in free : \A j \in free : i <= j

(* descend from `cur` looking for key k; returns the path of slot ids visited *)
RECURSIVE PathTo(_, _, _, _)
PathTo(s, k, cur, acc) ==
  IF cur = NO THEN acc
  ELSE LET acc2 == Append(acc, cur) IN
       IF E(s, cur).key = k THEN acc2
       ELSE IF k < E(s, cur).key THEN PathTo(s, k, E(s, cur).left, acc2)
       ELSE PathTo(s, k, E(s, cur).right, acc2)

Insert(k) ==
  /\ k \notin LiveKeys(slots)
  /\ LET id == FirstFree(slots)
         s0 == IF id = NSlots(slots) THEN Append(slots, Unalloc) ELSE slots
         ne == [key |-> k, left |-> NO, right |-> NO, serial |-> serialCtr + 1, alloc |-> TRUE]
         s1 == SetE(s0, id, ne)
         path == PathTo(slots, k, child, <<>>)
     IN IF path = <<>>
        THEN /\ child' = id /\ slots' = s1
        ELSE LET last == path[Len(path)] IN
             /\ UNCHANGED child
             /\ slots' = IF k < E(s1, last).key
                         THEN SetE(s1, last, [E(s1, last) EXCEPT !.left = id])
                         ELSE SetE(s1, last, [E(s1, last) EXCEPT !.right = id])
  /\ serialCtr' = serialCtr + 1
  /\ UNCHANGED handle

(* rightmost entry of the subtree rooted at cur, with its parent *)
RECURSIVE Rightmost(_, _, _)
Rightmost(s, par, cur) ==
  IF E(s, cur).right = NO THEN [par |-> par, id |-> cur] ELSE Rightmost(s, cur, E(s, cur).right)

(* remove_dir_entry as of the current code: relink, no slot moves *)
RemoveRelink(s, ch, k) ==
  LET path == PathTo(s, k, ch, <<>>)
      id == path[Len(path)]
      owner == IF Len(path) > 1 THEN path[Len(path) - 1] ELSE 0
      l == E(s, id).left
      r == E(s, id).right
      two == l # NO /\ r # NO
      pr == IF two THEN Rightmost(s, id, l) ELSE [par |-> NO, id |-> NO]
      s1 == IF two /\ pr.par # id
            THEN LET a == SetE(s, pr.par, [E(s, pr.par) EXCEPT !.right = E(s, pr.id).left])
                 IN SetE(a, pr.id, [E(a, pr.id) EXCEPT !.left = l])
            ELSE s
      s2 == IF two THEN SetE(s1, pr.id, [E(s1, pr.id) EXCEPT !.right = r]) ELSE s1
      repl == IF l = NO THEN r ELSE IF r = NO THEN l ELSE pr.id
      s3 == IF owner = 0 THEN s2
            ELSE IF E(s2, owner).left = id
                 THEN SetE(s2, owner, [E(s2, owner) EXCEPT !.left = repl])
                 ELSE SetE(s2, owner, [E(s2, owner) EXCEPT !.right = repl])
  IN [s |-> SetE(s3, id, Unalloc), ch |-> IF owner = 0 THEN repl ELSE ch]

(* the pinned commit (directory.rs before ea0d94f): the predecessor's ENTRY  *)
(* is copied into the removed entry's slot (taking over that slot's links)  *)
(* and the predecessor's old slot, which has at most a left child, is       *)
(* unlinked and freed instead                                               *)
RemoveCopy(s, ch, k) ==
  LET path == PathTo(s, k, ch, <<>>)
      id == path[Len(path)]
      l == E(s, id).left
      r == E(s, id).right
  IN IF l # NO /\ r # NO
     THEN LET pr == Rightmost(s, id, l)
              s1 == SetE(s, id, [E(s, pr.id) EXCEPT !.left = l, !.right = r])
              repl == E(s, pr.id).left
              s2 == IF pr.par = id THEN SetE(s1, id, [E(s1, id) EXCEPT !.left = repl])
                    ELSE SetE(s1, pr.par, [E(s1, pr.par) EXCEPT !.right = repl])
          IN [s |-> SetE(s2, pr.id, Unalloc), ch |-> ch]
     ELSE RemoveRelink(s, ch, k)

Remove(k) ==
  /\ k \in LiveKeys(slots)
  /\ ~(handle.slot # NO /\ E(slots, handle.slot).alloc /\ E(slots, handle.slot).key = k
       /\ E(slots, handle.slot).serial = handle.serial)   \* the handle's own stream is never removed
  /\ LET r == IF CopyOnRemove THEN RemoveCopy(slots, child, k) ELSE RemoveRelink(slots, child, k) IN
     /\ slots' = r.s /\ child' = r.ch
  /\ UNCHANGED <<serialCtr, handle>>

Open(k) ==
  /\ handle.slot = NO /\ k \in LiveKeys(slots)
  /\ LET path == PathTo(slots, k, child, <<>>) id == path[Len(path)] IN
     handle' = [slot |-> id, serial |-> E(slots, id).serial]
  /\ UNCHANGED <<slots, child, serialCtr>>

---------------------------------------------------------------------------
(* In-order traversal from the child link *)
RECURSIVE InOrder(_, _, _)
InOrder(s, cur, fuel) ==
  IF cur = NO \/ fuel = 0 THEN <<>>
  ELSE InOrder(s, E(s, cur).left, fuel - 1) \o <<cur>> \o InOrder(s, E(s, cur).right, fuel - 1)

(* the sibling tree lists exactly the live slots, strictly sorted by key *)
TreeOK ==
  LET w == InOrder(slots, child, NSlots(slots) + 1) IN
  /\ Len(w) = Cardinality(Live(slots))
  /\ {w[i] : i \in 1..Len(w)} = Live(slots)
  /\ \A i \in 1..(Len(w) - 1) : E(slots, w[i]).key < E(slots, w[i + 1]).key
  /\ \A i \in 1..(NSlots(slots) - 1) : ~E(slots, i).alloc => slots[i + 1] = Unalloc

(* C07 at design level *)
HandleBound ==
  (handle.slot # NO /\ (\E i \in Live(slots) : E(slots, i).serial = handle.serial))
     => (E(slots, handle.slot).alloc /\ E(slots, handle.slot).serial = handle.serial)

(* the shape of the tree in terms of keys (what determines behaviour) *)
Shape == [i \in Live(slots) |->
            <<E(slots, i).key,
              IF E(slots, i).left = NO THEN 0 ELSE E(slots, E(slots, i).left).key,
              IF E(slots, i).right = NO THEN 0 ELSE E(slots, E(slots, i).right).key>>]
ShapeSet == {Shape[i] : i \in DOMAIN Shape}
=============================================================================
