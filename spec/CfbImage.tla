----------------------------- MODULE CfbImage -----------------------------
(***************************************************************************)
(* Well-formedness WF(img) of an MS-CFB byte image and its abstraction     *)
(* Abs(img) to the logical tree of CfbTree, both evaluated by TLC on the   *)
(* raw decode produced by the harness's independent parser (field          *)
(* extraction and run-length encoding only).  This module is the           *)
(* "independent checker" of property C03: it shares nothing with the       *)
(* library and re-derives every chain from fat[] / minifat[] itself.       *)
(*                                                                         *)
(* Each rule is a named conjunct so that failures and coverage are         *)
(* attributable (WFFailures returns the names of the rules that fail).     *)
(***************************************************************************)
EXTENDS CfbTree

FREE     == -1
ENDC     == -2
FATM     == -3
DIFATM   == -4
INVALIDM == -5
BIGM     == -9
NOSTREAM == -1

(* Geometry that the rules depend on (real files: 64, 4096, 109; the design- *)
(* level instance MC_Phys evaluates the same rules at a tiny geometry).      *)
CONSTANTS MiniLen,       \* bytes per mini sector
          CutoffLen,     \* mini-stream cutoff
          DifatHdrLen    \* DIFAT entries in the header

CeilDiv(a, b) == (a + b - 1) \div b

(* Follow a chain through a table (sector s lives at index s + 1) for at most k steps, by     *)
(* halving: TLC evaluates a recursion of depth n in time quadratic in n, and the images of    *)
(* the DIFAT-sized histories have chains of 14,000 sectors.  k = table size + 1, so a cycle   *)
(* or a dangling link leaves the walk without having reached END: the chain is "not ok".      *)
RECURSIVE ChainSeg(_, _, _)
ChainSeg(tab, cur, k) ==
  IF cur = ENDC THEN [s |-> <<>>, nx |-> ENDC, bad |-> FALSE]
  ELSE IF cur < 0 \/ cur >= Len(tab) THEN [s |-> <<>>, nx |-> cur, bad |-> TRUE]
  ELSE IF k <= 1 THEN [s |-> <<cur>>, nx |-> tab[cur + 1], bad |-> FALSE]
  ELSE LET h == k \div 2
           a == ChainSeg(tab, cur, h)
       IN IF a.bad \/ a.nx = ENDC THEN a
          ELSE LET b == ChainSeg(tab, a.nx, k - h) IN [s |-> a.s \o b.s, nx |-> b.nx, bad |-> b.bad]
Chain(tab, start) ==
  LET r == ChainSeg(tab, start, Len(tab) + 1) IN [ok |-> ~r.bad /\ r.nx = ENDC, secs |-> r.s]

NoDup(s) == Cardinality(ToSet(s)) = Len(s)
RECURSIVE Flatten(_)
Flatten(ss) == IF ss = <<>> THEN <<>> ELSE Head(ss) \o Flatten(Tail(ss))

---------------------------------------------------------------------------
(* Directory helpers                                                       *)
NSlots(img)     == Len(img.slots)
Slot(img, i)    == img.slots[i + 1]
ValidId(img, i) == i >= 0 /\ i < NSlots(img)
Allocated(img)  == {i \in 0..(NSlots(img) - 1) : Slot(img, i).type # 0}
StreamIds(img)  == {i \in Allocated(img) : Slot(img, i).type = 2}
IsStorageLike(s) == s.type = 1 \/ s.type = 5

Links(img) ==
  UNION {{<<i, "left",  Slot(img, i).left>>,
          <<i, "right", Slot(img, i).right>>,
          <<i, "child", Slot(img, i).child>>} : i \in Allocated(img)}
RealLinks(img) == {k \in Links(img) : k[3] # NOSTREAM}

RECURSIVE ReachGo(_, _, _)
ReachGo(img, frontier, seen) ==
  IF frontier = {} THEN seen
  ELSE LET nxt == {k[3] : k \in {x \in RealLinks(img) : x[1] \in frontier}} \ seen
       IN ReachGo(img, nxt, seen \cup nxt)

(* The link structure is a forest hanging off slot 0: every link targets   *)
(* an allocated non-root slot, every allocated non-root slot has exactly    *)
(* one incoming link, and everything is reachable from the root.            *)
TreeShapeOK(img) ==
  /\ NSlots(img) >= 1 /\ Slot(img, 0).type = 5
  /\ \A k \in RealLinks(img) : ValidId(img, k[3]) /\ k[3] # 0 /\ k[3] \in Allocated(img)
  /\ \A j \in Allocated(img) \ {0} : Cardinality({k \in RealLinks(img) : k[3] = j}) = 1
  /\ ReachGo(img, {0}, {0}) = Allocated(img)

(* In-order listing of the sibling tree rooted at id (only evaluated when   *)
(* TreeShapeOK holds, so the recursion is over a finite tree).              *)
RECURSIVE InOrd(_, _)
InOrd(img, id) ==
  IF id = NOSTREAM THEN <<>>
  ELSE InOrd(img, Slot(img, id).left) \o <<id>> \o InOrd(img, Slot(img, id).right)

SlotKey(s) == IF Known(s.name) THEN Units(s.name) ELSE <<-1>>

RECURSIVE DirFrom(_, _, _)
(* pre-order sequence of [id, kp] below (and including) slot id *)
DirFrom(img, id, kp) ==
  LET s == Slot(img, id)
      kids == IF IsStorageLike(s) THEN InOrd(img, s.child) ELSE <<>>
      F[i \in 0..Len(kids)] ==
        IF i = 0 THEN <<>>
        ELSE F[i - 1] \o DirFrom(img, kids[i], Append(kp, SlotKey(Slot(img, kids[i]))))
  IN <<[id |-> id, kp |-> kp]>> \o F[Len(kids)]
DirWalk(img) == DirFrom(img, 0, <<>>)

StrictlySorted(img, ids) ==
  \A i \in 1..(Len(ids) - 1) :
     KeyLess(SlotKey(Slot(img, ids[i])), SlotKey(Slot(img, ids[i + 1])))

---------------------------------------------------------------------------
(* Chains and owners                                                       *)
Fat(img)       == img.fat
RootSlot(img)  == Slot(img, 0)
DirChain(img)  == Chain(Fat(img), img.hdr.first_dir)
MfChain(img)   == Chain(Fat(img), img.hdr.first_minifat)
RootChain(img) == Chain(Fat(img), RootSlot(img).start)
BigStreams(img)   == {i \in StreamIds(img) : Slot(img, i).size >= CutoffLen \/ Slot(img, i).size = BIGM}
SmallStreams(img) == {i \in StreamIds(img) : Slot(img, i).size > 0 /\ Slot(img, i).size < CutoffLen}
BigChain(img, i)  == Chain(Fat(img), Slot(img, i).start)
MiniChain(img, i) == Chain(img.minifat, Slot(img, i).start)

DifatList(img)  == img.hdr.difat \o img.difat_ext       \* all DIFAT entries, trailing FREE trimmed
FatPer(img)     == img.slen \div 4

SeqOfSet(S) == SetToSeq(S)

---------------------------------------------------------------------------
(* The rules.  R1 header; R2 counts; R3 markers; R4 ownership; R5 stream   *)
(* chains; R6 mini stream; R7 directory; R8 entry contents.                *)
R1(img) ==
  /\ img.hdr.magic = "d0cf11e0a1b11ae1"
  /\ img.hdr.clsid_zero
  /\ img.hdr.major \in {3, 4}
  /\ img.hdr.bom = 65534
  /\ (img.hdr.major = 3 => img.hdr.sshift = 9)
  /\ (img.hdr.major = 4 => img.hdr.sshift = 12 /\ img.hdr.pad_zero)
  /\ img.hdr.mshift = 6
  /\ img.hdr.resv_zero
  /\ img.hdr.cutoff = CutoffLen
R1len(img) == img.flen_rem = 0 /\ img.flen = (img.nsec + 1) * img.slen

R2difat(img) ==
  /\ img.hdr.ndifat = Len(img.difat_secs)
  /\ img.hdr.first_difat = (IF img.difat_secs = <<>> THEN ENDC ELSE img.difat_secs[1])
  /\ img.difat_end = ENDC
  /\ (img.difat_secs = <<>> => img.difat_ext = <<>>)
  /\ (img.difat_secs # <<>> => Len(img.hdr.difat) = DifatHdrLen)
R2fat(img) ==
  /\ \A i \in 1..Len(DifatList(img)) : DifatList(img)[i] >= 0 /\ DifatList(img)[i] < img.nsec
  /\ NoDup(DifatList(img))
  /\ img.hdr.nfat = Len(DifatList(img))
  /\ img.fat_len >= img.nsec
  /\ img.fat_tail_nonfree = 0
  /\ Len(img.fat) = img.nsec
(* Every chain of the image, followed ONCE (TLC does not memoise operator applications; an image *)
(* with 14,000 sectors makes each walk expensive).  All chain-dependent rules take this record. *)
Chains(img) ==
  [dir  |-> DirChain(img), mf |-> MfChain(img), root |-> RootChain(img),
   big  |-> [i \in BigStreams(img) |-> BigChain(img, i)],
   mini |-> [i \in SmallStreams(img) |-> MiniChain(img, i)]]

R2minifat(img, C) ==
  /\ C.mf.ok
  /\ img.hdr.nminifat = Len(C.mf.secs)
  /\ img.minifat_secs = C.mf.secs
R2dir(img, C) ==
  /\ C.dir.ok /\ C.dir.secs # <<>>
  /\ img.dir_secs = C.dir.secs
  /\ img.hdr.ndir = (IF img.hdr.major = 4 THEN Len(C.dir.secs) ELSE 0)

R3(img) ==
  LET F == ToSet(DifatList(img))
      D == ToSet(img.difat_secs)
      fat == Fat(img)
  IN /\ \A s \in F : s < Len(fat) => fat[s + 1] = FATM
     /\ \A s \in D : s < Len(fat) => fat[s + 1] = DIFATM
     /\ \A s \in 0..(Len(fat) - 1) :
          /\ (fat[s + 1] = FATM => s \in F)
          /\ (fat[s + 1] = DIFATM => s \in D)
          /\ fat[s + 1] \notin {INVALIDM, BIGM}

(* all regular-sector chains and who owns them *)
BigSeq(img, C) == LET bs == SeqOfSet(DOMAIN C.big) IN [k \in 1..Len(bs) |-> C.big[bs[k]]]
R4chains(img, C) ==
  /\ C.dir.ok /\ C.mf.ok /\ C.root.ok
  /\ \A i \in DOMAIN C.big : C.big[i].ok
R4own(img, C) ==
  LET bigs == BigSeq(img, C)
      all == C.dir.secs \o C.mf.secs \o C.root.secs \o Flatten([k \in 1..Len(bigs) |-> bigs[k].secs])
      fat == Fat(img)
      used == {s \in 0..(Len(fat) - 1) : fat[s + 1] # FREE}
  IN /\ NoDup(all)                                                 \* at most one owner
     /\ used = ToSet(all) \cup ToSet(DifatList(img)) \cup ToSet(img.difat_secs)   \* no leak
R4mini(img, C) ==
  LET ms == SeqOfSet(DOMAIN C.mini)
      all == Flatten([k \in 1..Len(ms) |-> C.mini[ms[k]].secs])
      used == {m \in 0..(Len(img.minifat) - 1) : img.minifat[m + 1] # FREE}
  IN /\ \A i \in DOMAIN C.mini : C.mini[i].ok
     /\ NoDup(all)
     /\ used = ToSet(all)
     /\ \A m \in 1..Len(img.minifat) : img.minifat[m] \notin {FATM, DIFATM, INVALIDM, BIGM}

R5(img, C) ==
  \A i \in StreamIds(img) :
    LET s == Slot(img, i) IN
    /\ s.size # BIGM
    /\ (s.size = 0 <=> s.start = ENDC)
    /\ (s.size >= CutoffLen => Len(C.big[i].secs) = CeilDiv(s.size, img.slen))
    /\ (s.size > 0 /\ s.size < CutoffLen => Len(C.mini[i].secs) = CeilDiv(s.size, MiniLen))

R6(img, C) ==
  LET r == RootSlot(img) IN
  /\ r.size # BIGM /\ r.size >= 0
  /\ r.size % MiniLen = 0
  /\ r.size \div MiniLen >= Len(img.minifat)                 \* covers every used mini sector
  /\ r.size <= Len(C.root.secs) * img.slen                   \* and has room in its chain
  /\ (r.start = ENDC => r.size = 0)
  /\ img.root_secs = C.root.secs
  /\ img.minifat_rawlen >= Len(img.minifat)

R7shape(img) == TreeShapeOK(img)
R7types(img) ==
  /\ \A i \in Allocated(img) \ {0} : Slot(img, i).type \in {1, 2}
  /\ \A i \in StreamIds(img) : Slot(img, i).child = NOSTREAM
  /\ RootSlot(img).left = NOSTREAM /\ RootSlot(img).right = NOSTREAM
  /\ \A i \in Allocated(img) : Slot(img, i).color \in {0, 1}
R7order(img) ==
  \A i \in Allocated(img) :
    IsStorageLike(Slot(img, i)) => StrictlySorted(img, InOrd(img, Slot(img, i).child))
R7redred(img) ==
  \A i \in Allocated(img) \ {0} :
    Slot(img, i).color = 0 =>
      \A c \in {Slot(img, i).left, Slot(img, i).right} \ {NOSTREAM} : Slot(img, c).color # 0
R7names(img) ==
  /\ RootSlot(img).name = RootName
  /\ \A i \in Allocated(img) :
       LET s == Slot(img, i) IN
       /\ s.nlen = 2 * (s.nunits + 1) /\ s.nunits <= 31
       /\ s.term_ok /\ s.pad_zero
       /\ (i # 0 => Known(s.name) /\ Valid(s.name))

R8stream(img) ==
  \A i \in StreamIds(img) :
    LET s == Slot(img, i) IN s.clsid = NilClsid /\ s.ct = TZero /\ s.mt = TZero
R8storage(img) ==
  \A i \in Allocated(img) : Slot(img, i).type = 1 => Slot(img, i).start = 0 /\ Slot(img, i).size = 0
R8blank(img) ==
  \A i \in (0..(NSlots(img) - 1)) \ Allocated(img) :
    LET s == Slot(img, i) IN
    s.blank /\ s.left = NOSTREAM /\ s.right = NOSTREAM /\ s.child = NOSTREAM

(* Names of the failing rules, in a fixed order.  Rules whose evaluation     *)
(* presupposes another rule are only evaluated when that one holds.          *)
(* C is Chains(img); it is only looked at when the FAT itself is usable.     *)
WFFailuresC(img, C) ==
  IF img.short \/ ~img.geometry THEN <<"R1">>
  ELSE
  LET basic == R2fat(img)
      shape == NSlots(img) >= 1 /\ R7shape(img)
      chains == basic /\ NSlots(img) >= 1 /\ R4chains(img, C)
      minis == NSlots(img) >= 1 /\ R4mini(img, C)
  IN SelectSeq(
       << <<"R1", R1(img)>>, <<"R1len", R1len(img)>>,
          <<"R2difat", R2difat(img)>>, <<"R2fat", basic>>,
          <<"R2minifat", basic => R2minifat(img, C)>>, <<"R2dir", basic => R2dir(img, C)>>,
          <<"R3", basic => R3(img)>>,
          <<"R7shape", shape>>,
          <<"R4chains", (basic /\ NSlots(img) >= 1) => R4chains(img, C)>>,
          <<"R4own", chains => R4own(img, C)>>,
          <<"R4mini", NSlots(img) >= 1 => minis>>,
          <<"R5", (chains /\ minis) => R5(img, C)>>,
          <<"R6", chains => R6(img, C)>>,
          <<"R7types", NSlots(img) >= 1 => R7types(img)>>,
          <<"R7order", shape => R7order(img)>>,
          <<"R7redred", shape => R7redred(img)>>,
          <<"R7names", NSlots(img) >= 1 => R7names(img)>>,
          <<"R8stream", R8stream(img)>>, <<"R8storage", R8storage(img)>>,
          <<"R8blank", R8blank(img)>> >>,
       LAMBDA r : ~r[2])
WFNamesC(img, C) == LET f == WFFailuresC(img, C) IN [i \in 1..Len(f) |-> f[i][1]]
SafeChains(img) == IF ~img.short /\ img.geometry /\ NSlots(img) >= 1 THEN Chains(img)
                   ELSE [dir |-> [ok |-> FALSE, secs |-> <<>>], mf |-> [ok |-> FALSE, secs |-> <<>>],
                         root |-> [ok |-> FALSE, secs |-> <<>>], big |-> <<>>, mini |-> <<>>]
WFFailures(img) == LET C == SafeChains(img) IN WFFailuresC(img, C)
WFNames(img) == LET C == SafeChains(img) IN WFNamesC(img, C)
WF(img) == WFFailures(img) = <<>>

---------------------------------------------------------------------------
(* Abstraction: the logical tree an image encodes.  Only meaningful when    *)
(* the shape and chain rules hold; AbsOK says so.                           *)
AbsOKC(img, C) ==
  /\ ~img.short /\ img.geometry /\ NSlots(img) >= 1
  /\ R7shape(img) /\ R2fat(img) /\ R4chains(img, C) /\ R4mini(img, C)
AbsOK(img) == LET C == SafeChains(img) IN AbsOKC(img, C)

(* Concatenation of the (mini) sectors of a chain as ONE normalised run list.  The accumulator  *)
(* merges equal neighbours as it goes, so a 14,000-sector stream of a few fills stays a few runs *)
(* long (a plain concatenation followed by RNorm is quadratic in the number of sectors).         *)
AddRun(acc, r) ==
  IF r[2] = 0 THEN acc
  ELSE IF acc # <<>> /\ acc[Len(acc)][1] = r[1] THEN [acc EXCEPT ![Len(acc)] = <<r[1], @[2] + r[2]>>]
  ELSE Append(acc, r)
RECURSIVE AddRuns(_, _, _)
AddRuns(acc, rs, i) == IF i > Len(rs) THEN acc ELSE AddRuns(AddRun(acc, rs[i]), rs, i + 1)
(* joins two normalised run lists *)
JoinRuns(a, b) ==
  IF a = <<>> THEN b ELSE IF b = <<>> THEN a
  ELSE IF a[Len(a)][1] = b[1][1]
       THEN SubSeq(a, 1, Len(a) - 1) \o <<<<b[1][1], a[Len(a)][2] + b[1][2]>>>> \o SubSeq(b, 2, Len(b))
       ELSE a \o b
RECURSIVE CatRange(_, _, _)
(* normalised concatenation of pieces[lo..hi] (each piece a run list), by halving *)
CatRange(pieces, lo, hi) ==
  IF lo > hi THEN <<>>
  ELSE IF lo = hi THEN AddRuns(<<>>, pieces[lo], 1)
  ELSE LET mid == (lo + hi) \div 2 IN JoinRuns(CatRange(pieces, lo, mid), CatRange(pieces, mid + 1, hi))
CatSecs(img, secs) == CatRange([i \in 1..Len(secs) |-> img.sec[secs[i] + 1]], 1, Len(secs))
CatMinis(img, ms) ==
  CatRange([i \in 1..Len(ms) |-> IF ms[i] < Len(img.minis) THEN img.minis[ms[i] + 1] ELSE <<<<-1, MiniLen>>>>], 1, Len(ms))

StreamData(img, C, i) ==
  LET s == Slot(img, i) IN
  IF s.size = 0 \/ s.size = BIGM THEN <<>>
  ELSE IF s.size >= CutoffLen THEN RNorm(RTake(CatSecs(img, C.big[i].secs), s.size))
  ELSE RNorm(RTake(CatMinis(img, C.mini[i].secs), s.size))

AbsNode(img, C, i) ==
  LET s == Slot(img, i) IN
  [kind |-> IF s.type = 5 THEN "root" ELSE IF s.type = 1 THEN "storage" ELSE "stream",
   name |-> IF i = 0 THEN RootName ELSE s.name,
   data |-> IF s.type = 2 THEN StreamData(img, C, i) ELSE <<>>,
   clsid |-> s.clsid, bits |-> s.bits, ct |-> s.ct, mt |-> s.mt]

AbsC(img, C) ==
  LET w == DirWalk(img)
      kps == {w[i].kp : i \in 1..Len(w)}
  IN [kp \in kps |-> AbsNode(img, C, w[CHOOSE i \in 1..Len(w) : w[i].kp = kp].id)]
Abs(img) == LET C == SafeChains(img) IN AbsC(img, C)
=============================================================================
