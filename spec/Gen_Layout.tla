----------------------------- MODULE Gen_Layout -----------------------------
(***************************************************************************)
(* A "foreign writer": every LEGAL physical layout of a given logical      *)
(* content (property C04).  The library's own writer produces one layout   *)
(* family (append-only sectors, all-black degenerate sibling trees, first- *)
(* free directory slots); MS-CFB allows far more, and this specification   *)
(* enumerates it.  Starting from a logical content (CONTENT: a list of     *)
(* nodes with names, kinds, sizes, metadata) one behaviour makes these     *)
(* choices, one small step at a time so that TLC can either enumerate them *)
(* all (tiny contents) or sample them (-simulate):                         *)
(*   slots    each node gets ANY free directory slot (gaps allowed);        *)
(*   shapes   each storage's children are hung as ANY valid red-black tree  *)
(*            over the CFB name order (black root, no red-red edge, equal   *)
(*            black height);                                                *)
(*   sectors  every FAT / directory / MiniFAT / mini-stream / stream sector *)
(*            is placed at ANY free position (any order, fragmented chains, *)
(*            free sectors in between);                                     *)
(*   minis    every mini sector of every small stream is placed at ANY free *)
(*            index of the mini stream.                                     *)
(* The final state is printed as a LAYOUT line: `lay` is the description   *)
(* the harness's independent image builder serialises to bytes, `tree` the *)
(* logical content the library must expose for it.  Real geometry (V3 512  *)
(* / V4 4096 byte sectors), small counts.                                  *)
(***************************************************************************)
EXTENDS CfbTree, Json, IOUtils, TLCExt, FiniteSetsExt

CONSTANTS Ver,        \* 3 or 4
          Gaps,       \* free sectors left among the used ones
          SlotSlack,  \* extra directory slots beyond the needed ones
          MiniGaps,   \* free mini sectors left among the used ones
          Canonical   \* TRUE: slots, sectors and mini sectors are placed in order (lowest free position), so
                      \* that the only choice left is the red-black shape of every sibling tree: exhaustive
                      \* enumeration then yields every valid shape of the content exactly once

DictFile == JsonDeserialize(IOEnv.DICT)      \* read once (see Trace_File)
DictAll == DictFile
Content == JsonDeserialize(IOEnv.CONTENT)
Nodes   == Content.nodes            \* sequence; node ids are 1..Len(Nodes); parent 0 = root
NN      == Len(Nodes)
Ids     == 1..NN

FREE == -1
ENDC == -2
FATM == -3
NO   == -1

SLen    == IF Ver = 3 THEN 512 ELSE 4096
DirPer  == SLen \div 128
FatPer  == SLen \div 4
MiniLen == 64
Cutoff  == 4096
CeilDiv(a, b) == (a + b - 1) \div b

IsStorageId(p) == p = 0 \/ Nodes[p].kind = "storage"
ChildrenOf(p) == {n \in Ids : Nodes[n].parent = p}
SortedKids(p) == SetToSortSeq(ChildrenOf(p), LAMBDA a, b : KeyLess(DictAll[Nodes[a].name].u, DictAll[Nodes[b].name].u))
Storages == {0} \cup {n \in Ids : Nodes[n].kind = "storage"}

Small(n) == Nodes[n].kind = "stream" /\ Nodes[n].size > 0 /\ Nodes[n].size < Cutoff
Big(n)   == Nodes[n].kind = "stream" /\ Nodes[n].size >= Cutoff
NMinisOf(n) == IF Small(n) THEN CeilDiv(Nodes[n].size, MiniLen) ELSE 0
NSecsOf(n)  == IF Big(n) THEN CeilDiv(Nodes[n].size, SLen) ELSE 0

(* logical mini sectors and the mini stream *)
LM == LET F[i \in 0..NN] == IF i = 0 THEN <<>>
                            ELSE F[i - 1] \o [j \in 1..NMinisOf(i) |-> [owner |-> i, idx |-> j]]
      IN F[NN]
NM  == Len(LM)
MI  == IF NM = 0 THEN 0 ELSE NM + MiniGaps            \* mini index space
NC  == CeilDiv(MI * MiniLen, SLen)                   \* container sectors
NMF == CeilDiv(MI, FatPer)                           \* MiniFAT sectors
NS  == DirPer * CeilDiv(NN + 1 + SlotSlack, DirPer)  \* directory slots
ND  == NS \div DirPer

(* logical sectors other than FAT sectors *)
BigSecs == LET F[i \in 0..NN] == IF i = 0 THEN <<>>
                                 ELSE F[i - 1] \o [j \in 1..NSecsOf(i) |-> [kind |-> "big", owner |-> i, idx |-> j]]
           IN F[NN]
DataLS == [j \in 1..ND |-> [kind |-> "dir", owner |-> 0, idx |-> j]]
          \o [j \in 1..NMF |-> [kind |-> "mf", owner |-> 0, idx |-> j]]
          \o [j \in 1..NC |-> [kind |-> "root", owner |-> 0, idx |-> j]]
          \o BigSecs
U  == Len(DataLS)
NF == CHOOSE f \in 1..109 : f * FatPer >= U + f + Gaps /\ \A g \in 1..(f - 1) : g * FatPer < U + g + Gaps
LS == [j \in 1..NF |-> [kind |-> "fat", owner |-> 0, idx |-> j]] \o DataLS
N  == Len(LS) + Gaps                                 \* sectors in the file

---------------------------------------------------------------------------
(* Red-black trees over the sorted children 1..k.  A tree is                *)
(* [root |-> index or 0, f |-> index -> [c (0 red / 1 black), l, r]].       *)
Empty == [root |-> 0, f |-> <<>>]
RECURSIVE RB(_, _, _, _)
RB(lo, hi, bh, redOK) ==
  IF lo > hi THEN (IF bh = 0 THEN {Empty} ELSE {})
  ELSE UNION {
         UNION {
           {[root |-> m, f |-> (m :> [c |-> c, l |-> L.root, r |-> R.root]) @@ L.f @@ R.f] :
              L \in RB(lo, m - 1, IF c = 1 THEN bh - 1 ELSE bh, c = 1),
              R \in RB(m + 1, hi, IF c = 1 THEN bh - 1 ELSE bh, c = 1)} :
           c \in (IF bh >= 1 THEN {1} ELSE {}) \cup (IF redOK THEN {0} ELSE {})} :
         m \in lo..hi}
ShapesFor(k) == UNION {RB(1, k, bh, FALSE) : bh \in 0..4}

---------------------------------------------------------------------------
VARIABLES phase, slotOf, shapes, pos, mpos
vars == <<phase, slotOf, shapes, pos, mpos>>

Init == /\ phase = "slots" /\ slotOf = <<>> /\ shapes = <<>> /\ pos = <<>> /\ mpos = <<>>

UsedSlots == {slotOf[n] : n \in DOMAIN slotOf}
AssignSlot ==
  /\ phase = "slots"
  /\ IF Len(slotOf) = NN
     THEN /\ phase' = "shapes" /\ UNCHANGED <<slotOf, shapes, pos, mpos>>
     ELSE /\ \E s \in (1..(NS - 1)) \ UsedSlots :
               /\ (Canonical => \A s2 \in (1..(NS - 1)) \ UsedSlots : s <= s2)
               /\ slotOf' = Append(slotOf, s)
          /\ UNCHANGED <<phase, shapes, pos, mpos>>

(* storages in a fixed order: 0 (root) first, then by id *)
StorageSeq == <<0>> \o SetToSortSeq(Storages \ {0}, LAMBDA a, b : a < b)
ChooseShape ==
  /\ phase = "shapes"
  /\ LET done == Cardinality(DOMAIN shapes) IN
     IF done = Len(StorageSeq)
     THEN /\ phase' = "sectors" /\ UNCHANGED <<slotOf, shapes, pos, mpos>>
     ELSE LET p == StorageSeq[done + 1] IN
          /\ \E t \in ShapesFor(Len(SortedKids(p))) : shapes' = (p :> t) @@ shapes
          /\ UNCHANGED <<phase, slotOf, pos, mpos>>

UsedPos == {pos[i] : i \in 1..Len(pos)}
PlaceSector ==
  /\ phase = "sectors"
  /\ IF Len(pos) = Len(LS)
     THEN /\ phase' = "minis" /\ UNCHANGED <<slotOf, shapes, pos, mpos>>
     ELSE /\ \E p \in (0..(N - 1)) \ UsedPos :
               /\ (Canonical => \A p2 \in (0..(N - 1)) \ UsedPos : p <= p2)
               /\ pos' = Append(pos, p)
          /\ UNCHANGED <<phase, slotOf, shapes, mpos>>

UsedMini == {mpos[i] : i \in 1..Len(mpos)}
PlaceMini ==
  /\ phase = "minis"
  /\ IF Len(mpos) = NM
     THEN /\ phase' = "done" /\ UNCHANGED <<slotOf, shapes, pos, mpos>>
     ELSE /\ \E m \in (0..(MI - 1)) \ UsedMini :
               /\ (Canonical => \A m2 \in (0..(MI - 1)) \ UsedMini : m <= m2)
               /\ mpos' = Append(mpos, m)
          /\ UNCHANGED <<phase, slotOf, shapes, pos>>

Next == AssignSlot \/ ChooseShape \/ PlaceSector \/ PlaceMini
Spec == Init /\ [][Next]_vars

---------------------------------------------------------------------------
(* The finished layout *)
LSIndex(kind, owner, idx) ==
  IF \E i \in 1..Len(LS) : LS[i].kind = kind /\ LS[i].owner = owner /\ LS[i].idx = idx
  THEN CHOOSE i \in 1..Len(LS) : LS[i].kind = kind /\ LS[i].owner = owner /\ LS[i].idx = idx
  ELSE 0
PosOf(kind, owner, idx) == LET i == LSIndex(kind, owner, idx) IN IF i = 0 THEN ENDC ELSE pos[i]
ChainPos(kind, owner, n) == [j \in 1..n |-> PosOf(kind, owner, j)]

FatArr ==
  [p \in 0..(N - 1) |->
     IF p \notin UsedPos THEN FREE
     ELSE LET i == CHOOSE i \in 1..Len(LS) : pos[i] = p IN
          IF LS[i].kind = "fat" THEN FATM ELSE PosOf(LS[i].kind, LS[i].owner, LS[i].idx + 1)]

LMIndex(owner, idx) ==
  IF \E i \in 1..NM : LM[i].owner = owner /\ LM[i].idx = idx
  THEN CHOOSE i \in 1..NM : LM[i].owner = owner /\ LM[i].idx = idx ELSE 0
MPosOf(owner, idx) == LET i == LMIndex(owner, idx) IN IF i = 0 THEN ENDC ELSE mpos[i]
MiniFatArr ==
  [m \in 0..(MI - 1) |->
     IF m \notin UsedMini THEN FREE
     ELSE LET i == CHOOSE i \in 1..NM : mpos[i] = m IN MPosOf(LM[i].owner, LM[i].idx + 1)]

(* byte that fills sector / mini sector j of stream n: distinct for neighbours, never zero *)
Fill(n, j) == ((n * 37 + j * 11) % 250) + 1

KidSlot(p, i) == IF i = 0 THEN NO ELSE slotOf[SortedKids(p)[i]]
IndexIn(p, n) == CHOOSE i \in 1..Len(SortedKids(p)) : SortedKids(p)[i] = n
NilClsidS == "00000000000000000000000000000000"

NodeSlot(n) ==
  LET nd == Nodes[n]
      p == nd.parent
      sh == shapes[p].f[IndexIn(p, n)]
      isS == nd.kind = "stream"
  IN [name |-> nd.name, type |-> IF isS THEN 2 ELSE 1, color |-> sh.c,
      left |-> KidSlot(p, sh.l), right |-> KidSlot(p, sh.r),
      child |-> IF isS THEN NO ELSE KidSlot(n, shapes[n].root),
      clsid |-> IF isS THEN NilClsidS ELSE nd.clsid, bits |-> nd.bits,
      ct |-> IF isS THEN <<0, 0, 0>> ELSE nd.ct, mt |-> IF isS THEN <<0, 0, 0>> ELSE nd.mt,
      start |-> IF ~isS THEN 0 ELSE IF nd.size = 0 THEN ENDC
                ELSE IF Small(n) THEN MPosOf(n, 1) ELSE PosOf("big", n, 1),
      size |-> IF isS THEN nd.size ELSE 0]
RootSlot ==
  [name |-> "Root Entry", type |-> 5, color |-> 1, left |-> NO, right |-> NO,
   child |-> KidSlot(0, shapes[0].root),
   clsid |-> Content.root.clsid, bits |-> Content.root.bits, ct |-> Content.root.ct, mt |-> Content.root.mt,
   start |-> PosOf("root", 0, 1), size |-> MI * MiniLen]
BlankSlot == [name |-> "", type |-> 0, color |-> 0, left |-> NO, right |-> NO, child |-> NO,
              clsid |-> NilClsidS, bits |-> "00000000", ct |-> <<0, 0, 0>>, mt |-> <<0, 0, 0>>, start |-> 0, size |-> 0]
SlotArr ==
  [s \in 0..(NS - 1) |->
     IF s = 0 THEN RootSlot
     ELSE IF s \in UsedSlots THEN NodeSlot(CHOOSE n \in Ids : slotOf[n] = s)
     ELSE BlankSlot]

DataFills ==
  LET bigs == {i \in 1..Len(LS) : LS[i].kind = "big"} IN
  [i \in bigs |-> [sec |-> pos[i], fill |-> Fill(LS[i].owner, LS[i].idx)]]
MiniFills == [i \in 1..NM |-> [mini |-> mpos[i], fill |-> Fill(LM[i].owner, LM[i].idx)]]

SeqOfFun(f, lo, hi) == [i \in 1..(hi - lo + 1) |-> f[lo + i - 1]]
SeqOfSetFun(f) == LET d == SetToSortSeq(DOMAIN f, LAMBDA a, b : a < b) IN [i \in 1..Len(d) |-> f[d[i]]]

Lay ==
  [ver |-> Ver, nsec |-> N,
   fat |-> SeqOfFun(FatArr, 0, N - 1),
   fatsecs |-> ChainPos("fat", 0, NF),
   dirsecs |-> ChainPos("dir", 0, ND),
   mfsecs |-> ChainPos("mf", 0, NMF),
   rootsecs |-> ChainPos("root", 0, NC),
   minifat |-> SeqOfFun(MiniFatArr, 0, MI - 1),
   slots |-> SeqOfFun(SlotArr, 0, NS - 1),
   data |-> SeqOfSetFun(DataFills),
   minidata |-> MiniFills]

StreamRuns(n) ==
  LET s == Nodes[n].size
      unit == IF s >= Cutoff THEN SLen ELSE MiniLen
      k == CeilDiv(s, unit)
  IN RNorm([j \in 1..k |-> <<Fill(n, j), IF j < k THEN unit ELSE s - (k - 1) * unit>>])

RECURSIVE NamePathOf(_)
NamePathOf(n) == IF n = 0 THEN <<>> ELSE Append(NamePathOf(Nodes[n].parent), Nodes[n].name)
TreeWalk ==
  <<[p |-> <<>>, n |-> "Root Entry", k |-> "root", l |-> 0, c |-> Content.root.clsid, b |-> Content.root.bits,
     ct |-> Content.root.ct, mt |-> Content.root.mt, d |-> <<>>]>>
  \o [n \in 1..NN |->
        LET nd == Nodes[n] isS == nd.kind = "stream" IN
        [p |-> NamePathOf(n), n |-> nd.name, k |-> nd.kind, l |-> IF isS THEN nd.size ELSE 0,
         c |-> IF isS THEN NilClsidS ELSE nd.clsid, b |-> nd.bits,
         ct |-> IF isS THEN <<0, 0, 0>> ELSE nd.ct, mt |-> IF isS THEN <<0, 0, 0>> ELSE nd.mt,
         d |-> IF isS THEN StreamRuns(n) ELSE <<>>]]

EmitLayout ==
  phase = "done" => PrintT(<<"LAYOUT", ToJson([lay |-> Lay, tree |-> TreeWalk])>>)
=============================================================================
