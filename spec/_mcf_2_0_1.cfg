SPECIFICATION Spec
CONSTANTS Names = {"a", "b", "c"} Sizes = {0, 3, 7, 9, 13} MaxOps = 2 V4 = FALSE Old = FALSE Interleave = TRUE
INVARIANT InvRetry2Show
CHECK_DEADLOCK FALSE
