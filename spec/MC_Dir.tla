------------------------------- MODULE MC_Dir -------------------------------
(***************************************************************************)
(* Bounded instance of CfbDir: every insertion / removal order of the      *)
(* sibling keys (optionally with one open handle), checking TreeOK and     *)
(* HandleBound, and - as a generator - printing for every transition of    *)
(* the state graph the shortest operation sequence that reaches its source *)
(* state followed by the operation (EDGE lines).  With ViewShape the VIEW  *)
(* keeps only the key-level shape of the tree, so each reachable shape is  *)
(* expanded once: "every tree shape x every insertion / removal".          *)
(***************************************************************************)
EXTENDS CfbDir, Json, TLCExt

CONSTANTS Emit, WithHandle, ViewShape, MaxOps

VARIABLES hist
vars == <<slots, child, serialCtr, handle, hist>>

Init == DirInit /\ hist = <<>>

DoIns(k) == Insert(k) /\ hist' = Append(hist, [op |-> "ins", k |-> k])
DoRem(k) == Remove(k) /\ hist' = Append(hist, [op |-> "rem", k |-> k])
DoOpen(k) == WithHandle /\ Open(k) /\ hist' = Append(hist, [op |-> "open", k |-> k])
Next == \E k \in Keys : DoIns(k) \/ DoRem(k) \/ DoOpen(k)
Spec == Init /\ [][Next]_vars

Bound == Len(hist) < MaxOps
HandleKey == IF handle.slot = NO THEN 0 ELSE handle.serial
View_ == IF ViewShape THEN <<ShapeSet, (IF child = NO THEN 0 ELSE E(slots, child).key),
                             (IF handle.slot = NO THEN 0 ELSE E(slots, handle.slot).key)>>
         ELSE <<[i \in DOMAIN slots |-> <<slots[i].key, slots[i].left, slots[i].right, slots[i].alloc,
                                             handle.slot # NO /\ slots[i].serial = handle.serial>>],
                 child, handle.slot>>
EmitEdge == IF Emit THEN PrintT(<<"EDGE", ToJson(hist')>>) ELSE TRUE
=============================================================================
