----------------------------- MODULE CfbChainIO -----------------------------
(***************************************************************************)
(* The transfer loops between a stream's buffer and the underlying file    *)
(* (src/internal/sector.rs, chain.rs, stream.rs) against a backend that    *)
(* splits transfers any way io::Read / io::Write allow: short counts,      *)
(* spurious ErrorKind::Interrupted (which succeeds on retry), and real     *)
(* failures.  C18 ("however the underlying reader/writer splits            *)
(* transfers") and C12 / C13 (a failure surfaces, nothing wrong is         *)
(* delivered) at design level for the layer below the stream buffer.       *)
(*                                                                         *)
(* A chain is a sequence of sectors of SecLen bytes; the file's content is *)
(* a function of (sector, offset).  One refill of the stream buffer is     *)
(*     chain.seek(Start(pos)); chain.read_exact(buf[..n])                  *)
(* and one write-back is  chain.seek(Start(pos)); chain.write_all(buf),    *)
(* where std's read_exact / write_all loop over Chain::read / write,       *)
(* retry on Interrupted, and Chain::read / write transfer at most up to    *)
(* the end of the current sector through Sector::read / write, which       *)
(* forwards ONE call to the backend.  Each backend call is one step of     *)
(* this specification, with every outcome the traits allow.                *)
(*                                                                         *)
(* Variant switches (self-test; each is a seeded change of an earlier      *)
(* round, found at code level by C12 / C18 and reproduced here):           *)
(*   AdvanceFirst    Chain::read advances its offset before the backend    *)
(*                   read (a retried Interrupted call skips bytes)         *)
(*   MultiSector     Chain::read loops over sectors in one call and lets   *)
(*                   an error escape after partial progress                *)
(*   LateRemember    Chain::write records a newly allocated sector only    *)
(*                   after the data write (a retry allocates a second one) *)
(***************************************************************************)
EXTENDS Naturals, Integers, Sequences, FiniteSets, TLC

CONSTANTS SecLen,        \* bytes per sector
          NSec,          \* sectors in the chain at the start
          MaxFaults,     \* Interrupted / failed backend calls per transfer
          AdvanceFirst, MultiSector, LateRemember

(* the byte stored at chain position i (0-based): distinct per position *)
Byte(i) == i + 1
ChainLen(ns) == ns * SecLen
Min(a, b) == IF a < b THEN a ELSE b

VARIABLES mode,      \* "idle" | "read" | "write" | "done"
          start, n,  \* the transfer: n bytes at chain position start
          off,       \* Chain::offset_from_start
          filled,    \* bytes of the caller's buffer transferred so far (read_exact / write_all's own cursor)
          buf,       \* read: what the caller's buffer holds; write: what is to be written (Byte-like tags 100 + i)
          disk,      \* write: function chain position -> byte written (0 = never written)
          nsec,      \* sectors in the chain (grows when a write passes the end)
          nalloc,    \* sectors allocated during this transfer
          faults, res
vars == <<mode, start, n, off, filled, buf, disk, nsec, nalloc, faults, res>>

Init ==
  /\ mode = "idle" /\ start = 0 /\ n = 0 /\ off = 0 /\ filled = 0 /\ buf = <<>> /\ disk = [i \in 0..(ChainLen(NSec + 2) - 1) |-> 0]
  /\ nsec = NSec /\ nalloc = 0 /\ faults = 0 /\ res = "none"

BeginRead ==
  /\ mode = "idle"
  /\ \E s \in 0..(ChainLen(NSec) - 1) : \E k \in 1..(ChainLen(NSec) - s) :
        /\ start' = s /\ n' = k /\ off' = s /\ filled' = 0 /\ buf' = [i \in 1..k |-> 0]
  /\ mode' = "read" /\ faults' = 0 /\ res' = "none" /\ UNCHANGED <<disk, nsec, nalloc>>

(* one iteration of read_exact: one Chain::read, i.e. one backend read of at most the rest of the sector *)
ReadStep ==
  /\ mode = "read" /\ filled < n
  /\ LET want == n - filled
         room == SecLen - (off % SecLen)
         maxl == Min(want, IF MultiSector THEN want ELSE room)
     IN \/ \* Ok(k): any count from 1 to the maximum the call may transfer
           \E k \in 1..Min(maxl, room) :
              /\ buf' = [i \in 1..n |-> IF i > filled /\ i <= filled + k THEN Byte(off + (i - filled) - 1) ELSE buf[i]]
              /\ filled' = filled + k /\ off' = off + k
              /\ mode' = IF filled + k = n THEN "done" ELSE "read"
              /\ res' = IF filled + k = n THEN "ok" ELSE res
              /\ UNCHANGED faults
        \/ \* Interrupted: read_exact calls again; nothing may have moved
           /\ faults < MaxFaults /\ faults' = faults + 1
           /\ off' = IF AdvanceFirst THEN off + Min(maxl, room) ELSE off
           /\ UNCHANGED <<buf, filled, mode, res>>
        \/ \* (variant) one Chain::read call spans sectors: the first sector's part is copied, the next backend read is
           \* interrupted and the error escapes - read_exact retries at ITS cursor, the chain has moved on
           /\ MultiSector /\ want > room /\ faults < MaxFaults /\ faults' = faults + 1
           /\ buf' = [i \in 1..n |-> IF i > filled /\ i <= filled + room THEN Byte(off + (i - filled) - 1) ELSE buf[i]]
           /\ off' = off + room
           /\ UNCHANGED <<filled, mode, res>>
        \/ \* a real failure: read_exact returns it
           /\ faults < MaxFaults /\ faults' = faults + 1
           /\ mode' = "done" /\ res' = "err" /\ UNCHANGED <<buf, filled, off>>
  /\ UNCHANGED <<start, n, disk, nsec, nalloc>>

BeginWrite ==
  /\ mode = "idle"
  /\ \E s \in 0..ChainLen(NSec) : \E k \in 1..(ChainLen(NSec + 1) - s) :
        /\ start' = s /\ n' = k /\ off' = s /\ filled' = 0 /\ buf' = [i \in 1..k |-> 100 + i]
  /\ mode' = "write" /\ faults' = 0 /\ res' = "none" /\ nalloc' = 0 /\ UNCHANGED <<disk, nsec>>

(* one iteration of write_all: one Chain::write - at the end of the chain a sector is allocated first (its own   *)
(* backend writes are CfbFault's business; here it either happens or the call fails before anything moved) -    *)
(* then one backend write of at most the rest of the sector                                                     *)
WriteStep ==
  /\ mode = "write" /\ filled < n
  /\ LET atEnd == off = ChainLen(nsec)
         ns == IF atEnd THEN nsec + 1 ELSE nsec
         room == SecLen - (off % SecLen)
         maxl == Min(n - filled, room)
     IN \/ \E k \in 1..maxl :
              /\ disk' = [i \in DOMAIN disk |-> IF i >= off /\ i < off + k THEN buf[filled + (i - off) + 1] ELSE disk[i]]
              /\ filled' = filled + k /\ off' = off + k /\ nsec' = ns
              /\ nalloc' = nalloc + (IF atEnd THEN 1 ELSE 0)
              /\ mode' = IF filled + k = n THEN "done" ELSE "write"
              /\ res' = IF filled + k = n THEN "ok" ELSE res
              /\ UNCHANGED faults
        \/ \* Interrupted by the backend's write: write_all calls Chain::write again
           /\ faults < MaxFaults /\ faults' = faults + 1
           /\ nalloc' = nalloc + (IF atEnd THEN 1 ELSE 0)                 \* the sector was allocated before the data write
           /\ nsec' = IF LateRemember THEN nsec ELSE ns                   \* ... and remembered at once (or not)
           /\ UNCHANGED <<disk, filled, off, mode, res>>
        \/ /\ faults < MaxFaults /\ faults' = faults + 1
           /\ nsec' = ns /\ nalloc' = nalloc + (IF atEnd THEN 1 ELSE 0)    \* (the allocation may have happened before the failure)
           /\ mode' = "done" /\ res' = "err" /\ UNCHANGED <<disk, filled, off>>
  /\ UNCHANGED <<start, n, buf>>

Next == BeginRead \/ ReadStep \/ BeginWrite \/ WriteStep
Spec == Init /\ [][Next]_vars

---------------------------------------------------------------------------
(* a completed read delivered exactly the bytes of the range, whatever the splitting (C18, C12) *)
ReadExact ==
  (mode = "done" /\ res = "ok" /\ \A i \in DOMAIN buf : buf[i] < 100) =>
     /\ \A i \in 1..n : buf[i] = Byte(start + i - 1)
     /\ off = start + n
(* at every moment the part of the buffer already filled is right and the chain's offset agrees with it - so an      *)
(* error never leaves wrong bytes that count as read (read_to_end appends what was read: io::Read's contract)        *)
ReadPrefix ==
  (mode \in {"read", "done"} /\ n > 0 /\ buf # <<>> /\ buf[1] < 100) =>
     /\ \A i \in 1..filled : buf[i] = Byte(start + i - 1)
     /\ off = start + filled
(* a completed write put every byte at its place, once, and allocated exactly the sectors the range needs (C18) *)
WriteExact ==
  (mode = "done" /\ res = "ok" /\ buf # <<>> /\ buf[1] >= 100) =>
     /\ \A i \in 1..n : disk[start + i - 1] = buf[i]
     /\ \A i \in DOMAIN disk : (i < start \/ i >= start + n) => disk[i] = 0
     /\ nsec = (IF start + n > ChainLen(NSec) THEN NSec + 1 ELSE NSec)
     /\ nalloc = nsec - NSec
=============================================================================
