SPECIFICATION Spec
CONSTANTS SecLen = 3 NSec = 2 MaxFaults = 2 AdvanceFirst = FALSE MultiSector = FALSE LateRemember = FALSE
INVARIANT ReadExact ReadPrefix WriteExact
CHECK_DEADLOCK FALSE
