-------------------------- MODULE CfbLockN_proofs --------------------------
(***************************************************************************)
(* Machine-checked proofs (tlapm) about CfbLockN for an ARBITRARY set of   *)
(* threads: the invariant (types, mutual exclusion) is inductive and       *)
(* deadlock freedom (Progress) holds in every reachable state.             *)
(* Run: tlapm --threads 8 CfbLockN_proofs.tla  (57 obligations, ~10 s).    *)
(***************************************************************************)
EXTENDS CfbLockN, TLAPS

LEMMA ProgressFromType == TypeOK => Progress
<1> SUFFICES ASSUME TypeOK, \E t \in Threads : st[t] # "idle"
             PROVE  \E t \in Threads : CanStep(t)
    BY DEF Progress
<1>1. CASE \E t \in Threads : st[t] = "holdR" \/ st[t] = "holdW"
      BY <1>1 DEF CanStep
<1>2. CASE /\ ~(\E t \in Threads : st[t] = "holdR" \/ st[t] = "holdW")
           /\ \E t \in Threads : st[t] = "waitW"
  <2>1. CanWrite
        BY <1>2 DEF CanWrite
  <2> QED BY <1>2, <2>1 DEF CanStep
<1>3. CASE /\ ~(\E t \in Threads : st[t] = "holdR" \/ st[t] = "holdW")
           /\ ~(\E t \in Threads : st[t] = "waitW")
  <2>1. CanRead
        BY <1>3 DEF CanRead
  <2>2. PICK t \in Threads : st[t] # "idle"
        OBVIOUS
  <2>3. st[t] \in States
        BY DEF TypeOK
  <2>4. st[t] = "waitR"
        BY <1>3, <2>2, <2>3 DEF States
  <2> QED BY <2>1, <2>4 DEF CanStep
<1> QED BY <1>1, <1>2, <1>3

LEMMA InitInv == Init => Inv
  BY DEF Init, Inv, TypeOK, Mutex, States

LEMMA NextInv == Inv /\ [Next]_st => Inv'
<1> SUFFICES ASSUME Inv, [Next]_st PROVE Inv'
    OBVIOUS
<1> USE DEF Inv, TypeOK, Mutex, States, CanRead, CanWrite
<1>1. CASE UNCHANGED st
      BY <1>1
<1>2. ASSUME NEW t \in Threads, ReqR(t) PROVE Inv'
      BY <1>2 DEF ReqR
<1>3. ASSUME NEW t \in Threads, GrantR(t) PROVE Inv'
      BY <1>3 DEF GrantR
<1>4. ASSUME NEW t \in Threads, RelR(t) PROVE Inv'
      BY <1>4 DEF RelR
<1>5. ASSUME NEW t \in Threads, ReqW(t) PROVE Inv'
      BY <1>5 DEF ReqW
<1>6. ASSUME NEW t \in Threads, GrantW(t) PROVE Inv'
      BY <1>6 DEF GrantW
<1>7. ASSUME NEW t \in Threads, RelW(t) PROVE Inv'
      BY <1>7 DEF RelW
<1> QED BY <1>1, <1>2, <1>3, <1>4, <1>5, <1>6, <1>7 DEF Next

THEOREM Safety == Spec => [](Inv /\ Progress)
<1>1. Inv => Inv /\ Progress
      BY ProgressFromType DEF Inv
<1>2. Spec => []Inv
      BY InitInv, NextInv, PTL DEF Spec
<1> QED BY <1>1, <1>2, PTL
=============================================================================
