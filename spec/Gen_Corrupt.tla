---------------------------- MODULE Gen_Corrupt ----------------------------
(***************************************************************************)
(* C05 / C11: the structured part of "any byte string whatsoever": every   *)
(* FIELD-LEVEL CORRUPTION of a valid file.  For a legal layout produced by *)
(* Gen_Layout this module enumerates, for every header field, every FAT /  *)
(* MiniFAT / DIFAT cell and every link / type / colour / name-length /     *)
(* start / size field of every directory slot, a set of value classes      *)
(* (0, self, another in-range value, first out-of-range value, the largest *)
(* regular id, each special marker, 2^31, 2^31-1, ...) plus truncations    *)
(* and extensions of the file.  Each corruption is a total description of  *)
(* the damaged image (`lay`); the specification predicts nothing about the *)
(* outcome beyond what the properties state: every read-only call (C05)    *)
(* and every mutating call after a permissive open (C11) returns Ok or Err *)
(* - no panic, no hang, memory proportional to the input.                  *)
(* `site` classifies which unvalidated field meets which walk, so that the *)
(* coverage of the cross product named in C11 is measured.                 *)
(***************************************************************************)
EXTENDS Gen_Layout, Randomization

CONSTANTS PairSample    \* number of sampled pairs (0 = singles only)

DIFATM == -4
INVALIDM == -5
MAXREG == -6     \* 0xFFFFFFFA
U31 == -7        \* 0x80000000
I31 == -8        \* 0x7FFFFFFF

CellClasses(n, i) == {0, i, (i + 1) % (IF n = 0 THEN 1 ELSE n), n, n + 1, MAXREG, FREE, ENDC, FATM, DIFATM, INVALIDM, U31, I31}
LinkClasses(ns, i) == {NO, 0, i, (i + 1) % ns, ns, ns + 7, MAXREG, U31, ENDC}
\* -10 u64::MAX, -11 2^32, -12 2^32-1, -13 2^32+100, -14 / -15 the largest multiples of 64 below 2^64 / 2^63
\* (a root entry's length must be a multiple of the mini sector length to be accepted at all)
SizeClasses(cur) == {0, 1, 63, 64, 65, 4095, 4096, 4097, cur + 1, cur + SLen, U31, -12, -11, -10, -13, -14, -15}
HdrInts == {"minor", "major", "bom", "sshift", "mshift", "ndir", "nfat", "first_dir", "txn", "cutoff",
            "first_minifat", "nminifat", "first_difat", "ndifat"}
HdrClasses(l) == {0, 1, 2, 3, 4, 9, 12, Len(l.fat), Len(l.fat) + 1, 4096, 65534, MAXREG, FREE, ENDC, FATM, U31}

Hdr(l) == IF "hdr" \in DOMAIN l THEN l.hdr ELSE <<>>
SetHdr(l, k, v) == [hdr |-> (k :> v) @@ Hdr(l)] @@ l

Corruptions(l) ==
     {[f |-> "hdr", k |-> k, i |-> 0, v |-> v] : k \in HdrInts, v \in HdrClasses(l)}
  \cup {[f |-> "hdr_magic", k |-> "", i |-> 0, v |-> 0], [f |-> "hdr_pad", k |-> "", i |-> 0, v |-> 0]}
  \cup UNION {{[f |-> "hdr_difat", k |-> "", i |-> i, v |-> v] : v \in CellClasses(Len(l.fat), l.fatsecs[i])} :
                i \in 1..Len(l.fatsecs)}
  \cup {[f |-> "hdr_difat_extra", k |-> "", i |-> 0, v |-> v] : v \in {0, Len(l.fat) - 1, Len(l.fat), MAXREG, ENDC, FATM}}
  \cup UNION {{[f |-> "fat", k |-> "", i |-> i, v |-> v] : v \in CellClasses(Len(l.fat), i - 1)} : i \in 1..Len(l.fat)}
  \cup UNION {{[f |-> "minifat", k |-> "", i |-> i, v |-> v] : v \in CellClasses(Len(l.minifat), i - 1)} :
                i \in 1..Len(l.minifat)}
  \cup UNION {{[f |-> "slot", k |-> k, i |-> i, v |-> v] : k \in {"left", "right", "child"}, v \in LinkClasses(Len(l.slots), i - 1)} :
                i \in 1..Len(l.slots)}
  \cup {[f |-> "slot", k |-> "type", i |-> i, v |-> v] : i \in 1..Len(l.slots), v \in {0, 1, 2, 3, 5, 255}}
  \cup {[f |-> "slot", k |-> "color", i |-> i, v |-> v] : i \in 1..Len(l.slots), v \in {0, 1, 2}}
  \cup {[f |-> "slot", k |-> "nlen", i |-> i, v |-> v] : i \in 1..Len(l.slots), v \in {0, 1, 2, 4, 63, 64, 66, 200}}
  \* the name itself: a forbidden character ( / \ : ! ), a NUL, an unpaired surrogate at the first or last unit,
  \* and the name of another slot (two siblings with one key)
  \cup {[f |-> "slot", k |-> "nchar", i |-> i, v |-> v] : i \in {j \in 1..Len(l.slots) : l.slots[j].type # 0},
          v \in {47, 92, 58, 33, 0, 55296, 56320, -47, -58, -55296}}
  \cup {[f |-> "slot", k |-> "nsame", i |-> p[1], v |-> p[2]] :
          p \in {q \in (2..Len(l.slots)) \X (2..Len(l.slots)) : q[1] # q[2] /\ l.slots[q[1]].type # 0 /\ l.slots[q[2]].type # 0}}
  \cup {[f |-> "slot", k |-> "start", i |-> i, v |-> v] : i \in 1..Len(l.slots), v \in CellClasses(Len(l.fat), 0)}
  \* start sectors of small streams are mini sector ids: every id up to just beyond the MiniFAT
  \cup {[f |-> "slot", k |-> "start", i |-> i, v |-> v] :
          i \in {j \in 1..Len(l.slots) : l.slots[j].type = 2}, v \in 0..(Len(l.minifat) + 1)}
  \cup UNION {{[f |-> "slot", k |-> "size", i |-> i, v |-> v] : v \in SizeClasses(l.slots[i].size)} : i \in 1..Len(l.slots)}
  \cup {[f |-> "flen_delta", k |-> "", i |-> 0, v |-> v] : v \in {-1, -7, 1 - SLen, -SLen, -SLen - 1, 1, 7, SLen - 1, SLen, SLen + 1, 3 * SLen,
                 \* more sectors than the FAT sectors of the file can describe
                 (Len(l.fatsecs) * FatPer - l.nsec + 2) * SLen}}
  \cup {[f |-> "flen_abs", k |-> "", i |-> 0, v |-> v] : v \in {0, 7, 511, 512, 513, SLen, SLen + 1, 2 * SLen - 1}}
  \* a DIFAT chain laid through the LAST word of existing sectors (nothing else links DIFAT sectors, and no
  \* table validates those words): shapes 1 a->a, 2 a->b->a, 3 a->b->b (rho), 4 a->b->c->b (rho), 5 a->b->c->END,
  \* 6 a->beyond the file, over the last three sectors of the file
  \cup (IF l.nsec >= 3 THEN {[f |-> "difat_chain", k |-> "", i |-> 0, v |-> v] : v \in 1..6} ELSE {})

LE32(v) == IF v = ENDC THEN <<254, 255, 255, 255>> ELSE <<v % 256, (v \div 256) % 256, (v \div 65536) % 256, 0>>
LastWord(sec, next) == [off |-> (sec + 2) * SLen - 4, bytes |-> LE32(next)]
DifatChain(l, shape) ==
  LET a == l.nsec - 1  b == l.nsec - 2  c == l.nsec - 3 IN
  CASE shape = 1 -> <<LastWord(a, a)>>
    [] shape = 2 -> <<LastWord(a, b), LastWord(b, a)>>
    [] shape = 3 -> <<LastWord(a, b), LastWord(b, b)>>
    [] shape = 4 -> <<LastWord(a, b), LastWord(b, c), LastWord(c, b)>>
    [] shape = 5 -> <<LastWord(a, b), LastWord(b, c), LastWord(c, ENDC)>>
    [] shape = 6 -> <<LastWord(a, l.nsec + 5)>>

Apply(l, c) ==
  CASE c.f = "hdr"        -> SetHdr(l, c.k, c.v)
    [] c.f = "hdr_magic"  -> SetHdr(l, "magic", "d0cf11e0a1b11ae0")
    [] c.f = "hdr_pad"    -> SetHdr(l, "pad_nonzero", TRUE)
    [] c.f = "hdr_difat"  -> SetHdr(l, "difat", [l.fatsecs EXCEPT ![c.i] = c.v])
    [] c.f = "hdr_difat_extra" -> SetHdr(l, "difat", Append(l.fatsecs, c.v))
    [] c.f = "fat"        -> [l EXCEPT !.fat[c.i] = c.v]
    [] c.f = "minifat"    -> [l EXCEPT !.minifat[c.i] = c.v]
    [] c.f = "slot"       -> IF c.k = "nlen" THEN [l EXCEPT !.slots[c.i] = [nlen |-> c.v] @@ @]
                             \* npatch = <<position, unit>>: position 0 = first unit, -1 = last unit of the name
                             ELSE IF c.k = "nchar" THEN [l EXCEPT !.slots[c.i] = [npatch |-> <<(IF c.v < 0 THEN -1 ELSE 0), (IF c.v < 0 THEN -c.v ELSE c.v)>>] @@ @]
                             ELSE IF c.k = "nsame" THEN [l EXCEPT !.slots[c.i].name = l.slots[c.v].name]
                             ELSE [l EXCEPT !.slots[c.i] = (c.k :> c.v) @@ @]
    [] c.f = "flen_delta" -> [flen_delta |-> c.v] @@ l
    [] c.f = "flen_abs"   -> [flen_abs |-> c.v] @@ l
    [] c.f = "difat_chain" -> [patch |-> DifatChain(l, c.v)] @@ SetHdr(l, "first_difat", l.nsec - 1)

(* which unvalidated field meets which walk (C11's cross product) *)
Site(l, c) ==
  IF c.f = "slot" /\ c.k \in {"start", "size"}
  THEN (IF c.i = 1 THEN "root." ELSE IF l.slots[c.i].type = 2 THEN "stream." ELSE "other.") \o c.k
  ELSE IF c.f = "slot" THEN "dir." \o c.k
  ELSE c.f

Desc(c) == c.f \o (IF c.k = "" THEN "" ELSE "." \o c.k) \o "[" \o ToString(c.i) \o "]=" \o ToString(c.v)

EmitCorruptions ==
  phase = "done" =>
    /\ PrintT(<<"LAYOUT", ToJson([lay |-> Lay, tree |-> TreeWalk])>>)
    /\ \A c \in Corruptions(Lay) :
         PrintT(<<"CORRUPT", ToJson([lay |-> Apply(Lay, c), cor |-> Desc(c), site |-> Site(Lay, c)])>>)
    /\ (PairSample > 0 =>
          \* the product itself can exceed what TLC enumerates (a million elements): sample each
          \* side first (60 x PairSample/60 pairs)
          \A p \in RandomSubset(IF Cardinality(Corruptions(Lay)) < 60 THEN Cardinality(Corruptions(Lay)) ELSE 60, Corruptions(Lay))
                    \X RandomSubset(IF Cardinality(Corruptions(Lay)) < PairSample \div 60 + 1 THEN Cardinality(Corruptions(Lay))
                                    ELSE PairSample \div 60 + 1, Corruptions(Lay)) :
            PrintT(<<"CORRUPT", ToJson([lay |-> Apply(Apply(Lay, p[1]), p[2]),
                                        cor |-> Desc(p[1]) \o " & " \o Desc(p[2]),
                                        site |-> Site(Lay, p[1]) \o "&" \o Site(Lay, p[2])])>>))
=============================================================================
