-------------------------- MODULE Trace_HandleFid --------------------------
(***************************************************************************)
(* Fidelity-level conformance of CfbHandle: the model of the stream cache, *)
(* instantiated with the REAL constants (minimum buffer 1024 bytes, growth *)
(* factor 4, maximum = the configured max_buffer_size clamped up to 1024), *)
(* replays the fault-free handle-level histories recorded by hdrive.rs and *)
(* predicts, after every call, the state of the handle's cache as the      *)
(* library reports it through the cfg(cfb_verif) hook Stream::verif_state: *)
(* window offset, cursor, filled length, allocated length, the "holds      *)
(* unwritten data" marker and the handle's idea of the stream length.      *)
(* A mismatch is printed as an HDRIFT line.                                *)
(*                                                                         *)
(* Like Trace_Phys this is NOT a property-level verdict (a maintainer may  *)
(* change the buffering policy without breaking C06); it is what licenses  *)
(* reading MC_Handle's exhaustive design-level results (C06, C12, C13) as  *)
(* statements about the code: as long as no HDRIFT is reported, the code   *)
(* follows the protocol the invariants were checked on.                    *)
(* Followed: histories in mode "plain" without injected faults, one handle *)
(* at a time (a history that parks a handle, drops the file or creates /   *)
(* removes streams is abandoned at that step).                             *)
(***************************************************************************)
EXTENDS Naturals, Integers, Sequences, FiniteSets, TLC, Rle, Json, IOUtils, TLCExt

Rec == ndJsonDeserialize(IOEnv.TRACE)

H1024 == INSTANCE CfbHandle WITH MinBuf <- 1024, Growth <- 4, MaxBuf <- 1024, FixDirty <- TRUE, FixRefill <- TRUE
H1536 == INSTANCE CfbHandle WITH MinBuf <- 1024, Growth <- 4, MaxBuf <- 1536, FixDirty <- TRUE, FixRefill <- TRUE
H2560 == INSTANCE CfbHandle WITH MinBuf <- 1024, Growth <- 4, MaxBuf <- 2560, FixDirty <- TRUE, FixRefill <- TRUE
H4096 == INSTANCE CfbHandle WITH MinBuf <- 1024, Growth <- 4, MaxBuf <- 4096, FixDirty <- TRUE, FixRefill <- TRUE
HDef  == INSTANCE CfbHandle WITH MinBuf <- 1024, Growth <- 4, MaxBuf <- 1048576, FixDirty <- TRUE, FixRefill <- TRUE

VARIABLES h, files, mb, l, skip, fver
vars == <<h, files, mb, l, skip, fver>>

Has(e, f) == f \in DOMAIN e
NoH == [open |-> FALSE]
Known(m) == m \in {-1, 0, 1, 1024, 1536, 2560, 4096}

(* dispatch on the configured maximum buffer size (values below the minimum are clamped up to it) *)
XNew(f)            == IF mb \in {0, 1, 1024} THEN H1024!NewHandle(f) ELSE IF mb = 1536 THEN H1536!NewHandle(f)
                      ELSE IF mb = 2560 THEN H2560!NewHandle(f) ELSE IF mb = 4096 THEN H4096!NewHandle(f) ELSE HDef!NewHandle(f)
XFillBuf(x)        == IF mb \in {0, 1, 1024} THEN H1024!FillBuf(x, FALSE, FALSE) ELSE IF mb = 1536 THEN H1536!FillBuf(x, FALSE, FALSE)
                      ELSE IF mb = 2560 THEN H2560!FillBuf(x, FALSE, FALSE) ELSE IF mb = 4096 THEN H4096!FillBuf(x, FALSE, FALSE)
                      ELSE HDef!FillBuf(x, FALSE, FALSE)
XWrite(x, bs)      == IF mb \in {0, 1, 1024} THEN H1024!Write(x, bs, FALSE) ELSE IF mb = 1536 THEN H1536!Write(x, bs, FALSE)
                      ELSE IF mb = 2560 THEN H2560!Write(x, bs, FALSE) ELSE IF mb = 4096 THEN H4096!Write(x, bs, FALSE)
                      ELSE HDef!Write(x, bs, FALSE)
XSeekTo(x, np)     == IF mb \in {0, 1, 1024} THEN H1024!SeekTo(x, np, FALSE) ELSE IF mb = 1536 THEN H1536!SeekTo(x, np, FALSE)
                      ELSE IF mb = 2560 THEN H2560!SeekTo(x, np, FALSE) ELSE IF mb = 4096 THEN H4096!SeekTo(x, np, FALSE)
                      ELSE HDef!SeekTo(x, np, FALSE)
XSetLen(x, n)      == IF mb \in {0, 1, 1024} THEN H1024!SetLen(x, n, FALSE, FALSE) ELSE IF mb = 1536 THEN H1536!SetLen(x, n, FALSE, FALSE)
                      ELSE IF mb = 2560 THEN H2560!SetLen(x, n, FALSE, FALSE) ELSE IF mb = 4096 THEN H4096!SetLen(x, n, FALSE, FALSE)
                      ELSE HDef!SetLen(x, n, FALSE, FALSE)
XFlush(x)          == HDef!Flush(x, FALSE, FALSE)        \* (does not depend on the buffer constants)
Pos(x) == x.boff + x.pos

StreamRuns(streams, n) == RNorm(streams[CHOOSE i \in 1..Len(streams) : streams[i].name = n].runs)
InitFiles(streams) == [n \in {streams[i].name : i \in 1..Len(streams)} |-> StreamRuns(streams, n)]

(* Read::read(n): fill_buf, then take what is buffered *)
DoRead(x, n) ==
  LET f == XFillBuf(x).h
      k == RMin(n, f.cap - f.pos)
  IN [f EXCEPT !.pos = @ + k]
(* io::Write::write_all: write until everything is taken *)
RECURSIVE DoWriteAll(_, _, _)
DoWriteAll(x, bs, fuel) ==
  IF RLen(bs) = 0 \/ fuel = 0 THEN x
  ELSE LET w == XWrite(x, bs) IN
       IF w.n = 0 THEN w.h ELSE DoWriteAll(w.h, RDrop(bs, w.n), fuel - 1)
(* io::Read::read_to_end: read until the end; whatever the sizes of std's probe buffers are, the *)
(* window moves only when it is exhausted                                                        *)
RECURSIVE DoReadToEnd(_, _)
DoReadToEnd(x, fuel) ==
  IF Pos(x) >= x.total \/ fuel = 0 THEN x
  ELSE LET f == XFillBuf(x).h IN
       IF f.cap = f.pos THEN f ELSE DoReadToEnd([f EXCEPT !.pos = f.cap], fuel - 1)

SeekTarget(x, e) ==
  IF e.sym # "" THEN -1
  ELSE IF e.whence = "start" THEN e.d
  ELSE IF e.whence = "end" THEN x.total + e.d
  ELSE Pos(x) + e.d

(* the model's handle after the call of event e (the call returned Ok) *)
After(x, e) ==
  CASE e.op = "read"        -> DoRead(x, e.n)
    [] e.op = "read_to_end" -> DoReadToEnd(x, 100000)
    [] e.op = "fill_buf"    -> XFillBuf(x).h
    [] e.op = "consume"     -> [x EXCEPT !.pos = @ + e.res.v]
    [] e.op = "write"       -> XWrite(x, RNorm(e.runs)).h
    [] e.op = "write_all"   -> DoWriteAll(x, RNorm(e.runs), 100000)
    [] e.op = "seek"        -> LET t == SeekTarget(x, e) IN IF t < 0 \/ t > x.total THEN x ELSE XSeekTo(x, t).h
    [] e.op = "set_len"     -> IF Has(e, "sym") /\ e.sym # "" THEN x ELSE XSetLen(x, e.n).h
    [] e.op = "flush"       -> XFlush(x).h
    [] OTHER -> x

(* One refill of a clean window is chain.seek + chain.read_exact (CfbChainIO): one backend read per piece of the window  *)
(* that lies in one (mini) sector - the backends of these runs return full counts.  The number of backend reads of a call  *)
(* that refills is therefore the number of sector pieces of the new window (64-byte pieces below the cutoff).              *)
Pieces(a, len, u) == IF len = 0 THEN 0 ELSE ((a + len - 1) \div u) - (a \div u) + 1
Refills(x) == ~(x.pos < x.cap) /\ x.boff + x.pos < x.total
UnitOf(x) == IF RLen(x.file) < 4096 THEN 64 ELSE IF fver = 3 THEN 512 ELSE 4096
ReadsOK(x, x2, e) ==
  (e.op \in {"fill_buf", "read"} /\ ~x.dirty /\ Refills(x) /\ Has(e, "ncalls") /\ l > 1 /\ Has(Rec[l - 1], "ncalls") /\ Rec[l - 1].hi = e.hi
     /\ Rec[l - 1].ev # "reset")
  => /\ TLCSet(48, TLCGet(48) + 1)
     /\ e.ncalls[1] - Rec[l - 1].ncalls[1] = Pieces(x2.boff, x2.cap, UnitOf(x))

View6(x) == <<x.boff, x.pos, x.cap, x.dlen, x.dirty, x.total>>
Names == <<"window-offset", "cursor", "filled", "allocated", "dirty", "length">>

Init == h = NoH /\ files = <<>> /\ mb = -1 /\ l = 1 /\ skip = TRUE /\ fver = 4 /\ TLCSet(42, 0) /\ TLCSet(48, 0)

Step ==
  /\ l <= Len(Rec)
  /\ LET e == Rec[l] IN
     IF e.ev = "reset"
     THEN LET follow == e.res.k = "ok" /\ e.mode = "plain" /\ Has(e, "faulty") /\ ~e.faulty /\ Has(e, "maxbuf") /\ Known(e.maxbuf)
                        /\ ~Has(e, "nofid")      \* (histories whose transfers go through derived io methods: primitive calls only here)
          IN /\ skip' = ~follow /\ h' = NoH /\ mb' = (IF Has(e, "maxbuf") THEN e.maxbuf ELSE -1)
             /\ fver' = (IF Has(e, "ver") THEN e.ver ELSE 4)
             /\ files' = IF follow THEN InitFiles(e.streams) ELSE <<>>
     ELSE IF skip THEN UNCHANGED <<h, files, mb, skip, fver>>
     ELSE IF e.op \in {"park", "unpark", "drop_cf", "create_stream", "remove_stream", "cf_flush"} \/ e.res.k = "panic"
     THEN skip' = TRUE /\ UNCHANGED <<h, files, mb, fver>>
     ELSE IF e.op = "open"
     THEN h' = NoH /\ UNCHANGED <<files, mb, skip, fver>>
     ELSE IF e.op = "open_stream"
     THEN (IF e.res.k = "ok" /\ e.name \in DOMAIN files
           THEN h' = [open |-> TRUE, name |-> e.name, c |-> XNew(files[e.name])] /\ UNCHANGED <<files, mb, skip, fver>>
           ELSE UNCHANGED <<h, files, mb, skip, fver>>)
     ELSE IF e.op = "close"
     THEN \* dropping a handle writes its data back
          /\ files' = IF h.open THEN (h.name :> XFlush(h.c).h.file) @@ files ELSE files
          /\ h' = NoH /\ UNCHANGED <<mb, skip, fver>>
     ELSE IF ~h.open \/ e.res.k # "ok" \/ ~Has(e, "hs")
     THEN UNCHANGED <<h, files, mb, skip, fver>>        \* refused calls change nothing (judged by Trace_Handle)
     ELSE LET x2 == After(h.c, e)
              got == <<e.hs[1], e.hs[2], e.hs[3], e.hs[4], e.hs[5], e.hs[6]>>
              bad == {i \in 1..6 : View6(x2)[i] # got[i]}
          IN /\ TLCSet(42, TLCGet(42) + 1)
             /\ (\A i \in bad : PrintT(<<"HDRIFT", Names[i], e.op, e.hi, e.oi, l>>))
             /\ (bad # {} => PrintT(<<"HEXPECTED", View6(x2), "GOT", got>>))
             /\ (IF bad = {} /\ ~ReadsOK(h.c, x2, e) THEN PrintT(<<"HDRIFT", "backend-reads", e.op, e.hi, e.oi, l>>) ELSE TRUE)
             /\ h' = [h EXCEPT !.c = x2]
             /\ files' = IF e.op = "flush" THEN (h.name :> x2.file) @@ files ELSE files
             /\ skip' = (bad # {}) /\ UNCHANGED <<mb, fver>>
  /\ l' = l + 1
Next == Step
Spec == Init /\ [][Next]_vars
Consumed == IF TLCGet("stats").diameter = Len(Rec) + 1
            THEN PrintT(<<"HCOMPARED", TLCGet(42)>>) /\ PrintT(<<"HREFILLS", TLCGet(48)>>)
            ELSE PrintT(<<"STUCK", TLCGet("stats").diameter, Len(Rec)>>) /\ FALSE
=============================================================================
