---------------------------- MODULE Trace_Writes ----------------------------
(***************************************************************************)
(* Fidelity of CfbFault's ORDER of writes: the model, instantiated at the  *)
(* real geometries, replays recorded file-level histories and predicts,    *)
(* for every operation, the sequence of writes to the header and to the    *)
(* table sectors (FAT, DIFAT, MiniFAT, directory): which bytes, in which   *)
(* order.  The harness records the backend's write calls of every          *)
(* operation (offset, length; contiguous calls inside one sector merged).  *)
(* Writes to stream data and to the mini stream are left out on both sides *)
(* (the model has no bytes); what remains is merged where contiguous and   *)
(* compared as a sequence.  A difference is printed as a WDRIFT line       *)
(* (fidelity, not a verdict): it means the library now writes its tables   *)
(* in another order than the one MC_Fault's results were obtained for.     *)
(***************************************************************************)
EXTENDS CfbTree, Json, IOUtils, TLCExt

Rec    == ndJsonDeserialize(IOEnv.TRACE)
\* TLC evaluates a definition that the configuration substitutes for a constant again at EVERY use, but caches
\* an ordinary constant definition; the file is therefore read by DictFile (once) and DictIn only refers to it
\* (the Json module also leaks one file descriptor per read)
DictFile == JsonDeserialize(IOEnv.DICT)
DictIn == DictFile

PLess(a, b) == Known(a) /\ Known(b) /\ KeyLess(Units(a), Units(b))
PEq(a, b)   == (a = b) \/ (Known(a) /\ Known(b) /\ Units(a) = Units(b))

F3 == INSTANCE CfbFault WITH SectorLen <- 512, MiniLen <- 64, Cutoff <- 4096, FatPer <- 128, DirPer <- 4, DifatHdr <- 109,
                             DirCount <- FALSE, NameLess <- PLess, NameEq <- PEq, FreeFirst <- FALSE, KeepLog <- TRUE, KeepDisk <- FALSE
F4 == INSTANCE CfbFault WITH SectorLen <- 4096, MiniLen <- 64, Cutoff <- 4096, FatPer <- 1024, DirPer <- 32, DifatHdr <- 109,
                             DirCount <- TRUE, NameLess <- PLess, NameEq <- PEq, FreeFirst <- FALSE, KeepLog <- TRUE, KeepDisk <- FALSE

VARIABLES q, ver, l, skip
vars == <<q, ver, l, skip>>
Has(e, f) == f \in DOMAIN e
MB == 1048576
SLen == IF ver = 3 THEN 512 ELSE 4096

(* version dispatch over run states *)
XStart(m)                  == IF ver = 3 THEN F3!Start(m, F3!FreshDisk, 0) ELSE F4!Start(m, F4!FreshDisk, 0)
XFind(m, par, n)           == IF ver = 3 THEN F3!FindChild(m, par, n) ELSE F4!FindChild(m, par, n)
XInsert(s, par, n, k)      == IF ver = 3 THEN F3!InsertEntry(s, par, n, k) ELSE F4!InsertEntry(s, par, n, k)
XCreateStream(s, par, n)   == IF ver = 3 THEN F3!CreateStreamAt(s, par, n) ELSE F4!CreateStreamAt(s, par, n)
XRemoveStream(s, par, n)   == IF ver = 3 THEN F3!RemoveStreamAt(s, par, n) ELSE F4!RemoveStreamAt(s, par, n)
XRemoveEntry(s, par, n)    == IF ver = 3 THEN F3!RemoveEntry(s, par, n) ELSE F4!RemoveEntry(s, par, n)
XWriteData(s, id, o, n)    == IF ver = 3 THEN F3!WriteData(s, id, o, n) ELSE F4!WriteData(s, id, o, n)
XResize(s, id, n)          == IF ver = 3 THEN F3!Resize(s, id, n) ELSE F4!Resize(s, id, n)
XReload(m)                 == IF ver = 3 THEN F3!Reload(m) ELSE F4!Reload(m)
XChain(m, start)           == IF ver = 3 THEN F3!Chain(m, start) ELSE F4!Chain(m, start)
KStorage == 1
KStream == 2

RECURSIVE ResolveFrom(_, _, _)
ResolveFrom(m, cur, names) ==
  IF names = <<>> \/ cur = -1 THEN cur ELSE ResolveFrom(m, XFind(m, cur, Head(names)), Tail(names))
WResolve(m, names) == ResolveFrom(m, 0, names)
ParentOf(m, names) == WResolve(m, SubSeq(names, 1, Len(names) - 1))

RECURSIVE WriteChunks(_, _, _, _)
WriteChunks(s, id, off, n) ==
  IF n <= MB THEN XWriteData(s, id, off, n) ELSE WriteChunks(XWriteData(s, id, off, MB), id, off + MB, n - MB)
RECURSIVE WCsaGo(_, _, _)
WCsaGo(s, names, i) ==
  IF i > Len(names) \/ ~s.ok THEN s
  ELSE LET par == WResolve(s.m, SubSeq(names, 1, i - 1)) IN
       IF XFind(s.m, par, names[i]) # -1 THEN WCsaGo(s, names, i + 1)
       ELSE WCsaGo(XInsert(s, par, names[i], KStorage), names, i + 1)
RECURSIVE InOrderM(_, _)
InOrderM(m, cur) == IF cur = -1 THEN <<>> ELSE InOrderM(m, m.slots[cur + 1].left) \o <<cur>> \o InOrderM(m, m.slots[cur + 1].right)
RECURSIVE WalkM(_, _, _)
WalkM(m, id, par) ==
  LET kids == InOrderM(m, m.slots[id + 1].child)
      G[i \in 0..Len(kids)] == IF i = 0 THEN <<>> ELSE G[i - 1] \o WalkM(m, kids[i], id)
  IN <<[id |-> id, par |-> par, name |-> m.slots[id + 1].name, kind |-> m.slots[id + 1].kind]>> \o G[Len(kids)]
RECURSIVE RemoveAllGo(_, _, _)
RemoveAllGo(s, w, i) ==
  IF i = 0 \/ ~s.ok THEN s
  ELSE LET x == w[i] IN
       IF x.kind = KStream THEN RemoveAllGo(XRemoveStream(s, x.par, x.name), w, i - 1)
       ELSE IF x.id = 0 THEN RemoveAllGo(s, w, i - 1)
       ELSE RemoveAllGo(XRemoveEntry(s, x.par, x.name), w, i - 1)

Modelled(e) == e.op \in {"create_storage", "create_storage_all", "create_stream", "create_new_stream", "remove_storage",
                         "remove_stream", "remove_storage_all", "write", "set_len"}
XApply(m, e) ==
  LET nc == IF Has(e, "p") THEN Normalize(e.p) ELSE [ok |-> TRUE, names |-> <<>>]
      names == nc.names
      s == XStart(m)
      id == WResolve(m, names)
  IN
  CASE e.op = "create_storage"     -> XInsert(s, ParentOf(m, names), names[Len(names)], KStorage)
    [] e.op = "create_storage_all" -> WCsaGo(s, names, 1)
    [] e.op \in {"create_stream", "create_new_stream"} -> XCreateStream(s, ParentOf(m, names), names[Len(names)])
    [] e.op = "remove_storage"     -> XRemoveEntry(s, ParentOf(m, names), names[Len(names)])
    [] e.op = "remove_stream"      -> XRemoveStream(s, ParentOf(m, names), names[Len(names)])
    [] e.op = "remove_storage_all" ->
         LET w == WalkM(m, id, IF names = <<>> THEN 0 ELSE ParentOf(m, names)) IN RemoveAllGo(s, w, Len(w))
    [] e.op = "write"              -> IF RLen(e.runs) = 0 THEN s ELSE WriteChunks(s, id, e.off, RLen(e.runs))
    [] e.op = "set_len"            -> IF e.n = m.slots[id + 1].size THEN s ELSE XResize(s, id, e.n)
    [] OTHER -> s

---------------------------------------------------------------------------
(* byte ranges <<offset, length>> of the model's table writes *)
HdrOff(f) == CASE f = "ndir" -> 40 [] f = "nfat" -> 44 [] f = "firstMinifat" -> 60 [] f = "nminifat" -> 64
               [] f = "firstDifat" -> 68 [] f = "ndifat" -> 72
LinkOff(f) == CASE f = "left" -> 68 [] f = "right" -> 72 [] f = "child" -> 76
RangeOf(w) ==
  CASE w[1] = "cell"     -> <<(w[2] + 1) * SLen + 4 * w[3], 4>>
    [] w[1] = "slot"     -> <<(w[2] + 1) * SLen + 128 * w[3], 128>>
    [] w[1] = "link"     -> <<(w[2] + 1) * SLen + 128 * w[3] + LinkOff(w[4]), 4>>
    [] w[1] = "hdr"      -> <<HdrOff(w[2]), 4>>
    [] w[1] = "hdrdifat" -> <<76 + 4 * w[2], 4>>
    [] w[1] = "init"     -> <<(w[2] + 1) * SLen, SLen>>
IsTableWrite(w) == w[1] # "init" \/ w[3] \in {"fat", "difat", "dir"}

RECURSIVE Merge(_, _, _)
Merge(rs, i, acc) ==        \* contiguous neighbours become one range
  IF i > Len(rs) THEN acc
  ELSE IF acc # <<>> /\ acc[Len(acc)][1] + acc[Len(acc)][2] = rs[i][1]
       THEN Merge(rs, i + 1, [acc EXCEPT ![Len(acc)] = <<@[1], @[2] + rs[i][2]>>])
       ELSE Merge(rs, i + 1, Append(acc, rs[i]))
TableSecs(m) ==
  {m.difat[i] : i \in 1..Len(m.difat)} \cup {m.difatSecs[i] : i \in 1..Len(m.difatSecs)}
  \cup {x \in 0..(Len(m.fat) - 1) : \E i \in 1..Len(XChain(m, m.dirStart)) : XChain(m, m.dirStart)[i] = x}
  \cup {x \in 0..(Len(m.fat) - 1) : \E i \in 1..Len(XChain(m, m.minifatStart)) : XChain(m, m.minifatStart)[i] = x}
InTable(T, r) == r[1] < 512 \/ ((r[1] \div SLen) - 1) \in T

Predicted(s) ==
  LET tw == SelectSeq(s.log, IsTableWrite) IN Merge([i \in 1..Len(tw) |-> RangeOf(tw[i])], 1, <<>>)
Observed(m2, e) ==
  LET T == TableSecs(m2)
      rs == SelectSeq([i \in 1..Len(e.writes) |-> <<e.writes[i][1], e.writes[i][2]>>], LAMBDA r : InTable(T, r))
  IN Merge(rs, 1, <<>>)

Init == q = <<>> /\ ver = 0 /\ l = 1 /\ skip = TRUE /\ TLCSet(46, 0)
Step ==
  /\ l <= Len(Rec)
  /\ LET e == Rec[l] IN
     IF e.ev = "reset"
     THEN LET follow == e.res.k = "ok" /\ ~Has(e, "tree") /\ e.ver \in {3, 4} /\ Has(e, "wlog") IN
          /\ ver' = IF follow THEN e.ver ELSE 0
          /\ q' = IF follow THEN (IF e.ver = 3 THEN F3!FreshMem ELSE F4!FreshMem) ELSE <<>>
          /\ skip' = ~follow
     ELSE IF skip \/ e.res.k = "panic" THEN UNCHANGED <<q, ver, skip>>
     ELSE IF (Has(e, "h") /\ e.h # "") \/ ~Has(e, "writes")
     THEN skip' = TRUE /\ UNCHANGED <<q, ver>>
     ELSE IF e.op = "reopen" THEN q' = (IF e.res.k = "ok" THEN XReload(q) ELSE q) /\ UNCHANGED <<ver, skip>>
     ELSE IF e.res.k # "ok" \/ ~Modelled(e)
     THEN \* a refused call writes nothing (C10, judged elsewhere); an operation the model has no write path for ends the comparison
          /\ q' = q /\ UNCHANGED ver /\ skip' = (e.res.k = "ok" /\ ~Modelled(e) /\ e.writes # <<>>)
     ELSE LET s == XApply(q, e)
              want == Predicted(s)
              got == Observed(s.m, e)
          IN /\ q' = s.m /\ UNCHANGED ver
             /\ TLCSet(46, TLCGet(46) + 1)
             /\ (IF want # got /\ s.ok
                 THEN PrintT(<<"WDRIFT", e.op, e.hi, e.oi, l>>) /\ PrintT(<<"WANT", want, "GOT", got>>)
                 ELSE TRUE)
             /\ skip' = (want # got \/ ~s.ok)
  /\ l' = l + 1
Next == Step
Spec == Init /\ [][Next]_vars
Consumed == IF TLCGet("stats").diameter = Len(Rec) + 1
            THEN PrintT(<<"WCOMPARED", TLCGet(46)>>)
            ELSE PrintT(<<"STUCK", TLCGet("stats").diameter, Len(Rec)>>) /\ FALSE
=============================================================================
