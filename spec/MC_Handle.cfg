SPECIFICATION Spec
CONSTANTS MinBuf = 2 Growth = 2 MaxBuf = 3 FixDirty = TRUE FixRefill = TRUE
CONSTANTS MaxLen = 4 MaxFaults = 0 Emit = FALSE Depth = 99
VIEW View_
ACTION_CONSTRAINT EmitEdge
INVARIANT Coupled ReadsRight WritesProgress FlushDurable ViewRight InvCache
CHECK_DEADLOCK FALSE
