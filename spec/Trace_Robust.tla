---------------------------- MODULE Trace_Robust ----------------------------
(***************************************************************************)
(* C05 / C11: validator for the robustness driver (rdrive).  One event per *)
(* case (a damaged image x a workload).  What the properties state is all  *)
(* that is demanded: no call panics (the driver runs every call under      *)
(* catch_unwind; a hang or a died driver is reported by the orchestrator's *)
(* watchdog as a HANG failure for the journalled case), and, for read-only *)
(* use, memory stays proportional to the input:                            *)
(*      peak <= 2048 x input + 64 MiB       (inputs are at most 128 KiB)   *)
(* The factor covers the one linear amplification the format allows (DIFAT *)
(* entries may repeat a FAT sector, so the in-memory FAT can reach 128 x / *)
(* 1024 x the file size before validation rejects it); anything driven by  *)
(* a length field exceeds it on these small inputs.                        *)
(* Also C16, first half, on damaged images: strict accepts => permissive   *)
(* accepts.                                                                *)
(***************************************************************************)
EXTENDS Naturals, Integers, Sequences, TLC, Json, IOUtils, TLCExt

Rec == ndJsonDeserialize(IOEnv.TRACE)
VARIABLES l
vars == <<l>>

Has(e, f) == f \in DOMAIN e
Fail(prop, rule, e) == PrintT(<<"FAIL", prop, rule, e.hi, (IF Has(e, "oi") THEN e.oi ELSE -1), l>>)

MemOK(e) == e.peak_kib <= 2048 * e.input_kib + 65536 + 2048

Init == l = 1
Step ==
  /\ l <= Len(Rec)
  /\ LET e == Rec[l] IN
     IF e.ev # "case" THEN TRUE
     ELSE /\ (IF e.panicked THEN Fail(IF e.mode = "read" THEN "C05" ELSE "C11", "panic", e) ELSE TRUE)
          /\ (IF e.mode = "read" /\ ~MemOK(e) THEN Fail("C05", "memory", e) ELSE TRUE)
          /\ (IF e.mode = "read" /\ Has(e.opened, "strict") /\ e.opened.strict = "ok"
                 /\ ~(Has(e.opened, "permissive") /\ e.opened.permissive = "ok")
              THEN Fail("C16", "strict-ok-permissive-not", e) ELSE TRUE)
  /\ l' = l + 1
Next == Step
Spec == Init /\ [][Next]_vars
Consumed == IF TLCGet("stats").diameter = Len(Rec) + 1 THEN TRUE
            ELSE PrintT(<<"STUCK", TLCGet("stats").diameter, Len(Rec)>>) /\ FALSE
=============================================================================
