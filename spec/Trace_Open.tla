----------------------------- MODULE Trace_Open -----------------------------
(***************************************************************************)
(* Fidelity-level conformance of CfbOpen: for every image in a recorded    *)
(* trace whose open results are recorded as well -                         *)
(*   file-level events (drive.rs): e.img with e.reopen.{strict,permissive},*)
(*   deviated copies:              e.dev.img with e.dev.{strict,permissive}*)
(*   robustness cases (rdrive.rs): e.img with e.opened.{strict,permissive} *)
(* - the model's verdict (accept / reject) is compared with what the real  *)
(* library did.  A disagreement is printed as an ODRIFT line; images the   *)
(* model cannot judge from the decode ("unknown") are counted apart.       *)
(* Like Trace_Phys this is not a property-level verdict: it is what        *)
(* licenses reading MC_Phys's InvOpen and MC_Open's C16 result as          *)
(* statements about the code.                                              *)
(***************************************************************************)
EXTENDS CfbTree, Json, IOUtils, TLCExt

Rec    == ndJsonDeserialize(IOEnv.TRACE)
\* TLC evaluates a definition that the configuration substitutes for a constant again at EVERY use, but caches
\* an ordinary constant definition; the file is therefore read by DictFile (once) and DictIn only refers to it
\* (the Json module also leaks one file descriptor per read)
DictFile == JsonDeserialize(IOEnv.DICT)
DictIn == DictFile

OLess(a, b) == KeyLess(Units(a), Units(b))
O == INSTANCE CfbOpen WITH DifatHdrLen <- 109, MiniLen <- 64, CutoffLen <- 4096,
                           NameLess <- OLess, NameKnown <- Known, RootNameStr <- RootName

VARIABLES l
vars == <<l>>
Has(e, f) == f \in DOMAIN e

(* registers: 42 compared, 43 unknown, 44 accepted-by-both, 45 rejected-by-some *)
Bump(r) == TLCSet(r, TLCGet(r) + 1)

Real(r) == IF r = "ok" THEN "ok" ELSE IF r = "panic" THEN "panic" ELSE "err"
Compare(img, mode, real, e) ==
  LET v == O!Verdict(img, mode = "strict") IN
  IF real = "panic" THEN TRUE
  ELSE IF v.k = "unknown" THEN Bump(43)
  ELSE /\ Bump(42)
       /\ (IF v.k = "ok" THEN Bump(44) ELSE Bump(45))
       /\ (IF v.k # real
           THEN PrintT(<<"ODRIFT", mode, "model:" \o v.k \o ":" \o v.stage, "library:" \o real, e.hi, (IF Has(e, "oi") THEN e.oi ELSE 0), l>>)
           ELSE TRUE)

DumpRes(d) == IF Has(d, "ok") THEN "ok" ELSE IF Has(d, "panic") THEN "panic" ELSE "err"
CaseRes(s) == IF s = "ok" THEN "ok" ELSE IF s = "panic" THEN "panic" ELSE "err"
Usable(img) == Has(img, "short") /\ (img.short \/ Has(img, "hdr"))

Init == l = 1 /\ TLCSet(42, 0) /\ TLCSet(43, 0) /\ TLCSet(44, 0) /\ TLCSet(45, 0)
Step ==
  /\ l <= Len(Rec)
  /\ LET e == Rec[l] IN
     /\ (IF Has(e, "img") /\ Has(e, "reopen") /\ Usable(e.img)
         THEN /\ Compare(e.img, "strict", DumpRes(e.reopen.strict), e)
              /\ Compare(e.img, "permissive", DumpRes(e.reopen.permissive), e)
         ELSE TRUE)
     /\ (IF Has(e, "dev") /\ Has(e.dev, "img") /\ Usable(e.dev.img)
         THEN /\ Compare(e.dev.img, "strict", DumpRes(e.dev.strict), e)
              /\ Compare(e.dev.img, "permissive", DumpRes(e.dev.permissive), e)
         ELSE TRUE)
     /\ (IF Has(e, "img") /\ Has(e, "opened") /\ Usable(e.img)
         THEN /\ (IF Has(e.opened, "strict") THEN Compare(e.img, "strict", CaseRes(e.opened.strict), e) ELSE TRUE)
              /\ (IF Has(e.opened, "permissive") THEN Compare(e.img, "permissive", CaseRes(e.opened.permissive), e) ELSE TRUE)
         ELSE TRUE)
  /\ l' = l + 1
Next == Step
Spec == Init /\ [][Next]_vars
Consumed == IF TLCGet("stats").diameter = Len(Rec) + 1
            THEN PrintT(<<"OPENED", TLCGet(42), TLCGet(43), TLCGet(44), TLCGet(45)>>)
            ELSE PrintT(<<"STUCK", TLCGet("stats").diameter, Len(Rec)>>) /\ FALSE
=============================================================================
