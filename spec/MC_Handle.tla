----------------------------- MODULE MC_Handle -----------------------------
(***************************************************************************)
(* Bounded instance of CfbHandle: one handle on one stream, every          *)
(* interleaving of read / fill_buf / consume / write / seek / set_len /    *)
(* flush with small arguments, optionally with injected I/O failures,      *)
(* checked against the reference byte vector with cursor.  Also a          *)
(* generator (EDGE lines, transition coverage) for real-scale replay.      *)
(***************************************************************************)
EXTENDS CfbHandle, Json, TLCExt

CONSTANTS MaxLen,      \* bound on stream length (model units)
          MaxFaults,   \* number of injected failures per behaviour
          Emit,
          Depth        \* bound on history length when used as a generator

VARIABLES h, ref, res, faults, hist
vars == <<h, ref, res, faults, hist>>
View_ == <<h, ref, faults>>

B == {1, 2}
Ops ==
  {[op |-> "read", n |-> n] : n \in 0..3}
  \cup {[op |-> "fill_buf"]}
  \cup {[op |-> "consume", n |-> n] : n \in 1..2}
  \cup {[op |-> "write", b |-> b, n |-> n] : b \in B, n \in 1..3}
  \cup {[op |-> "seek", to |-> p] : p \in -1..(MaxLen + 1)}
  \cup {[op |-> "set_len", n |-> n] : n \in 0..MaxLen}
  \cup {[op |-> "flush"]}

Init ==
  /\ h = NewHandle(<<>>) /\ ref = [bytes |-> <<>>, cur |-> 0]
  /\ res = [k |-> "init"] /\ faults = 0 /\ hist = <<>>

F(b) == IF b THEN 1 ELSE 0
Budget(n) == faults + n <= MaxFaults
Flags == IF faults < MaxFaults THEN BOOLEAN ELSE {FALSE}

DoRead(o, fw, fr) ==
  LET f == FillBuf(h, fw, fr)
      used == F(fw /\ f.wio) + F(fr /\ f.rio) IN
  /\ Budget(used) /\ faults' = faults + used
  /\ IF ~f.ok THEN h' = f.h /\ res' = [k |-> "err", op |-> "read"] /\ UNCHANGED ref
     ELSE LET k == RMin(o.n, f.h.cap - f.h.pos)
              got == RSlice(f.h.data, f.h.pos, k) IN
          /\ h' = [f.h EXCEPT !.pos = @ + k]
          /\ res' = [k |-> "read", got |-> got, want |-> RSlice(ref.bytes, ref.cur, k),
                     n |-> o.n, atEnd |-> ref.cur = RLen(ref.bytes)]
          /\ ref' = [ref EXCEPT !.cur = @ + k]

DoFillBuf(fw, fr) ==
  LET f == FillBuf(h, fw, fr)
      used == F(fw /\ f.wio) + F(fr /\ f.rio) IN
  /\ Budget(used) /\ faults' = faults + used
  /\ h' = f.h /\ UNCHANGED ref
  /\ IF ~f.ok THEN res' = [k |-> "err", op |-> "fill_buf"]
     ELSE LET k == f.h.cap - f.h.pos IN
          res' = [k |-> "read", got |-> RSlice(f.h.data, f.h.pos, k),
                  want |-> RSlice(ref.bytes, ref.cur, k), n |-> 1,
                  atEnd |-> ref.cur = RLen(ref.bytes)]

DoConsume(o) ==
  /\ o.n <= h.cap - h.pos
  /\ h' = [h EXCEPT !.pos = @ + o.n] /\ ref' = [ref EXCEPT !.cur = @ + o.n]
  /\ res' = [k |-> "unit"] /\ UNCHANGED faults

DoWrite(o, fw) ==
  LET bs == <<<<o.b, o.n>>>>
      w == Write(h, bs, fw)
      used == F(fw /\ w.wio) IN
  /\ ref.cur + o.n <= MaxLen
  /\ Budget(used) /\ faults' = faults + used
  /\ h' = w.h
  /\ IF ~w.ok THEN res' = [k |-> "err", op |-> "write"] /\ UNCHANGED ref
     ELSE /\ res' = [k |-> "wrote", n |-> w.n, asked |-> o.n]
          /\ ref' = [bytes |-> RSplice(ref.bytes, ref.cur, RTake(bs, w.n)), cur |-> ref.cur + w.n]

DoSeek(o, fw) ==
  IF o.to < 0 \/ o.to > h.total
  THEN /\ res' = [k |-> "err", op |-> "seek-range"] /\ UNCHANGED <<h, ref, faults>>
  ELSE LET s == SeekTo(h, o.to, fw)
           used == F(fw /\ s.wio) IN
       /\ Budget(used) /\ faults' = faults + used
       /\ h' = s.h
       /\ IF ~s.ok THEN res' = [k |-> "err", op |-> "seek"] /\ UNCHANGED ref
          ELSE res' = [k |-> "pos", v |-> o.to] /\ ref' = [ref EXCEPT !.cur = o.to]

DoSetLen(o, fw, fz) ==
  LET s == SetLen(h, o.n, fw, fz)
      used == F(fw /\ s.wio) + F(fz /\ s.zio) IN
  /\ Budget(used) /\ faults' = faults + used
  /\ h' = s.h
  /\ IF ~s.ok THEN res' = [k |-> "err", op |-> "set_len"] /\ UNCHANGED ref
     ELSE /\ res' = [k |-> "unit"]
          /\ ref' = [bytes |-> RSetLen(ref.bytes, o.n), cur |-> RMin(ref.cur, o.n)]

DoFlush(fw, ff) ==
  LET f == Flush(h, fw, ff)
      used == F(fw /\ f.wio) + F(ff /\ f.fio) IN
  /\ Budget(used) /\ faults' = faults + used
  /\ h' = f.h /\ UNCHANGED ref
  /\ res' = IF f.ok THEN [k |-> "flushed"] ELSE [k |-> "err", op |-> "flush"]

Do(o) ==
  /\ hist' = Append(hist, o)
  /\ \E fw \in Flags, fx \in Flags :
       CASE o.op = "read"     -> DoRead(o, fw, fx)
         [] o.op = "fill_buf" -> DoFillBuf(fw, fx)
         [] o.op = "consume"  -> DoConsume(o) /\ fw = FALSE /\ fx = FALSE
         [] o.op = "write"    -> DoWrite(o, fw) /\ fx = FALSE
         [] o.op = "seek"     -> DoSeek(o, fw) /\ fx = FALSE
         [] o.op = "set_len"  -> DoSetLen(o, fw, fx)
         [] o.op = "flush"    -> DoFlush(fw, fx)
Next == \E o \in Ops : Do(o)
Spec == Init /\ [][Next]_vars

DepthBound == Len(hist) < Depth
EmitEdge == IF Emit THEN PrintT(<<"EDGE", ToJson(hist')>>) ELSE TRUE

---------------------------------------------------------------------------
(* C06: len() and position always current - also after failed calls *)
Coupled == h.total = RLen(ref.bytes) /\ Pos(h) = ref.cur
(* C06 + C12: every Ok read returns the reference bytes; 0 only at the end *)
ReadsRight ==
  res.k = "read" =>
    /\ res.got = res.want
    /\ (RLen(res.got) = 0 => (res.atEnd \/ res.n = 0))
(* a write of a non-empty buffer makes progress *)
WritesProgress == res.k = "wrote" => res.n > 0 /\ res.n <= res.asked
(* C13: an Ok flush means every accepted byte is committed *)
FlushDurable == res.k = "flushed" => h.file = ref.bytes
(* the handle's view is the reference vector (pending data is never lost) *)
ViewRight == View(h) = ref.bytes
InvCache == CacheOK(h)
=============================================================================
