------------------------------ MODULE CfbPhys ------------------------------
(***************************************************************************)
(* The physical model: rust-cfb's allocator, mini allocator, directory and *)
(* stream write paths transcribed operation by operation                   *)
(* (src/internal/alloc.rs, minialloc.rs, directory.rs, chain.rs,           *)
(* minichain.rs, stream.rs).  The state mirrors the Rust structs; every    *)
(* operator below is the functional form of the method of the same name.   *)
(* The model is geometry-parametric: the same text is model checked at a   *)
(* tiny geometry (MC_Phys: 4-cell FAT sectors, 2-slot directory sectors,   *)
(* 1-entry header DIFAT, so that FAT, DIFAT, directory and MiniFAT growth  *)
(* happen within a dozen sectors) and replayed at the real geometries      *)
(* against recorded images (Trace_Phys: the model predicts every table of  *)
(* the image the library writes).                                          *)
(*                                                                         *)
(* With TrackData the bytes of every sector are modelled as well (section   *)
(* "Stream bytes" below): stale bytes survive in released sectors, new      *)
(* regular sectors are zeroed when allocated, mini sectors are not, and     *)
(* set_len scrubs what it exposes - InvData / ZeroExposure of MC_Phys.      *)
(* Every directory entry also carries its colour, CLSID, state bits and    *)
(* the two timestamps (opaque tokens in the format of the raw decode): the *)
(* setters, the times a new storage gets, what removal does to colours     *)
(* (an entry that moves to a new place in the sibling tree is coloured     *)
(* black, so that a red entry of a tree written by another implementation  *)
(* never ends up next to another red one) and the fact that every other    *)
(* operation leaves them alone - "Metadata" below; C17 at design level.    *)
(* Not modelled: I/O errors (CfbFault).                                    *)
(***************************************************************************)
EXTENDS Naturals, Integers, Sequences, FiniteSets, TLC, IOUtils

CONSTANTS SectorLen,    \* bytes per sector
          MiniLen,      \* bytes per mini sector
          Cutoff,       \* streams shorter than this live in the mini stream
          FatPer,       \* FAT / MiniFAT entries per sector
          DirPer,       \* directory entries per sector
          DifatHdr,     \* DIFAT entries in the header
          DirCount,     \* TRUE: the header counts directory sectors (version 4)
          NameLess(_, _), \* CFB order on names
          NameEq(_, _),   \* equality of names up to case folding
          ModuloPolicy,   \* TRUE: the pinned commit's test for extending the MiniFAT / mini stream
                          \* chains (trimmed length a multiple of a sector), FALSE: the repaired
                          \* capacity test
          TrackData,      \* TRUE: the bytes of every sector are part of the state (tiny geometry only)
          Scrub           \* TRUE: set_len zeroes what it exposes (repaired); FALSE: the pinned commit

DifatPer == FatPer - 1
(* self-test switch of MC_RB: FALSE = removal as before fix 2f450ff (colours never touched) *)
Recolor == "NORECOLOR" \notin DOMAIN IOEnv
FREE   == -1
ENDC   == -2
FATM   == -3
DIFATM == -4
NO     == -1
CeilDiv(a, b) == (a + b - 1) \div b

KUnalloc == 0
KStorage == 1
KStream  == 2
KRoot    == 5

(* colour byte, CLSID, state bits, timestamps: as the raw decoder prints them *)
BLACK    == 1
RED      == 0
NilC     == "00000000000000000000000000000000"
ZeroBits == "00000000"
ZT       == <<0, 0, 0>>

(* DirEntry::unallocated(): all zero (colour byte 0 = red) except the three links *)
Unalloc == [name |-> "", kind |-> KUnalloc, left |-> NO, right |-> NO, child |-> NO, start |-> 0, size |-> 0,
            color |-> RED, clsid |-> NilC, bits |-> ZeroBits, ct |-> ZT, mt |-> ZT]
(* DirEntry::new: black, nil CLSID, no state bits; the timestamp is set by the caller (NewEntryAt) *)
NewEntry(name, kind) ==
  [name |-> name, kind |-> kind, left |-> NO, right |-> NO, child |-> NO,
   start |-> IF kind = KStorage THEN 0 ELSE ENDC, size |-> 0,
   color |-> BLACK, clsid |-> NilC, bits |-> ZeroBits, ct |-> ZT, mt |-> ZT]
(* the allocation-level part of an entry (what CfbFault, which has no metadata, also holds) *)
Core(e) == [name |-> e.name, kind |-> e.kind, left |-> e.left, right |-> e.right, child |-> e.child, start |-> e.start, size |-> e.size]

(* CompoundFile::create_with_version: header, one FAT sector, one directory  *)
(* sector holding the root entry                                              *)
Fresh ==
  [nsec |-> 2, fat |-> <<FATM, ENDC>>, free |-> <<>>, difat |-> <<0>>, difatSecs |-> <<>>,
   slots |-> <<NewEntry("Root Entry", KRoot)>>, dirStart |-> 1,
   minifat |-> <<>>, minifatStart |-> ENDC, freeMini |-> <<>>,
   hdr |-> [nfat |-> 1, firstDifat |-> ENDC, ndifat |-> 0, firstMinifat |-> ENDC, nminifat |-> 0,
            ndir |-> IF DirCount THEN 1 ELSE 0],
   \* data[s + 1] = the SectorLen byte tags of sector s (0 = a zero byte); <<>> when not tracked
   data |-> IF TrackData THEN <<[i \in 1..SectorLen |-> 0], [i \in 1..SectorLen |-> 0]>> ELSE <<>>]

E(p, i)       == p.slots[i + 1]
SetE(p, i, e) == [p EXCEPT !.slots[i + 1] = e]

---------------------------------------------------------------------------
(* Allocator (alloc.rs)                                                      *)
SetFat(p, i, v) == IF i = Len(p.fat) THEN [p EXCEPT !.fat = Append(@, v)]
                   ELSE [p EXCEPT !.fat[i + 1] = v]
ZeroSec == [i \in 1..SectorLen |-> 0]
(* init_sector overwrites the whole sector (zeros for data sectors; table sectors get their own *)
(* initial contents, which no stream ever reads)                                               *)
InitSector(p, id) ==
  LET q == IF id = p.nsec THEN [p EXCEPT !.nsec = @ + 1] ELSE p IN
  IF ~TrackData THEN q
  ELSE IF id = Len(q.data) THEN [q EXCEPT !.data = Append(@, ZeroSec)] ELSE [q EXCEPT !.data[id + 1] = ZeroSec]

AppendFatSector(p) ==
  LET id == Len(p.fat)
      p1 == InitSector(p, id)
      di == Len(p1.difat)
      p2 == SetFat([p1 EXCEPT !.difat = Append(@, id)], id, FATM)
      p3 == IF di < DifatHdr THEN p2
            ELSE LET dsi == (di - DifatHdr) \div DifatPer IN
                 IF dsi >= Len(p2.difatSecs)
                 THEN LET nid == Len(p2.fat)
                          q1 == SetFat(InitSector(p2, nid), nid, DIFATM)
                          q2 == [q1 EXCEPT !.difatSecs = Append(@, nid)]
                      IN [q2 EXCEPT !.hdr.firstDifat = q2.difatSecs[1], !.hdr.ndifat = Len(q2.difatSecs)]
                 ELSE p2
  IN [p3 EXCEPT !.hdr.nfat = Len(p3.difat)]

(* allocate_sector: returns [p, id] *)
AllocSector(p) ==
  IF p.free # <<>>
  THEN LET id == p.free[Len(p.free)] IN
       [p |-> SetFat(InitSector([p EXCEPT !.free = SubSeq(@, 1, Len(@) - 1)], id), id, ENDC), id |-> id]
  ELSE LET p1 == IF Len(p.fat) % FatPer = 0 THEN AppendFatSector(p) ELSE p
           id == Len(p1.fat)
       IN [p |-> InitSector(SetFat(p1, id, ENDC), id), id |-> id]

(* (accumulating form: linear in the chain length, so that megabyte chains can be followed) *)
RECURSIVE ChainAcc(_, _, _, _)
ChainAcc(p, cur, fuel, acc) ==
  IF cur = ENDC \/ cur < 0 \/ cur >= Len(p.fat) \/ fuel = 0 THEN acc
  ELSE ChainAcc(p, p.fat[cur + 1], fuel - 1, Append(acc, cur))
Chain(p, start) == ChainAcc(p, start, Len(p.fat) + 1, <<>>)
LastOf(p, start) == LET c == Chain(p, start) IN c[Len(c)]

ExtendChain(p, start) ==
  LET last == LastOf(p, start)
      r == AllocSector(p)
  IN [p |-> SetFat(r.p, last, r.id), id |-> r.id]

RECURSIVE FreeSeq(_, _)
FreeSeq(p, secs) ==
  IF secs = <<>> THEN p
  ELSE FreeSeq([SetFat(p, Head(secs), FREE) EXCEPT !.free = Append(@, Head(secs))], Tail(secs))
FreeChain(p, start) == FreeSeq(p, Chain(p, start))

(* Chain::write / Chain::set_len growth: one sector at a time; [p, start] *)
(* (the chain is followed once; `last` and `have` are carried along instead of re-following it *)
(* for every added sector - the result is the same as extend_chain called n - have times)     *)
RECURSIVE GrowFrom(_, _, _, _, _)
GrowFrom(p, start, last, have, n) ==
  IF have >= n THEN [p |-> p, start |-> start]
  ELSE LET r == AllocSector(p) IN
       IF start = ENDC THEN GrowFrom(r.p, r.id, r.id, 1, n)
       ELSE GrowFrom(SetFat(r.p, last, r.id), start, r.id, have + 1, n)
GrowChain(p, start, n) ==
  LET ch == Chain(p, start) IN
  GrowFrom(p, start, (IF ch = <<>> THEN ENDC ELSE ch[Len(ch)]), Len(ch), n)

(* Chain::set_len *)
ChainSetLen(p, start, nbytes) ==
  LET n == CeilDiv(nbytes, SectorLen)
      ch == Chain(p, start)
  IN IF n = 0 THEN [p |-> (IF ch = <<>> THEN p ELSE FreeChain(p, start)), start |-> start]
     ELSE IF n <= Len(ch)
     THEN (IF n < Len(ch)
           THEN [p |-> FreeSeq(SetFat(p, ch[n], ENDC), SubSeq(ch, n + 1, Len(ch))), start |-> start]
           ELSE [p |-> p, start |-> start])
     ELSE GrowChain(p, start, n)

---------------------------------------------------------------------------
(* MiniAllocator (minialloc.rs)                                              *)
RootStart(p) == E(p, 0).start
RootSize(p)  == E(p, 0).size

SetMini(p, i, v) == IF i = Len(p.minifat) THEN [p EXCEPT !.minifat = Append(@, v)]
                    ELSE [p EXCEPT !.minifat[i + 1] = v]

AppendMiniSector(p) ==
  LET st == RootStart(p)
      r == IF st = ENDC THEN AllocSector(p)
           ELSE IF (IF ModuloPolicy THEN RootSize(p) % SectorLen = 0 ELSE RootSize(p) >= SectorLen * Len(Chain(p, st)))
                THEN [p |-> ExtendChain(p, st).p, id |-> st]
                ELSE [p |-> p, id |-> st]
  IN SetE(r.p, 0, [E(r.p, 0) EXCEPT !.start = r.id, !.size = @ + MiniLen])

RECURSIVE PopFreeMini(_)
PopFreeMini(p) ==
  IF p.freeMini = <<>> THEN [p |-> p, id |-> -1]
  ELSE LET id == p.freeMini[Len(p.freeMini)]
           p1 == [p EXCEPT !.freeMini = SubSeq(@, 1, Len(@) - 1)]
       IN IF id < Len(p1.minifat) /\ p1.minifat[id + 1] = FREE THEN [p |-> p1, id |-> id] ELSE PopFreeMini(p1)

(* allocate_mini_sector(END_OF_CHAIN): returns [p, id] *)
AllocMini(p0) ==
  LET f == PopFreeMini(p0) IN
  IF f.id # -1 THEN [p |-> SetMini(f.p, f.id, ENDC), id |-> f.id]
  ELSE LET p == f.p
           p1 == IF p.minifatStart = ENDC
                 THEN LET r == AllocSector(p) IN
                      [r.p EXCEPT !.minifatStart = r.id, !.hdr.firstMinifat = r.id, !.hdr.nminifat = 1]
                 ELSE IF (IF ModuloPolicy THEN Len(p.minifat) % FatPer = 0
                          ELSE Len(p.minifat) >= FatPer * Len(Chain(p, p.minifatStart)))
                      THEN LET q == ExtendChain(p, p.minifatStart).p IN
                           [q EXCEPT !.hdr.nminifat = Len(Chain(q, q.minifatStart))]
                      ELSE p
           id == Len(p1.minifat)
       IN [p |-> AppendMiniSector(SetMini(p1, id, ENDC)), id |-> id]

RECURSIVE MiniChainAcc(_, _, _, _)
MiniChainAcc(p, cur, fuel, acc) ==
  IF cur = ENDC \/ cur < 0 \/ cur >= Len(p.minifat) \/ fuel = 0 THEN acc
  ELSE MiniChainAcc(p, p.minifat[cur + 1], fuel - 1, Append(acc, cur))
MiniChain(p, start) == MiniChainAcc(p, start, Len(p.minifat) + 1, <<>>)

RECURSIVE TrimMini(_)
TrimMini(p) ==
  IF p.minifat # <<>> /\ p.minifat[Len(p.minifat)] = FREE
  THEN TrimMini(SetE([p EXCEPT !.minifat = SubSeq(@, 1, Len(@) - 1)], 0, [E(p, 0) EXCEPT !.size = @ - MiniLen]))
  ELSE p
FreeMiniSector(p, m) ==
  LET p1 == [SetMini(p, m, FREE) EXCEPT !.freeMini = Append(@, m)]
      p2 == TrimMini(p1)
  IN [p2 EXCEPT !.freeMini = SelectSeq(@, LAMBDA x : x < Len(p2.minifat))]
RECURSIVE FreeMiniSeq(_, _)
FreeMiniSeq(p, ms) == IF ms = <<>> THEN p ELSE FreeMiniSeq(FreeMiniSector(p, Head(ms)), Tail(ms))
FreeMiniChain(p, start) == FreeMiniSeq(p, MiniChain(p, start))

RECURSIVE GrowMini(_, _, _)
GrowMini(p, start, n) ==
  LET ch == MiniChain(p, start) IN
  IF Len(ch) >= n THEN [p |-> p, start |-> start]
  ELSE LET r == AllocMini(p) IN
       IF start = ENDC THEN GrowMini(r.p, r.id, n)
       ELSE GrowMini(SetMini(r.p, ch[Len(ch)], r.id), start, n)

MiniSetLen(p, start, nbytes) ==
  LET n == CeilDiv(nbytes, MiniLen)
      ch == MiniChain(p, start)
  IN IF n = 0 THEN [p |-> (IF ch = <<>> THEN p ELSE FreeMiniSeq(p, ch)), start |-> start]
     ELSE IF n <= Len(ch)
     THEN (IF n < Len(ch)
           THEN [p |-> FreeMiniSeq(SetMini(p, ch[n], ENDC), SubSeq(ch, n + 1, Len(ch))), start |-> start]
           ELSE [p |-> p, start |-> start])
     ELSE GrowMini(p, start, n)

---------------------------------------------------------------------------
(* Directory (directory.rs)                                                  *)
FirstUnalloc(p) ==
  LET free == {i \in 0..(Len(p.slots) - 1) : E(p, i).kind = KUnalloc} IN
  IF free = {} THEN -1 ELSE CHOOSE i \in free : \A j \in free : i <= j

(* allocate_dir_entry: [p, id] *)
AllocDirEntry(p) ==
  LET f == FirstUnalloc(p) IN
  IF f # -1 THEN [p |-> p, id |-> f]
  ELSE LET p1 == IF Len(p.slots) % DirPer = 0
                 THEN LET q == ExtendChain(p, p.dirStart).p IN
                      IF DirCount THEN [q EXCEPT !.hdr.ndir = Len(Chain(q, q.dirStart))] ELSE q
                 ELSE p
       IN [p |-> [p1 EXCEPT !.slots = Append(@, Unalloc)], id |-> Len(p1.slots)]

RECURSIVE Descend(_, _, _, _)
(* path of slot ids visited looking for `name` from `cur` *)
Descend(p, name, cur, acc) ==
  IF cur = NO THEN acc
  ELSE LET acc2 == Append(acc, cur) IN
       IF NameEq(E(p, cur).name, name) THEN acc2
       ELSE IF NameLess(name, E(p, cur).name) THEN Descend(p, name, E(p, cur).left, acc2)
       ELSE Descend(p, name, E(p, cur).right, acc2)

FindChild(p, parent, name) ==
  LET path == Descend(p, name, E(p, parent).child, <<>>) IN
  IF path # <<>> /\ NameEq(E(p, path[Len(path)]).name, name) THEN path[Len(path)] ELSE NO

(* insert_dir_entry: [p, id] *)
InsertEntry(p0, parent, name, kind) ==
  LET a == AllocDirEntry(p0)
      p == SetE(a.p, a.id, NewEntry(name, kind))
      path == Descend(p0, name, E(p0, parent).child, <<>>)
  IN IF path = <<>> THEN [p |-> SetE(p, parent, [E(p, parent) EXCEPT !.child = a.id]), id |-> a.id]
     ELSE LET last == path[Len(path)] IN
          [p |-> IF NameLess(name, E(p, last).name)
                 THEN SetE(p, last, [E(p, last) EXCEPT !.left = a.id])
                 ELSE SetE(p, last, [E(p, last) EXCEPT !.right = a.id]),
           id |-> a.id]

RECURSIVE RightmostOf(_, _, _)
RightmostOf(p, par, cur) ==
  IF E(p, cur).right = NO THEN [par |-> par, id |-> cur] ELSE RightmostOf(p, cur, E(p, cur).right)

(* remove_dir_entry: relink, no slot moves, free the slot *)
RemoveEntry(p, parent, name) ==
  LET path == Descend(p, name, E(p, parent).child, <<>>)
      id == path[Len(path)]
      owner == IF Len(path) > 1 THEN path[Len(path) - 1] ELSE parent
      viaChild == Len(path) = 1
      l == E(p, id).left
      r == E(p, id).right
      two == l # NO /\ r # NO
      pr == IF two THEN RightmostOf(p, id, l) ELSE [par |-> NO, id |-> NO]
      p1 == IF two /\ pr.par # id
            THEN LET a == SetE(p, pr.par, [E(p, pr.par) EXCEPT !.right = E(p, pr.id).left])
                 IN SetE(a, pr.id, [E(a, pr.id) EXCEPT !.left = l])
            ELSE p
      p2 == IF two THEN SetE(p1, pr.id, [E(p1, pr.id) EXCEPT !.right = r]) ELSE p1
      repl == IF l = NO THEN r ELSE IF r = NO THEN l ELSE pr.id
      \* entries that move to a new place in the tree are coloured black (Relink::Black): the predecessor's left
      \* child when it is handed to the predecessor's old parent, and the replacement itself
      predLeft == IF two /\ pr.par # id THEN E(p, pr.id).left ELSE NO
      p2b == IF Recolor /\ predLeft # NO THEN SetE(p2, predLeft, [E(p2, predLeft) EXCEPT !.color = BLACK]) ELSE p2
      p2c == IF Recolor /\ repl # NO THEN SetE(p2b, repl, [E(p2b, repl) EXCEPT !.color = BLACK]) ELSE p2b
      p3 == IF viaChild THEN SetE(p2c, parent, [E(p2c, parent) EXCEPT !.child = repl])
            ELSE IF E(p2c, owner).left = id
                 THEN SetE(p2c, owner, [E(p2c, owner) EXCEPT !.left = repl])
                 ELSE SetE(p2c, owner, [E(p2c, owner) EXCEPT !.right = repl])
  IN SetE(p3, id, Unalloc)

---------------------------------------------------------------------------
(* Stream write paths (stream.rs)                                            *)
(* write_data_to_stream(id, off, n): bytes [off, off+n) are written          *)
WriteData(p, id, off, n) ==
  LET e == E(p, id)
      newLen == IF e.size > off + n THEN e.size ELSE off + n
      r == IF e.start = ENDC
           THEN (IF newLen < Cutoff
                 THEN GrowMini(p, ENDC, CeilDiv(off + n, MiniLen))               \* 1a
                 ELSE GrowChain(p, ENDC, CeilDiv(off + n, SectorLen)))           \* 1b
           ELSE IF e.size < Cutoff
           THEN (IF newLen < Cutoff
                 THEN GrowMini(p, e.start, CeilDiv(off + n, MiniLen))            \* 2a
                 ELSE GrowChain(p, ENDC, CeilDiv(off + n, SectorLen)))           \* 2b: migrate
           ELSE GrowChain(p, e.start, CeilDiv(off + n, SectorLen))               \* 3
      q == SetE(r.p, id, [E(r.p, id) EXCEPT !.start = r.start, !.size = newLen])
      \* the chain the stream no longer uses is released AFTER the entry has been updated (since the
      \* repair of the release-before-update order: a failure in between must not leave the entry
      \* pointing into space that is handed out again)
  IN IF n = 0 THEN p
     ELSE IF e.start # ENDC /\ e.size < Cutoff /\ newLen >= Cutoff THEN FreeMiniChain(q, e.start) ELSE q

(* resize_stream(id, newLen) *)
Resize(p, id, newLen) ==
  LET e == E(p, id)
      r == IF e.start = ENDC
           THEN (IF newLen < Cutoff THEN MiniSetLen(p, ENDC, newLen)             \* 1a
                 ELSE ChainSetLen(p, ENDC, newLen))                              \* 1b
           ELSE IF e.size < Cutoff
           THEN (IF newLen = 0 THEN [p |-> p, start |-> ENDC]                                 \* 2a
                 ELSE IF newLen < Cutoff THEN MiniSetLen(p, e.start, newLen)                  \* 2b
                 ELSE LET g == GrowChain(p, ENDC, CeilDiv(e.size, SectorLen))                 \* 2c
                      IN ChainSetLen(g.p, g.start, newLen))
           ELSE (IF newLen = 0 THEN [p |-> p, start |-> ENDC]                                 \* 3a
                 ELSE IF newLen < Cutoff
                 THEN GrowMini(p, ENDC, CeilDiv(newLen, MiniLen))                             \* 3b
                 ELSE ChainSetLen(p, e.start, newLen))                                        \* 3c
      st == IF newLen = 0 /\ e.start = ENDC THEN ENDC ELSE r.start
      q == SetE(r.p, id, [E(r.p, id) EXCEPT !.start = st, !.size = newLen])
      \* release of the old chain, after the entry update (see WriteData)
  IN IF e.start = ENDC THEN q
     ELSE IF e.size < Cutoff
     THEN (IF newLen = 0 \/ newLen >= Cutoff THEN FreeMiniChain(q, e.start) ELSE q)
     ELSE (IF newLen < Cutoff THEN FreeChain(q, e.start) ELSE q)

---------------------------------------------------------------------------
(* Stream bytes (TrackData).  A stream's i-th byte (0-based) lives at        *)
(* Loc: in the (i div SectorLen)-th sector of its chain, or - below the      *)
(* cutoff - in the mini sector of its mini chain, which is a MiniLen-byte    *)
(* slice of the mini stream container's chain.                               *)
IsMini(e) == e.size < Cutoff
Loc(p, mini, chain, i) ==
  IF ~mini THEN <<chain[(i \div SectorLen) + 1], i % SectorLen>>
  ELSE LET m == chain[(i \div MiniLen) + 1]
           c == Chain(p, RootStart(p))
       IN <<c[((m * MiniLen) \div SectorLen) + 1], ((m * MiniLen) % SectorLen) + (i % MiniLen)>>
ByteAt(p, mini, chain, i) == LET l == Loc(p, mini, chain, i) IN p.data[l[1] + 1][l[2] + 1]
ChainOfEntry(p, e) == IF IsMini(e) THEN MiniChain(p, e.start) ELSE Chain(p, e.start)
(* the bytes a reader gets for slot id *)
ReadStream(p, id) ==
  LET e == E(p, id)  ch == ChainOfEntry(p, e) IN
  [i \in 1..e.size |-> ByteAt(p, IsMini(e), ch, i - 1)]
RECURSIVE PutBytes(_, _, _, _, _)
(* bytes from..(from + Len(vals) - 1) of the stream laid over `chain` := vals *)
PutBytes(p, mini, chain, from, vals) ==
  IF vals = <<>> THEN p
  ELSE LET l == Loc(p, mini, chain, from) IN
       PutBytes([p EXCEPT !.data[l[1] + 1][l[2] + 1] = Head(vals)], mini, chain, from + 1, Tail(vals))
Const(n, v) == [i \in 1..n |-> v]

(* write_data_to_stream with its bytes: `tag` is written to [off, off + n)   *)
WriteDataT(p, id, off, n, tag) ==
  LET q == WriteData(p, id, off, n) IN
  IF ~TrackData \/ n = 0 THEN q
  ELSE LET e == E(p, id)
           old == ReadStream(p, id)
           e2 == E(q, id)
           ch2 == ChainOfEntry(q, e2)
           mini2 == IsMini(e2)
       IN IF e.start # ENDC /\ IsMini(e) /\ ~mini2
          THEN \* case 2b: the first `off` bytes are copied into the new regular chain, then the buffer
               PutBytes(PutBytes(q, mini2, ch2, 0, SubSeq(old, 1, off)), mini2, ch2, off, Const(n, tag))
          ELSE PutBytes(q, mini2, ch2, off, Const(n, tag))

(* resize_stream with its bytes *)
ResizeT(p, id, newLen) ==
  LET q == Resize(p, id, newLen) IN
  IF ~TrackData \/ newLen = 0 THEN q
  ELSE LET e == E(p, id)
           old == ReadStream(p, id)
           e2 == E(q, id)
           ch2 == ChainOfEntry(q, e2)
           mini2 == IsMini(e2)
           \* everything the chain held before the call (since dd6be72: the rest of the old final sector AND any
           \* surplus sectors of a chain longer than the length needs; the model's own chains are never longer)
           oldEnd == IF IsMini(e) THEN 0 ELSE Len(Chain(p, e.start)) * SectorLen
       IN IF e.start = ENDC
          THEN (IF mini2 /\ Scrub THEN PutBytes(q, TRUE, ch2, 0, Const(newLen, 0)) ELSE q)          \* 1a: mini sectors are not zeroed when allocated; 1b: new sectors are
          ELSE IF IsMini(e)
          THEN (IF mini2
                THEN (IF newLen > e.size /\ Scrub THEN PutBytes(q, TRUE, ch2, e.size, Const(newLen - e.size, 0)) ELSE q)   \* 2b
                ELSE PutBytes(q, FALSE, ch2, 0, old))                                                  \* 2c: copied, the rest is new zeroed sectors
          ELSE (IF mini2 THEN PutBytes(q, TRUE, ch2, 0, SubSeq(old, 1, newLen))                       \* 3b
                ELSE IF newLen > e.size /\ Scrub
                THEN LET upto == IF newLen < oldEnd THEN newLen ELSE oldEnd IN
                     PutBytes(q, FALSE, ch2, e.size, Const(upto - e.size, 0))                         \* 3c: the rest of the old final sector
                ELSE q)
SetLenT(p, id, n) == IF n = E(p, id).size THEN p ELSE ResizeT(p, id, n)

---------------------------------------------------------------------------
(* Metadata (lib.rs: set_storage_clsid, set_state_bits, set_created_time,    *)
(* set_modified_time, touch; directory.rs: with_dir_entry_mut rewrites the   *)
(* whole entry).  Values are opaque tokens.  The time setters leave stream   *)
(* entries alone; set_storage_clsid on a stream is refused before it gets    *)
(* here (CfbTree decides refusals).                                          *)
SetClsid(p, id, c) == SetE(p, id, [E(p, id) EXCEPT !.clsid = c])
SetBits(p, id, b)  == SetE(p, id, [E(p, id) EXCEPT !.bits = b])
SetCTime(p, id, t) == IF E(p, id).kind = KStream THEN p ELSE SetE(p, id, [E(p, id) EXCEPT !.ct = t])
SetMTime(p, id, t) == IF E(p, id).kind = KStream THEN p ELSE SetE(p, id, [E(p, id) EXCEPT !.mt = t])
(* insert_dir_entry stamps a new STORAGE with the current time (both fields); streams get zero times *)
CreateStorageAt(p, parent, name, now) ==
  LET r == InsertEntry(p, parent, name, KStorage) IN SetE(r.p, r.id, [E(r.p, r.id) EXCEPT !.ct = now, !.mt = now])
MetaOf(e) == <<e.color, e.clsid, e.bits, e.ct, e.mt>>

---------------------------------------------------------------------------
(* API level, in terms of (parent slot, name)                                *)
CreateStorage(p, parent, name) == InsertEntry(p, parent, name, KStorage).p
CreateStream(p, parent, name) ==
  LET c == FindChild(p, parent, name) IN
  IF c # NO THEN Resize(p, c, 0)            \* create_stream over an existing stream: set_len(0)
  ELSE InsertEntry(p, parent, name, KStream).p
RemoveStream(p, parent, name) ==
  LET id == FindChild(p, parent, name)
      e == E(p, id)
      q == IF e.size < Cutoff THEN FreeMiniChain(p, e.start) ELSE FreeChain(p, e.start)
  IN RemoveEntry(q, parent, name)
RemoveStorage(p, parent, name) == RemoveEntry(p, parent, name)
(* Stream::set_len does nothing when the length is unchanged *)
SetLen(p, id, n) == IF n = E(p, id).size THEN p ELSE Resize(p, id, n)

(* What open() rebuilds from the image: ascending free lists, directory      *)
(* vector covering every slot of the directory chain                          *)
Reload(p) ==
  LET nslots == DirPer * Len(Chain(p, p.dirStart)) IN
  [p EXCEPT !.free = SelectSeq([i \in 1..Len(p.fat) |-> i - 1], LAMBDA s : p.fat[s + 1] = FREE),
            !.freeMini = SelectSeq([i \in 1..Len(p.minifat) |-> i - 1], LAMBDA m : p.minifat[m + 1] = FREE),
            !.slots = [i \in 1..nslots |-> IF i <= Len(p.slots) THEN p.slots[i] ELSE Unalloc]]

---------------------------------------------------------------------------
(* Case analysis coverage.  Every step of a history falls into a CLASS: the  *)
(* case of the write / resize case analysis it took (1a .. 3c above, refined *)
(* by whether the number of (mini) sectors shrank, stayed or grew) plus the  *)
(* table events it caused (a FAT / DIFAT / MiniFAT / directory / container   *)
(* sector added, free sectors reused or released, MiniFAT trimmed, the file  *)
(* extended) and whether the stream's chain runs backwards somewhere (free   *)
(* lists are LIFO, so reused space is chained in reverse).  MC_Phys prints   *)
(* the classes of every transition of the tiny-geometry graph, Trace_Phys    *)
(* those of every recorded step of the real library: the evidence reports    *)
(* which classes of the model's case analysis real executions reached.       *)
SeqSet(q) == {q[i] : i \in 1..Len(q)}
Units(n, u) == CeilDiv(n, u)
Trend(a, b) == IF b < a THEN "-" ELSE IF b = a THEN "=" ELSE "+"
WriteCaseOf(p, id, off, n) ==
  LET e == E(p, id)
      newLen == IF e.size > off + n THEN e.size ELSE off + n
  IN IF e.start = ENDC THEN (IF newLen < Cutoff THEN "w1a" ELSE "w1b")
     ELSE IF e.size < Cutoff THEN (IF newLen < Cutoff THEN "w2a" \o Trend(Units(e.size, MiniLen), Units(newLen, MiniLen)) ELSE "w2b")
     ELSE "w3" \o Trend(Units(e.size, SectorLen), Units(newLen, SectorLen))
ResizeCaseOf(p, id, newLen) ==
  LET e == E(p, id) IN
  IF newLen = e.size THEN "r0"
  ELSE IF e.start = ENDC THEN (IF newLen < Cutoff THEN "r1a" ELSE "r1b")
  ELSE IF e.size < Cutoff
  THEN (IF newLen = 0 THEN "r2a" ELSE IF newLen < Cutoff THEN "r2b" \o Trend(Units(e.size, MiniLen), Units(newLen, MiniLen)) ELSE "r2c")
  ELSE (IF newLen = 0 THEN "r3a" ELSE IF newLen < Cutoff THEN "r3b" ELSE "r3c" \o Trend(Units(e.size, SectorLen), Units(newLen, SectorLen)))
Backwards(c) == \E i \in 1..(Len(c) - 1) : c[i + 1] < c[i]
AnyBackwards(p) ==
  \E i \in 1..(Len(p.slots) - 1) :
     LET e == E(p, i) IN
     e.kind = KStream /\ e.size > 0 /\ Backwards(IF e.size < Cutoff THEN MiniChain(p, e.start) ELSE Chain(p, e.start))
EventNames == <<"fatsec", "difatsec", "minifatsec", "dirsec", "container", "grow", "reuse", "release", "minireuse", "minirelease",
                "minitrim", "backwards">>
EventHolds(p, q, k) ==
  CASE k = 1 -> Len(q.difat) > Len(p.difat)
    [] k = 2 -> Len(q.difatSecs) > Len(p.difatSecs)
    [] k = 3 -> Len(Chain(q, q.minifatStart)) > Len(Chain(p, p.minifatStart))
    [] k = 4 -> Len(Chain(q, q.dirStart)) > Len(Chain(p, p.dirStart))
    [] k = 5 -> Len(Chain(q, RootStart(q))) > Len(Chain(p, RootStart(p)))
    [] k = 6 -> q.nsec > p.nsec
    [] k = 7 -> SeqSet(p.free) \ SeqSet(q.free) # {}
    [] k = 8 -> SeqSet(q.free) \ SeqSet(p.free) # {}
    [] k = 9 -> \E m \in SeqSet(p.freeMini) : m < Len(p.minifat) /\ p.minifat[m + 1] = FREE /\ m < Len(q.minifat) /\ q.minifat[m + 1] # FREE
    [] k = 10 -> \E m \in 0..(Len(q.minifat) - 1) : q.minifat[m + 1] = FREE /\ p.minifat[m + 1] # FREE
    [] k = 11 -> Len(q.minifat) < Len(p.minifat)
    [] k = 12 -> AnyBackwards(p)
RECURSIVE EventsFrom(_, _, _)
EventsFrom(p, q, k) == IF k > Len(EventNames) THEN ""
                       ELSE (IF EventHolds(p, q, k) THEN "," \o EventNames[k] ELSE "") \o EventsFrom(p, q, k + 1)
(* class of the step p -> q made by operation `what` (a case name or an operation name) *)
StepClass(what, p, q) == what \o EventsFrom(p, q, 1)

---------------------------------------------------------------------------
(* Invariants of the physical state (independent of CfbImage's WF, which     *)
(* MC_Phys also evaluates on the image)                                      *)
FreeListOK(p) ==
  /\ {p.free[i] : i \in 1..Len(p.free)} = {s \in 0..(Len(p.fat) - 1) : p.fat[s + 1] = FREE}
  /\ Len(p.free) = Cardinality({p.free[i] : i \in 1..Len(p.free)})
  /\ {m \in 0..(Len(p.minifat) - 1) : p.minifat[m + 1] = FREE} \subseteq {p.freeMini[i] : i \in 1..Len(p.freeMini)}
CountsOK(p) ==
  /\ Len(p.fat) = p.nsec
  /\ p.hdr.nfat = Len(p.difat)
  /\ p.hdr.ndifat = Len(p.difatSecs)
  /\ p.hdr.nminifat = Len(Chain(p, p.minifatStart))
  /\ (DirCount => p.hdr.ndir = Len(Chain(p, p.dirStart)))
  /\ Len(p.slots) <= DirPer * Len(Chain(p, p.dirStart))
  /\ RootSize(p) = MiniLen * Len(p.minifat)
=============================================================================
