"""Per-property check definitions (file-level family).  Each check builds
its scripts from the generators, has them executed on the real library and
validated by TLC, then classifies the validator's FAIL lines."""
import json
import os
import random
import re
import time

from . import core, gens
from .core import log


# Which validator tags count as a violation of which property's check.  A tag
# outside the set is reported as NOTE (it is some other check's business).
TAGS = {
    "C01": {"C01", "PANIC", "HANG"},
    "C02": {"C02", "OPEN"},
    "C03": {"C03"},
    "C07": {"C01", "C02", "PANIC", "HANG"},
    "C08": {"C01", "C02", "C06", "PANIC", "HANG"},
    "C09": {"C01", "C02", "C10", "PANIC", "HANG", "C03.R7order", "C03.R7names"},
    "C10": {"C10"},
    "C15": {"C15"},
    "C16": {"C16"},
    "C17": {"C17", "C01", "C02", "PANIC"},
    "C18": {"C01", "C02", "C18", "PANIC", "HANG"},
}


def tag_matches(prop, f):
    tags = TAGS[prop]
    return f.tag in tags or f"{f.tag}.{f.rule}" in tags


class Outcome:
    def __init__(self, prop, tier, seed):
        self.prop, self.tier, self.seed = prop, tier, seed
        self.violations = []      # (signature text, replay path)
        self.known = []
        self.notes = []
        self.histories = 0
        self.events = 0
        self.distinct = set()
        self.samples = []
        self.design = {"states": 0, "transitions": 0}
        self.parts = []
        self.t0 = time.time()

    def add_design(self, generated, distinct):
        self.design["states"] += distinct
        self.design["transitions"] += generated


def known_match(known, prop, f, hist, ev):
    """Known findings are matched by a predicate on the failing event and its
    history, not by property id alone."""
    from . import signatures
    for k in known.get("findings", []):
        if k.get("status") != "known" or k.get("property") != prop:
            continue
        pred = getattr(signatures, k["signature"], None)
        if pred and pred(f, hist, ev):
            return k
    return None


def run_batch(out, label, dictname, histories, spec="Trace_File", nshards=None, known=None, driver="drive", keep=None,
              extra_script=None, group_key=None, extra_specs=(), on_result=None, also_own=()):
    """Drive + validate one batch; classify failures for out.prop.  also_own: failure tags this batch additionally counts as
    the property's own (a batch built so that a failure under that tag can only be about this property)."""
    if not histories:
        return
    if len(out.violations) >= 40 and not getattr(out, "replay", False):
        # the verdict is settled many times over (only a broken tree gets here): later batches would add run time -
        # a systematically hanging library costs a watchdog period per case - and nothing else
        out.parts.append({"batch": label, "histories": 0, "skipped": "40 or more violations already reported by earlier batches"})
        return
    res = core.drive_and_validate(f"{out.prop}_{label}", dictname, histories, spec=spec, nshards=nshards, driver=driver,
                                  keep=keep, extra_script=extra_script, group_key=group_key, extra_specs=extra_specs)
    if on_result:
        on_result(res)
    out.histories += len(histories)
    out.events += res["events"]
    for h in histories:
        out.distinct.add(core.script_hash(h))
    if len(out.samples) < 3:
        h = histories[len(histories) // 2]
        # (a sample shows what was run, not all of it: whole layouts - 50,000 directory slots in one C05 case - stay out)
        brief = h["ops"][:12] if "ops" in h else {k: v for k, v in h.items() if k not in ("image", "layout", "flip", "tree")}
        if len(json.dumps(brief)) > 20000:
            brief = json.dumps(brief)[:20000] + " ..."
        out.samples.append({"batch": label, "dict": dictname, "ver": h.get("ver"), "ops": brief})
    out.parts.append({"batch": label, "histories": len(histories), "events": res["events"],
                      "wall_s": round(res["wall"], 1)})
    known = known or core.load_known()
    per_hist = {}
    for f in res["failures"]:
        per_hist.setdefault(f.ghi, []).append(f)
    for ghi, why in res["hangs"]:
        f = core.Failure("HANG", why, -1, -1, 0, "")
        f.ghi = ghi
        per_hist.setdefault(ghi, []).append(f)
    for ghi, fs in sorted(per_hist.items()):
        hist = histories[ghi] if 0 <= ghi < len(histories) else {}
        own = lambda f: tag_matches(out.prop, f) or f.tag in also_own
        mine = [f for f in fs if own(f)]
        others = [f for f in fs if not own(f)]
        for f in others:
            out.notes.append(f"{f.tag}.{f.rule} batch={label} hist={ghi} op={f.oi}")
        if not mine:
            continue
        f = mine[0]
        ev = core.event_of(res, f) if f.shard else None
        k = known_match(known, out.prop, f, hist, ev)
        what = f"{f.tag}.{f.rule} at op {f.oi} of history {hist.get('id', ghi)} [{label}]"
        if k:
            out.known.append((k, what))
            continue
        bundle = [h for h in histories if group_key(h) == group_key(hist)] if group_key and hist else None
        payload = {"property": out.prop, "batch": label, "dict": dictname, "spec": spec, "driver": driver,
                   "extra_specs": list(extra_specs), "bundle": bundle,
                   "failed": [{"tag": x.tag, "rule": x.rule, "op_index": x.oi, "detail": x.detail} for x in mine],
                   "history": hist,
                   "event": {k2: v for k2, v in (ev or {}).items() if k2 not in ("img", "api", "reopen")} if ev else None}
        if len(out.violations) < 60:
            path = core.write_replay(out.prop, f"{label}_{ghi}", payload)
        else:
            path = out.violations[-1][1]       # replay files are written for the first 60 only
        out.violations.append((what, path))


def finish(out, level, rule, assumptions, extra_cov=None):
    # one line per distinct known finding / violation
    seen = set()
    for k, what in out.known:
        key = k["signature"]
        if key in seen:
            continue
        seen.add(key)
        print(f"KNOWN-FINDING: property={out.prop} {k['description']} (e.g. {what})")
    for what, path in out.violations[:20]:
        print(f"VIOLATION property={out.prop} replay={path}  # {what}")
    if len(out.violations) > 20:
        print(f"# ... {len(out.violations) - 20} more violations (replay files written)")
    notes = {}
    for n in out.notes:
        key = n.split(" ")[0]
        notes[key] = notes.get(key, 0) + 1
    for key, cnt in sorted(notes.items()):
        print(f"NOTE other-property {key} x{cnt}")
    cov = {"states": out.design["states"], "transitions": out.design["transitions"],
           "traces_validated_against_impl": out.histories,
           "evaluations": out.events, "distinct_nontrivial": len(out.distinct),
           "rule": rule, "samples": out.samples or [{"none": True}], "batches": out.parts,
           "exhaustive": False, "known_findings_hit": len(out.known), "notes": notes}
    if extra_cov:
        cov.update(extra_cov)
    if level == "model_checking" and (cov["states"] < 1 or cov["transitions"] < 1):
        # the schema wants the fallback keys when the level's own keys are absent
        cov.pop("states"), cov.pop("transitions")
    if not getattr(out, "replay", False):       # a replay never overwrites the evidence of a full run
        core.write_evidence(out.prop, out.tier, out.seed, level, cov, assumptions, time.time() - out.t0,
                            len(out.violations))
    log(f"[{out.prop}] histories={out.histories} events={out.events} violations={len(out.violations)} "
        f"known={len(out.known)} wall={time.time() - out.t0:.1f}s")
    return 1 if out.violations else 0


# ---------------------------------------------------------------------------
# Shared generators for the file-level family

def edges_namespace(out, tier):
    names = ["foo", "FOO", "bar", "a", "bad_colon"]
    maxnodes = 3 if tier == "quick" else 4
    edges, gen, distinct = gens.tlc_edges("MC_Tree", gens.mc_tree_cfg(names, maxnodes, True),
                                          {"DICT": os.path.join(core.DICTDIR, "A.tlc.json")}, f"mct_{out.prop}")
    out.add_design(gen, distinct)
    d = gens.Dict("A")
    hists = []
    for i, e in enumerate(edges):
        ops = gens.concretize(e)
        for o in ops:
            o["heavy"] = False
        ops[-1]["heavy"] = True
        # heavy also on the step before the last, so that C10 can compare bytes
        if len(ops) >= 2:
            ops[-2]["heavy"] = True
        # the last call once more, and the same call on a sibling name below the same parent spelling: whatever the
        # first call was - refused or not - it must not have left anything behind (a cache, a half-made entry) that
        # changes what the next call with the same arguments, or the same parent, answers
        last = ops[-1]
        if "p" in last and "runs" not in last:
            again = dict(last, heavy=False)
            ops.append(again)
            toks = list(last["p"]["t"])
            if toks and toks[-1] not in (".", ".."):
                sib = dict(last, heavy=True, p=dict(last["p"], t=toks[:-1] + ["a" if toks[-1] != "a" else "bar"]))
                ops.append(sib)
        ops += gens.query_battery(d, ["foo", "FOO", "bar", "a"], parents=((), ("foo",)))
        hists.append({"id": f"edge{i}", "ver": 3 if i % 2 == 0 else 4, "heavy": "marked", "ops": ops})
    return hists


def random_batches(seed, tier, n_quick, n_thorough, nops, dicts=("A",), **kw):
    rng = random.Random(seed)
    n = n_quick if tier == "quick" else n_thorough
    out = {}
    for dn in dicts:
        d = gens.Dict(dn)
        hs = []
        for i in range(n):
            ver = 3 if i % 2 == 0 else 4
            hs.append(gens.random_history(rng, d, ver, nops, f"rnd{dn}{i}", **kw))
        out[dn] = hs
    return out


CLASS_RE = re.compile(r'^<<"CLASS", "([^"]*)">>')


def design_phys(out, maxops, v4, cycles, timeout=3000, invs="InvFree InvCounts InvWF InvAbs NoGrowth InvOpen", what=None, classes=None, data=False,
                meta=False, sizes="{0, 1, 3, 7, 8, 9, 13}"):
    """Exhaustive design-level run of MC_Phys (CfbPhys at tiny geometry).  Its verdict is about the
    model; conformance of the code to the model is what phys_fidelity reports."""
    b = lambda x: "TRUE" if x else "FALSE"
    cfg = f"""SPECIFICATION Spec
CONSTANTS Names = {{"a", "b", "c"}} Sizes = {sizes} MaxOps = {maxops} V4 = {b(v4)} Cycles = {b(cycles)} OldPolicy = FALSE
INVARIANT {invs}
CHECK_DEADLOCK FALSE
"""
    tag = f"mcp_{out.prop}_{maxops}_{int(v4)}_{int(cycles)}_{len(invs)}_{int(data)}_{int(meta)}"
    path = os.path.join(core.SPEC, f"_{tag}.cfg")
    open(path, "w").write(cfg)
    try:
        env = {"CLASSES": "1"} if classes is not None else {}
        if data:
            env["DATA"] = "1"
        if meta:
            env["META"] = "1"
        rc, lines = core.run_tlc("MC_Phys.tla", os.path.basename(path), env,
                                 os.path.join(core.WORK, f"md_{tag}"), workers=6, timeout=timeout, xmx="8g", deque=False)
    finally:
        os.remove(path)
    if not core.tlc_ok(lines):
        raise core.ToolError("MC_Phys (design level) failed:\n" + "\n".join(lines[-30:]))
    if classes is not None:
        for ln in lines:
            m = CLASS_RE.match(ln)
            if m:
                classes.add(m.group(1))
    gen, distinct = core.tlc_stats(lines)
    out.add_design(gen, distinct)
    out.parts.append({"design": f"MC_Phys tiny geometry MaxOps={maxops} V4={v4} cycles={cycles}: " +
                                (what or "WF (R1-R8), free lists, counters, lengths refinement, NoGrowth, acceptance by the open-path model (InvOpen)"),
                      "invariants": invs, "states": distinct, "transitions": gen})


def design_rb(out, k, depth, timeout=1500):
    """MC_RB: every sibling tree the strict reader accepts (search tree, no red-red edge; red entries, any shape) over up to k
    names x CfbPhys's InsertEntry / RemoveEntry: the class is closed under the library's mutations (C04 / C03 R7, design level)."""
    cfg = f"SPECIFICATION Spec\nCONSTANTS K = {k} Depth = {depth}\nINVARIANT InClass\nCHECK_DEADLOCK FALSE\n"
    tag = f"mcrb_{out.prop}_{k}_{depth}"
    path = os.path.join(core.SPEC, f"_{tag}.cfg")
    open(path, "w").write(cfg)
    try:
        rc, lines = core.run_tlc("MC_RB.tla", os.path.basename(path), {}, os.path.join(core.WORK, f"md_{tag}"), workers=4, timeout=timeout,
                                 xmx="6g", deque=False)
    finally:
        os.remove(path)
    if not core.tlc_ok(lines):
        raise core.ToolError("MC_RB (design level) failed:\n" + "\n".join(lines[-30:]))
    gen, distinct = core.tlc_stats(lines)
    init = 0
    for ln in lines:
        m = re.search(r"initial states: (\d+) distinct", ln)
        if m:
            init = int(m.group(1))
    out.add_design(gen, distinct)
    out.parts.append({"design": f"MC_RB K={k} Depth={depth}: every sibling tree a strict reader accepts over up to {k} names (every subset x every search-tree "
                                f"shape x every colouring without a red-red edge: {init} trees) x insertion / removal of every name by CfbPhys's InsertEntry / "
                                "RemoveEntry; InClass (search tree, every live slot reachable once, no red-red edge, freed slots blank) holds after every mutation",
                      "invariants": "InClass", "states": distinct, "transitions": gen, "trees_in_class": init})


def design_api(out, maxops, v4=False, maxnodes=4, timeout=2400, invs="InvAllowed InvNoEffect InvAbs"):
    """MC_Api: the API layer (CfbApi = lib.rs's checks, lookups and loops on top of CfbPhys) refines the abstract model CfbTree at
    tiny geometry: allowed result kinds (C01 / C09), refusals without effect (C10), abstraction incl. metadata (C01 / C17)."""
    cfg = f"""SPECIFICATION Spec
CONSTANT Dict <- MCDict
CONSTANTS Names = {{"foo", "FOO", "bar", "a", "bad_colon"}} MaxNodes = {maxnodes} MaxOps = {maxops}
CONSTANTS SectorLen = 4 MiniLen = 2 Cutoff = 8 FatPer = 4 DirPer = 2 DifatHdr = 1 DirCount = {"TRUE" if v4 else "FALSE"}
CONSTRAINT Bound
INVARIANT {invs}
CHECK_DEADLOCK FALSE
"""
    tag = f"mcapi_{out.prop}_{maxops}_{int(v4)}"
    path = os.path.join(core.SPEC, f"_{tag}.cfg")
    open(path, "w").write(cfg)
    try:
        rc, lines = core.run_tlc("MC_Api.tla", os.path.basename(path), {"DICT": os.path.join(core.DICTDIR, "A.tlc.json")},
                                 os.path.join(core.WORK, f"md_{tag}"), workers=6, timeout=timeout, xmx="8g", deque=False)
    finally:
        os.remove(path)
    if not core.tlc_ok(lines):
        raise core.ToolError("MC_Api (design level) failed:\n" + "\n".join(lines[-30:]))
    gen, distinct = core.tlc_stats(lines)
    out.add_design(gen, distinct)
    out.parts.append({"design": f"MC_Api MaxOps={maxops} V4={v4}: CfbApi (lib.rs's path normalisation, lookups, argument checks in the code's order, the loops of "
                                "create_storage_all / remove_storage_all, setters - on CfbPhys at tiny geometry) refines CfbTree: every call of the alphabet (16 methods "
                                "x paths with '.', '..', a case variant, an invalid name, nested and stream parents) in every reachable state gets an allowed result "
                                "kind, a refusal leaves the physical state untouched, the physical state abstracts to the abstract tree (names, kinds, lengths, metadata)",
                      "invariants": invs, "states": distinct, "transitions": gen})


def design_chainio(out, seclen=3, nsec=2, maxfaults=2, timeout=900):
    """CfbChainIO: the transfer loops below the stream buffer (read_exact / write_all over Chain::read / write over one backend call
    per sector piece) against a backend that returns any short count, Interrupted, or a failure (C18 / C12 / C13 design level)."""
    cfg = (f"SPECIFICATION Spec\nCONSTANTS SecLen = {seclen} NSec = {nsec} MaxFaults = {maxfaults} AdvanceFirst = FALSE MultiSector = FALSE "
           "LateRemember = FALSE\nINVARIANT ReadExact ReadPrefix WriteExact\nCHECK_DEADLOCK FALSE\n")
    tag = f"mccio_{out.prop}_{seclen}_{nsec}_{maxfaults}"
    path = os.path.join(core.SPEC, f"_{tag}.cfg")
    open(path, "w").write(cfg)
    try:
        rc, lines = core.run_tlc("CfbChainIO.tla", os.path.basename(path), {}, os.path.join(core.WORK, f"md_{tag}"), workers=4, timeout=timeout,
                                 xmx="4g", deque=False)
    finally:
        os.remove(path)
    if not core.tlc_ok(lines):
        raise core.ToolError("CfbChainIO (design level) failed:\n" + "\n".join(lines[-30:]))
    gen, distinct = core.tlc_stats(lines)
    out.add_design(gen, distinct)
    out.parts.append({"design": f"CfbChainIO SecLen={seclen} NSec={nsec} MaxFaults={maxfaults}: every transfer (position, length) x every splitting of it by the "
                                "backend (short counts, Interrupted, failure): a completed read delivers exactly the range, the filled prefix is right at every "
                                "moment, a completed write puts every byte once and allocates exactly the sectors it needs",
                      "invariants": "ReadExact ReadPrefix WriteExact", "states": distinct, "transitions": gen})


class Fidelity:
    """Collects Trace_Phys output: how many images the physical model predicted exactly, and where it did not."""

    def __init__(self):
        self.lines = []
        self.tiny = set()

    def summary(self, prop):
        compared = sum(int(m.group(1)) for m in (re.match(r'^<<"COMPARED", (\d+)>>', ln) for ln in self.lines) if m)
        drift = [ln for ln in self.lines if ln.startswith('<<"DRIFT"')]
        kinds = {}
        for ln in drift:
            k = ln.split('"')[3]
            kinds[k] = kinds.get(k, 0) + 1
        for k, n in sorted(kinds.items()):
            print(f"SPEC-DRIFT {prop} CfbPhys does not predict the image: {k} x{n}")
        foreign = sum(int(m.group(1)) for m in (re.match(r'^<<"FOREIGN", (\d+)>>', ln) for ln in self.lines) if m)
        refusals = sum(int(m.group(1)) for m in (re.match(r'^<<"REFUSALS", (\d+)>>', ln) for ln in self.lines) if m)
        res = {"images_predicted_exactly_by_CfbPhys": compared - len(set(ln.split(",")[2] for ln in drift if '"api"' not in ln)), "images_compared": compared,
               "histories_followed_from_a_foreign_start_image": foreign,
               "refusals_whose_error_kind_CfbApi_predicted": refusals - kinds.get("api", 0), "refusals_compared_with_CfbApi": refusals, "drift": kinds}
        real = {}
        for ln in self.lines:
            m = CLASS_RE.match(ln)
            if m:
                c = m.group(1).split(":", 1)[1]
                real[c] = real.get(c, 0) + 1
        if real or self.tiny:
            tiny = self.tiny
            res["case_analysis_coverage"] = {
                "what": "classes of CfbPhys's case analysis (write / resize case x change of the sector count x table events: FAT, DIFAT, MiniFAT, "
                        "directory or container sector added, sectors reused / released, MiniFAT trimmed, a chain running backwards); "
                        "tiny = every transition of the exhaustive tiny-geometry graph (MC_Phys), real = every recorded step of the real library",
                "classes_at_tiny_geometry": len(tiny), "classes_in_real_executions": len(real),
                "tiny_classes_reached_by_real_executions": len(set(real) & tiny),
                "tiny_classes_not_reached": sorted(tiny - set(real))[:60],
                "real_only_classes": len(set(real) - tiny),
                "steps_classified": sum(real.values())}
        res.update(self.open_summary(prop))
        return res

    def open_summary(self, prop):
        """Trace_Open output: verdicts of the open-path model (CfbOpen) against the library's."""
        tot = [0, 0, 0, 0]
        seen = False
        for ln in self.lines:
            m = re.match(r'^<<"OPENED", (\d+), (\d+), (\d+), (\d+)>>', ln)
            if m:
                seen = True
                for i in range(4):
                    tot[i] += int(m.group(i + 1))
        if not seen:
            return {}
        od = [ln for ln in self.lines if ln.startswith('<<"ODRIFT"')]
        kinds = {}
        for ln in od:
            parts = ln.split('"')
            k = f"{parts[3]} {parts[5]} {parts[7]}"
            kinds[k] = kinds.get(k, 0) + 1
        for k, n in sorted(kinds.items())[:12]:
            print(f"SPEC-DRIFT {prop} CfbOpen and the library disagree about an image: {k} x{n}")
        return {"open_verdicts_compared_with_CfbOpen": tot[0], "open_verdicts_not_judged_by_the_model": tot[1],
                "model_accepts": tot[2], "model_rejects": tot[3], "open_drift": kinds}


FILE_ASSUME = [
    "the Rust harness only drives and records; verdicts come from TLC evaluating CfbTree/CfbImage on the recorded events",
    "trusted base: harness raw decoder (field extraction + RLE), dictionaries generated from Python's Unicode tables, TLC",
    "histories are bounded (lengths and alphabets in coverage.batches); real geometry V3 and V4",
]


def check_c01(tier, seed):
    out = Outcome("C01", tier, seed)
    design_phys(out, 4 if tier == "quick" else 5, False, False, invs="InvData InvAbs", data=True,
                what="refinement of the abstract tree by the physical model including stream bytes (InvAbs, InvData)")
    # ... and of the abstract tree by the API layer on top of it (nested storages, every path spelling, every refusal kind)
    design_api(out, 4 if tier == "quick" else 5, invs="InvAllowed InvAbs")
    run_batch(out, "edges", "A", edges_namespace(out, tier))
    from . import dirchecks
    run_batch(out, "shapes", "A", dirchecks.shape_histories(out, tier))
    # whole-stream writes larger than the default stream buffer (1 MiB): several write-backs through one handle
    big = []
    for ver in (3, 4):
        f = gens.Fill()
        sp = gens.sp
        ops = [{"op": "create_stream", "p": sp(["a"]), "heavy": False},
               {"op": "write", "p": sp(["a"]), "off": 0, "runs": [[f.next(), 1048576], [f.next(), 1048576], [f.next(), 300001]], "heavy": False},
               {"op": "read", "p": sp(["a"]), "heavy": False},
               {"op": "write", "p": sp(["a"]), "off": 1000000, "runs": [[f.next(), 1200000]], "heavy": False},
               {"op": "read", "p": sp(["a"]), "heavy": ver == 4}]
        big.append({"id": f"bigwrite_v{ver}", "ver": ver, "heavy": "marked", "ops": ops})
    run_batch(out, "bigwrite", "A", big)
    # histories that cross the geometry thresholds (second FAT sector, 109th FAT sector, DIFAT sectors, directory and
    # MiniFAT sectors): results and panics are judged here, the images by C02 / C03
    run_batch(out, "thresholds", "A", gens.threshold_histories(tier, seed))
    # the histories other checks generate for their own purposes (C15 cycles: reuse of released space in every
    # order, reversed chains, container fill levels; C08 shrink / grow grids) are API histories like any other:
    # every result and listing in them is judged here (those checks only judge sizes / zero fill)
    step = 2 if tier == "quick" else 1
    borrowed = [dict(h, heavy="last") for h in gens.c15_templates(tier)[::step]] + gens.c08_templates(tier)[::2 * step]
    run_batch(out, "borrowed", "A", borrowed)
    for dn, hs in random_batches(seed, tier, 60, 600, 40, dicts=("A", "B")).items():
        run_batch(out, f"random{dn}", dn, hs)
    # listing order on the alphabets where the CFB order (upper-cased code units, shorter first) differs from
    # other plausible orders: ASCII punctuation around the letters, caseless / non-BMP characters
    for dn, hs in random_batches(seed + 13, tier, 24, 300, 40, dicts=("G", "D")).items():
        run_batch(out, f"order{dn}", dn, hs)
    # names at the 31-unit limit counted in UTF-16 units (surrogate pairs count twice), NULs and high-BMP characters
    # (with a reopen - strict and permissive in turn - every eighth step or so: "on files created fresh or reopened" - what a
    # reader does to an unusual name shows only in the continuation on the reopened file)
    for dn, hs in random_batches(seed + 17, tier, 24, 200, 30, dicts=("E", "C", "X"), reopen_p=0.12).items():
        run_batch(out, f"names{dn}", dn, hs)
    # ... and, name by name: create it (as a stream and as a storage holding a stream), reopen permissively, look it up, try to
    # create it again, reopen strictly, look it up again
    sp = gens.sp
    for dn in ("C", "E", "D", "X"):
        d = gens.Dict(dn)
        hs = []
        for i, n in enumerate(d.valid):
            other = d.valid[(i + 1) % len(d.valid)]
            if d.key(other) == d.key(n):
                continue
            ops = [{"op": "create_stream", "p": sp([n])}, {"op": "write", "p": sp([n]), "off": 0, "runs": [[7, 100]]},
                   {"op": "create_storage", "p": sp([other])}, {"op": "create_stream", "p": sp([other, n])},
                   {"op": "reopen", "mode": "permissive"}, {"op": "entry", "p": sp([n])}, {"op": "create_new_stream", "p": sp([n])},
                   {"op": "read", "p": sp([n])}, {"op": "create_new_stream", "p": sp([other, n])},
                   {"op": "reopen", "mode": "strict"}, {"op": "entry", "p": sp([other, n])}, {"op": "remove_stream", "p": sp([n])},
                   {"op": "exists", "p": sp([n])}]
            hs.append({"id": f"name_{dn}_{n}", "ver": 3 + i % 2, "heavy": "all", "ops": ops})
        run_batch(out, f"each-name{dn}", dn, hs)
    return finish(out, "model_checking",
                  "G1b: every transition of the MC_Tree state graph replayed on the real library (last two steps heavy + query battery); "
                  "every transition of the MC_Dir sibling-tree graph (every reachable tree shape x every insertion / removal, 5 keys quick / 6 thorough); "
                  "G2: seeded random histories; distinct = distinct op scripts",
                  FILE_ASSUME)


def check_c02(tier, seed):
    out = Outcome("C02", tier, seed)
    rng = random.Random(seed)
    run_batch(out, "thresholds", "A", gens.threshold_histories(tier, seed))
    for dn, hs in random_batches(seed + 1, tier, 50, 500, 40, dicts=("A",), reopen_p=0.06).items():
        run_batch(out, f"forks{dn}", dn, gens.with_forks(rng, hs, 0.7))
    # names whose on-disk form is not their character count: supplementary-plane characters (two code units
    # each), high BMP, NUL inside the name, 31-unit boundary
    for dn, hs in random_batches(seed + 11, tier, 16, 200, 30, dicts=("C", "D", "E", "B", "G", "X"), reopen_p=0.06).items():
        run_batch(out, f"names{dn}", dn, hs)
    fid = Fidelity()
    for v4 in (False, True):
        design_phys(out, 4 if tier == "quick" else 5, v4, False, invs="InvOpen InvWF",
                    what="every image the write-path model produces is accepted by the open-path model (CfbOpen), strictly and permissively, with the same tables")
    run_batch(out, "edges", "A", edges_namespace(out, tier), extra_specs=("Trace_Open",), keep=fid.lines)
    return finish(out, "model_checking",
                  "after EVERY operation the backing bytes are copied without flush and reopened strictly and permissively; "
                  "both dumps must equal the model tree (hence the live view). Forked histories continue on the reopened file. "
                  "Threshold histories add directory / FAT / MiniFAT / first and second DIFAT sectors (V3, 7.3 MB and 15.6 MB) at real geometry; design level: InvOpen of MC_Phys "
                  "(write-path model x open-path model, exhaustive at tiny geometry); fidelity: Trace_Open compares CfbOpen's verdict with the library's on every image",
                  FILE_ASSUME + ["crash points are operation boundaries at which no handle holds pending data (all driver ops flush)"],
                  {"fidelity": fid.open_summary("C02")})


def check_c03(tier, seed):
    out = Outcome("C03", tier, seed)
    fid = Fidelity()
    for v4 in (False, True):
        design_phys(out, 4 if tier == "quick" else 5, v4, False, classes=fid.tiny)
    run_batch(out, "thresholds", "A", gens.threshold_histories(tier, seed))     # (CfbPhys follows chains sector by sector: too slow at 30,000 sectors)
    run_batch(out, "fatboundary", "A", gens.fat_boundary_histories(tier), extra_specs=("Trace_Phys",), keep=fid.lines)
    # the cycle histories of C15 reach the release / reuse / trim classes of the case analysis systematically
    run_batch(out, "cycles", "A", [dict(h, heavy="last") for h in gens.c15_templates(tier)[::3]], extra_specs=("Trace_Phys",), keep=fid.lines)
    for dn, hs in random_batches(seed + 2, tier, 50, 500, 40, dicts=("A", "B", "D")).items():
        run_batch(out, f"random{dn}", dn, hs, extra_specs=("Trace_Phys",), keep=fid.lines)
    # R7 (search tree under CFB order) on the alphabets where CFB order differs from other plausible orders:
    # ASCII punctuation between the two letter cases, boundary lengths in UTF-16 units, NUL / high-BMP characters
    for dn, hs in random_batches(seed + 12, tier, 16, 200, 30, dicts=("G", "E", "C")).items():
        run_batch(out, f"order{dn}", dn, hs)
    run_batch(out, "edges", "A", edges_namespace(out, tier), extra_specs=("Trace_Phys",), keep=fid.lines)
    # images produced through the path-based constructors: a real file, created by cfb::create(path) where an older, longer
    # file lies (what is left of it must not be part of the image: R1, file length = whole sectors of THIS file), and plain files
    hs = []
    for i, h in enumerate(random_batches(seed + 21, tier, 8, 60, 25, dicts=("A",), reopen_p=0.08)["A"]):
        hs.append(dict(h, ver=4 if i % 2 == 0 else 3, backend={"kind": "path" if i % 2 == 0 else "file", "chunks": []}))
    run_batch(out, "files", "A", hs)
    return finish(out, "model_checking",
                  "WF(img) (rules R1..R8 of spec/CfbImage.tla) evaluated by TLC on the independent raw decode of the image after every heavy event; "
                  "design level: the same rules are invariants of MC_Phys (CfbPhys = transcription of the allocator / mini allocator / directory / stream write paths, "
                  "exhaustive at tiny geometry, reaching FAT, DIFAT, directory and MiniFAT growth); fidelity: Trace_Phys replays the recorded histories through CfbPhys "
                  "at real geometry and compares every predicted table with the image",
                  FILE_ASSUME, {"fidelity": fid.summary("C03")})


def c10_counterfactual(out, tier):
    """C10, second half, by its own definition: 'every subsequently observable result the same AS IF THE CALL HAD NOT BEEN MADE'.
    Every MC_Tree edge whose last call L the library refuses is run twice: H + [L, L, S] and H + [S], S being the same method on a
    sibling name below the same parent spelling (and, for the first run, L itself a second time).  What S answers must not depend
    on whether the refused L was made before it: a difference is reported whatever the abstract model thinks of either answer
    (a cache filled by the refused call, a half-made entry, a cursor that moved)."""
    names = ["foo", "FOO", "bar", "a", "bad_colon"]
    edges, gen, distinct = gens.tlc_edges("MC_Tree", gens.mc_tree_cfg(names, 3 if tier == "quick" else 4, True),
                                          {"DICT": os.path.join(core.DICTDIR, "A.tlc.json")}, f"mct_cf_{out.prop}")
    hists, pairs = [], []
    for i, e in enumerate(edges):
        ops = gens.concretize(e)
        last = ops[-1]
        if "p" not in last or "runs" in last or last["op"] in ("write", "set_len"):
            continue
        toks = list(last["p"]["t"])
        if not toks or toks[-1] in (".", ".."):
            continue
        for o in ops:
            o["heavy"] = False
        for sname in ("a", "bar", "FOO"):
            if sname == toks[-1]:
                continue
            S = dict(last, p=dict(last["p"], t=toks[:-1] + [sname]))
            ver = 3 if i % 2 == 0 else 4
            a = {"id": f"cfA{i}_{sname}", "ver": ver, "heavy": "none", "ops": [dict(o) for o in ops] + [dict(last), dict(S)]}
            b = {"id": f"cfB{i}_{sname}", "ver": ver, "heavy": "none", "ops": [dict(o) for o in ops[:-1]] + [dict(S)]}
            pairs.append((len(hists), len(hists) + 1, len(ops) - 1))
            hists += [a, b]
            break
    got = {}

    def grab(res):
        for si, sp, tp, gidx in res["jobs"]:
            try:
                for ln in open(tp):
                    ev = json.loads(ln)
                    if ev.get("ev") == "op" and 0 <= ev.get("hi", -1) < len(gidx):
                        got.setdefault(gidx[ev["hi"]], {})[ev["oi"]] = ev.get("res")
            except OSError:
                pass
    run_batch(out, "counterfactual", "A", hists, on_result=grab)
    nref = 0
    for ia, ib, li in pairs:
        ra, rb = got.get(ia, {}), got.get(ib, {})
        L1, L2, SA, SB = ra.get(li), ra.get(li + 1), ra.get(li + 2), rb.get(li)
        if not (L1 and SA and SB) or L1.get("k") != "err" or L1.get("e") not in ("NotFound", "AlreadyExists", "InvalidInput"):
            continue
        nref += 1
        strip = lambda r: {k: v for k, v in (r or {}).items() if k != "msg"}
        why = None
        if strip(SA) != strip(SB):
            why = f"after the refused call a later call answers {strip(SA)} instead of {strip(SB)}"
        elif L2 and strip(L2) != strip(L1):
            why = f"the refused call answers {strip(L2)} when made again (first: {strip(L1)})"
        if why:
            what = f"C10.as-if-not-made at op {li} of history {hists[ia]['id']} [counterfactual]: {why}"
            payload = {"property": out.prop, "batch": "counterfactual", "dict": "A", "spec": "Trace_File", "driver": "drive", "extra_specs": [],
                       "bundle": None, "failed": [{"tag": "C10", "rule": "as-if-not-made", "op_index": li, "detail": why}], "history": hists[ia],
                       "history_without_the_refused_call": hists[ib], "event": None}
            path = core.write_replay(out.prop, f"counterfactual_{ia}", payload) if len(out.violations) < 60 else out.violations[-1][1]
            out.violations.append((what, path))
    out.parts.append({"counterfactual": "pairs of runs with / without a refused call, the later call's answers compared", "pairs": len(pairs),
                      "pairs_whose_call_was_refused": nref})


def check_c10(tier, seed):
    out = Outcome("C10", tier, seed)
    # design level: the API layer's checks all precede its effects, also in the loops of create_storage_all / remove_storage_all
    design_api(out, 4 if tier == "quick" else 5)
    if tier != "quick":
        design_api(out, 4, v4=True)
    fid = Fidelity()
    run_batch(out, "edges", "A", edges_namespace(out, tier), extra_specs=("Trace_Phys",), keep=fid.lines)
    for dn, hs in random_batches(seed + 3, tier, 60, 500, 40, dicts=("A", "E")).items():
        run_batch(out, f"random{dn}", dn, hs, extra_specs=("Trace_Phys",) if dn == "A" else (), keep=fid.lines)
    out.c10_fid = fid
    c10_counterfactual(out, tier)
    # refusals of the recursive calls under non-canonical spellings: components that '..' cancels again must not be created
    # (or removed) on the way to a refusal further along the path
    sp = gens.sp
    hs = []
    for ver in (3, 4):
        base = [{"op": "create_stream", "p": sp(["foo"]), "heavy": False}, {"op": "create_storage", "p": sp(["bar"]), "heavy": False},
                {"op": "create_stream", "p": sp(["bar", "a"]), "heavy": True}]
        for i, toks in enumerate([["k1", "..", "foo", "k2"], ["k1", "bad_colon", "..", "k2"], ["k1", "..", "bad_colon"], ["k1", "k2", "..", "..", "foo", "k3"],
                                  ["bar", "k1", "..", "a", "k2"], ["k1", ".", "..", "..", "k2"], ["bar", "..", "k1", "..", "..", "k2"], ["k1", "..", "bar", "a"]]):
            for lead, trail in ((True, False), (False, True)):
                ops = [dict(o) for o in base] + [{"op": "create_storage_all", "p": sp(toks, lead, trail), "heavy": True},
                                                 {"op": "exists", "p": sp(["k1"]), "heavy": False},
                                                 {"op": "remove_storage_all", "p": sp(toks, lead, trail), "heavy": True},
                                                 {"op": "create_storage", "p": sp(toks, lead, trail), "heavy": True},
                                                 {"op": "create_stream", "p": sp(toks, lead, trail), "heavy": True}]
                hs.append({"id": f"csa_v{ver}_{i}_{int(lead)}", "ver": ver, "heavy": "marked", "ops": ops})
    run_batch(out, "recursive_spellings", "A", hs)
    # refused seeks on a handle holding unflushed data: bytes and position must not change
    from . import hgens
    rng = random.Random(seed + 33)
    # (these scripts consist of refused calls, each bracketed by position / length / read observations: what an observation right
    # after a refused call answers is C10's own business - "every subsequently observable result the same" -, whatever rule of the
    # handle validator states it)
    run_batch(out, "refused_seeks", "A", hgens.refused_seek_histories(tier), spec="Trace_Handle", driver="hdrive", also_own=("C06",))
    hs = []
    for i in range(60 if tier == "quick" else 600):
        h = hgens.random_handle_history(rng, f"hs{i}", 3 + i % 2, hgens.CONFIGS[i % len(hgens.CONFIGS)], 40, rng.choice([None, 100, 5000]))
        h["hash"] = True
        hs.append(h)
    run_batch(out, "seeks", "A", hs, spec="Trace_Handle", driver="hdrive")
    # refusals on files written by others: entries that carry tolerated deviations are normalised in
    # memory; a refused call must not write the normalised form back
    from . import imagechecks
    for c in [x for x in imagechecks.contents(tier) if x["id"] in ("c4_mixed", "c5_sibs")]:
        d = gens.Dict(c["dict"])
        byid = {n["id"]: n for n in c["nodes"]}

        def path(n):
            p = []
            while n:
                p.append(byid[n]["name"])
                n = byid[n]["parent"]
            return p[::-1]
        refusals = []
        for n in c["nodes"]:
            pth = gens.sp(path(n["id"]))
            if n["kind"] == "stream":
                refusals += [{"op": "set_clsid", "p": pth, "v": "r1"}, {"op": "remove_storage", "p": pth}, {"op": "create_new_stream", "p": pth},
                             {"op": "create_storage", "p": pth}, {"op": "read_storage", "p": pth}]
            else:
                refusals += [{"op": "remove_stream", "p": pth}, {"op": "create_storage", "p": pth}, {"op": "create_stream", "p": pth},
                             {"op": "open_stream", "p": pth}]
        refusals += [{"op": "remove_storage", "p": gens.sp([])}, {"op": "set_bits", "p": gens.sp(["nope"] if "nope" in d.tlc else ["zz", "zz"]), "v": "r1"}]
        for o in refusals:
            o["heavy"] = False
        for ver in (3, 4):
            devs = imagechecks.tlc_deviations(out, c, ver, 1, 1, 1, 1, seed, False, f"c10_{c['id']}_v{ver}")
            hs = [{"id": f"devref_{c['id']}_v{ver}_{i}:{D['dev']}", "ver": ver, "heavy": "marked", "layout": D["lay"], "tree": D["tree"],
                   "open_mode": "permissive", "expect": "deviation", "ops": refusals} for i, D in enumerate(devs)]
            run_batch(out, f"deviated_{c['id']}_v{ver}", c["dict"], hs)
    return finish(out, "model_checking",
                  "refusals on TLC-generated foreign files carrying tolerated deviations (bytes unchanged); refused seeks on handles with pending data (Trace_Handle: image hash and position unchanged); every call the model refuses (NotFound / AlreadyExists / InvalidInput) must leave the image hash unchanged and the "
                  "following events must validate against the unchanged model state; refusal x state coverage comes from the MC_Tree graph; a call that is "
                  "refused although the model lets it succeed is held to the same rule; design level: InvNoEffect of MC_Api (CfbApi, the API layer on CfbPhys: every "
                  "check precedes every effect, also inside the loops of create_storage_all / remove_storage_all); fidelity: the error kind of every recorded refusal "
                  "against CfbApi's check order (Trace_Phys)",
                  FILE_ASSUME, {"fidelity": out.c10_fid.summary("C10")})


def check_c08(tier, seed):
    out = Outcome("C08", tier, seed)
    # design level: CfbPhys with the bytes of every sector in the state (tiny geometry, exhaustive): every stream reads
    # back the abstract bytes - zeros where set_len added them, whatever the reused (mini) sectors held before
    for v4 in (False, True):
        design_phys(out, 4 if tier == "quick" else 5, v4, False, invs="InvData ZeroExposure InvFree", data=True,
                    what="stream bytes tracked per sector: InvData (every stream reads back the abstract bytes), ZeroExposure")
    run_batch(out, "templates", "A", gens.c08_templates(tier))
    hs = random_batches(seed + 5, tier, 40, 400, 50, dicts=("A",), meta_p=0.0, reopen_p=0.02,
                        sizes=[0, 1, 63, 64, 65, 100, 511, 512, 513, 4095, 4096, 4097, 5000, 8191, 8192, 8200])["A"]
    run_batch(out, "random", "A", hs)
    # the same under a backend that transfers a few bytes at a time: zero filling must not rely on full writes
    hs2 = [dict(h, id=h["id"] + "_chunked", backend={"kind": "mem", "chunks": [[7], [1, -1], [512, 3]][i % 3]}) for i, h in enumerate(hs[::2])]
    run_batch(out, "random-chunked", "A", hs2)
    # through one long-lived handle (window filled before the shrink), judged by the handle model
    from . import hgens
    run_batch(out, "handle", "A", hgens.c08_handle_histories(tier) + hgens.setlen_within_unit_histories(tier) + hgens.dirty_growth_histories(tier),
              spec="Trace_Handle", driver="hdrive")
    # files written by others: growth into the surplus sectors of an over-long chain
    from . import imagechecks
    run_batch(out, "surplus", "A", imagechecks.surplus_histories(out, tier, seed))
    imagechecks.machinery_errors(out)
    # growth on a real file made by cfb::create(path) where an older, longer file (20,000 bytes of 0xAB) lay: whatever that
    # file held must not come back as stream data when sectors are appended
    sp = gens.sp
    hs = []
    for i, (first, grown) in enumerate([(0, 5000), (0, 20000), (100, 4096), (3000, 9000), (4096, 30000), (5000, 70000)]):
        ops = [{"op": "create_stream", "p": sp(["a"]), "heavy": False}]
        if first:
            ops.append({"op": "write", "p": sp(["a"]), "off": 0, "runs": [[7, first]], "heavy": False})
        ops += [{"op": "set_len", "p": sp(["a"]), "n": grown, "heavy": True}, {"op": "read", "p": sp(["a"]), "heavy": False},
                {"op": "create_stream", "p": sp(["bar"]), "heavy": False}, {"op": "set_len", "p": sp(["bar"]), "n": grown + 4096, "heavy": True},
                {"op": "read", "p": sp(["bar"]), "heavy": False}]
        hs.append({"id": f"pathgrow{i}", "ver": 4, "heavy": "marked", "ops": ops, "backend": {"kind": "path", "chunks": []}})
    run_batch(out, "file-over-older-file", "A", hs)
    return finish(out, "model_checking",
                  "design level: MC_Phys with the bytes of every sector in the state (InvData, ZeroExposure; exhaustive at tiny geometry); "
                  "CfbTree.SetLen extends with a zero run; all writes use fresh non-zero fill bytes so stale data is a mismatch in api / Abs(img) / reopen dumps. "
                  "T1 write-shrink-grow triples, T2 reuse after remove/shrink (with/without pinned mini-stream tail), T3 across migrations, T4 cut and growth inside the same final (mini) sector (file level and through one handle)",
                  FILE_ASSUME)


def check_c15(tier, seed):
    out = Outcome("C15", tier, seed)
    fid = Fidelity()
    design_phys(out, 2 if tier == "quick" else 3, False, True)
    hs = gens.c15_templates(tier)
    run_batch(out, "cycles", "A", hs, extra_specs=("Trace_Phys",), keep=fid.lines)
    return finish(out, "model_checking",
                  "prefix + 4 repetitions of a cycle that is net-zero on the model tree (checked); file length after repetitions 3 and 4 must equal the length after repetition 2; "
                  "design level: MC_Phys in cycle mode (every prefix up to the bound x cycle templates x sizes, NoGrowth invariant) at tiny geometry; "
                  "fidelity: Trace_Phys predicts the image after every repetition",
                  FILE_ASSUME + ["repetition 2 may still grow (containers created in repetition 1 capture freed sectors); only later growth is a leak"],
                  {"fidelity": fid.summary("C15")})


def check_c17(tier, seed):
    out = Outcome("C17", tier, seed)
    # design level: CfbPhys with the metadata setters in the alphabet (tiny geometry, exhaustive): every entry carries exactly
    # the CLSID, state bits and times of the abstract history through slot reuse, relinking, directory growth, overwrite and reopen
    design_phys(out, 5 if tier == "quick" else 6, False, False, invs="InvFree InvCounts InvWF InvAbs InvMeta InvOpen", meta=True,
                sizes="{0, 3, 9}" if tier == "quick" else "{0, 9}",
                what="metadata refinement (InvMeta): CLSID, state bits, creation / modification times of every entry equal the abstract history's; "
                     "streams nil / zero; freed slots blank; with WF, lengths refinement and acceptance by the open-path model")
    if tier != "quick":
        design_phys(out, 5, True, False, invs="InvFree InvCounts InvWF InvAbs InvMeta InvOpen", meta=True, sizes="{0, 3, 9}",
                    what="metadata refinement (InvMeta), version 4")
    fid = Fidelity()
    run_batch(out, "meta", "A", gens.c17_histories(tier, seed), extra_specs=("Trace_Phys",), keep=fid.lines)
    run_batch(out, "setter-after-removal", "A", gens.c17_setter_after_removal(tier), extra_specs=("Trace_Phys",), keep=fid.lines)
    hs = random_batches(seed + 6, tier, 30, 300, 40, dicts=("A",), meta_p=0.3)["A"]
    run_batch(out, "random", "A", hs, extra_specs=("Trace_Phys",), keep=fid.lines)
    return finish(out, "model_checking",
                  "setters / getters against CfbTree metadata; expected FILETIME quantisation from a Python big-integer table (values.json); "
                  "targets placed around directory-sector boundaries; both reopen modes; design level: InvMeta of MC_Phys (CfbPhys with the setters, "
                  "exhaustive at tiny geometry); fidelity: Trace_Phys predicts colour, CLSID, state bits and times of every directory slot of every recorded image",
                  FILE_ASSUME + ["numeric time conversion is decided by table lookup for a finite instant dictionary, not by TLC arithmetic"],
                  {"fidelity": fid.summary("C17")})


def check_c07(tier, seed):
    out = Outcome("C07", tier, seed)
    rng = random.Random(seed)
    d = gens.Dict("A")
    n = 60 if tier == "quick" else 600
    hs = [gens.c07_random(rng, d, 3 if i % 2 == 0 else 4, f"hnd{i}") for i in range(n)]
    run_batch(out, "random", "A", hs)
    from . import dirchecks
    dirchecks.c07_edges(out, tier)
    foreign_handle_batches(out, tier, seed)
    # structural mutation at the geometry thresholds (a second directory sector, a second MiniFAT sector whose tail is
    # released again): what one removal or shrink does to the tables must leave every other entry and stream intact
    run_batch(out, "thresholds", "A", [h for h in gens.threshold_histories(tier, seed) if "difat" not in h["id"] and "fatgrow" not in h["id"]])
    # files written by others in which an EMPTY stream's start field names a sector another stream owns: whatever is done to the
    # empty stream (through handles: write, set_len, removal, re-creation) must leave the owner alone
    from . import imagechecks
    es = imagechecks.emptystart_histories(out, tier, seed)
    run_batch(out, "emptystart", "A", es if tier != "quick" else es[::2])
    return finish(out, "model_checking",
                  "handles held open across structural mutation of OTHER entries, then used (library-written files, TLC-generated foreign layouts with red-black "
                  "trees, and layouts carrying tolerated deviations opened permissively); full api / Abs(img) / reopen equality after every step",
                  FILE_ASSUME + ["a handle's own stream is never removed or re-created while it is open; one handle per stream"])


def foreign_handle_batches(out, tier, seed):
    """Handles on files written by others (Gen_Layout) and on files carrying tolerated deviations
    (Gen_Deviate): siblings are removed / created around open handles, then the handles write."""
    import concurrent.futures as cf
    from . import imagechecks as ic
    cs = [c for c in ic.contents(tier) if c["id"] in ("c5_sibs", "c6_minis", "c12_punct", "c4_mixed")]

    def script(c, d, k, deviated):
        byid = {n["id"]: n for n in c["nodes"]}

        def path(n):
            p = []
            while n:
                p.append(byid[n]["name"])
                n = byid[n]["parent"]
            return p[::-1]
        f = gens.Fill()
        f.n = 200
        streams = [n for n in c["nodes"] if n["kind"] == "stream"]
        others = [n for n in c["nodes"] if not any(m["parent"] == n["id"] for m in c["nodes"])]
        if not streams:
            return [{"op": "flush", "heavy": True}]
        held = [streams[(k + j) % len(streams)] for j in range(min(2, len(streams)))]
        ops = [{"op": "open_stream", "p": gens.sp(path(h["id"])), "h": f"h{j}", "heavy": False} for j, h in enumerate(held)]
        heldids = {h["id"] for h in held}
        used = {n["name"] for n in c["nodes"]}
        fresh = [x for x in d.valid if d.key(x) not in {d.key(u) for u in used}]
        for n in others:
            if n["id"] in heldids:
                continue
            ops.append({"op": "remove_stream" if n["kind"] == "stream" else "remove_storage", "p": gens.sp(path(n["id"])), "heavy": True})
            ops.append({"op": "h_write", "h": "h0", "off": 0, "runs": [[f.next(), 70]], "heavy": True})
        if fresh:
            ops.append({"op": "create_stream", "p": gens.sp([fresh[k % len(fresh)]]), "heavy": False})
            ops.append({"op": "write", "p": gens.sp([fresh[k % len(fresh)]]), "off": 0, "runs": [[f.next(), 5000]], "heavy": True})
        ops.append({"op": "h_write", "h": "h0", "off": 10, "runs": [[f.next(), 4200]], "heavy": True})
        if len(held) > 1:
            ops.append({"op": "h_set_len", "h": "h1", "n": 700 + 64 * k, "heavy": True})
            ops.append({"op": "h_read", "h": "h1", "heavy": False})
        ops.append({"op": "h_read", "h": "h0", "heavy": False})
        return ops
    jobs = [(c, ver) for c in cs for ver in (3, 4)]
    nlay = 12 if tier == "quick" else 120

    def gen(j):
        c, ver = j
        Ls = ic.tlc_layouts(out, c, ver, 1, 1, 1, "simulate", nlay, seed + 11, f"c07_{c['id']}_v{ver}")
        Ds = ic.tlc_deviations(out, c, ver, 1, 1, 1, 1, seed + 12, False, f"c07d_{c['id']}_v{ver}") if c["id"] in ("c4_mixed", "c6_minis") else []
        return Ls, Ds
    by_dict = {}
    with cf.ThreadPoolExecutor(max_workers=6) as ex:
        for (c, ver), (Ls, Ds) in zip(jobs, ex.map(gen, jobs)):
            d = gens.Dict(c["dict"])
            for i, L in enumerate(Ls):
                by_dict.setdefault(c["dict"], []).append(
                    {"id": f"fh_{c['id']}_v{ver}_{i}", "ver": ver, "heavy": "marked", "layout": L["lay"], "tree": L["tree"],
                     "open_mode": "permissive" if i % 2 else "strict", "ops": script(c, d, i, False)})
            for i, D in enumerate(Ds):
                by_dict.setdefault(c["dict"], []).append(
                    {"id": f"dh_{c['id']}_v{ver}_{i}:{D['dev']}", "ver": ver, "heavy": "marked", "layout": D["lay"], "tree": D["tree"],
                     "open_mode": "permissive", "expect": "deviation", "ops": script(c, d, i, True)})
    for dn, hs in sorted(by_dict.items()):
        run_batch(out, f"foreign{dn}", dn, hs)


def check_c09(tier, seed):
    out = Outcome("C09", tier, seed)
    # design level: the API layer's path normalisation, case-insensitive lookups and name validation against the abstract model
    design_api(out, 3 if tier == "quick" else 5, invs="InvAllowed InvNoEffect InvAbs")
    for dn, hs in random_batches(seed + 7, tier, 30, 300, 40, dicts=("A", "B", "C", "D", "E", "G", "X"), deep=False).items():
        run_batch(out, f"random{dn}", dn, hs)
    run_batch(out, "edges", "A", edges_namespace(out, tier))
    from . import dirchecks
    dirchecks.c09_edges(out, tier)
    return finish(out, "model_checking",
                  "names validated / folded / ordered by CfbTree from dictionary unit sequences (computed in TLA+); path spellings normalised by the model",
                  FILE_ASSUME + ["exceptional upper-casing characters are excluded from the dictionaries (no independent source for the historical CFB case table)"])


CHECKS = {"C01": check_c01, "C02": check_c02, "C03": check_c03, "C07": check_c07, "C08": check_c08, "C09": check_c09,
          "C10": check_c10, "C15": check_c15, "C17": check_c17}
