"""Per-property check definitions (file-level family).  Each check builds
its scripts from the generators, has them executed on the real library and
validated by TLC, then classifies the validator's FAIL lines."""
import json
import os
import random
import time

from . import core, gens
from .core import log


# Which validator tags count as a violation of which property's check.  A tag
# outside the set is reported as NOTE (it is some other check's business).
TAGS = {
    "C01": {"C01", "PANIC", "HANG"},
    "C02": {"C02", "OPEN"},
    "C03": {"C03"},
    "C07": {"C01", "C02", "PANIC", "HANG"},
    "C08": {"C01", "C02", "PANIC", "HANG"},
    "C09": {"C01", "C02", "C10", "PANIC", "HANG", "C03.R7order", "C03.R7names"},
    "C10": {"C10", "C01.result"},
    "C16": {"C16"},
    "C17": {"C17", "C01", "C02", "PANIC"},
    "C18": {"C01", "C02", "C18", "PANIC", "HANG"},
}


def tag_matches(prop, f):
    tags = TAGS[prop]
    return f.tag in tags or f"{f.tag}.{f.rule}" in tags


class Outcome:
    def __init__(self, prop, tier, seed):
        self.prop, self.tier, self.seed = prop, tier, seed
        self.violations = []      # (signature text, replay path)
        self.known = []
        self.notes = []
        self.histories = 0
        self.events = 0
        self.distinct = set()
        self.samples = []
        self.design = {"states": 0, "transitions": 0}
        self.parts = []
        self.t0 = time.time()

    def add_design(self, generated, distinct):
        self.design["states"] += distinct
        self.design["transitions"] += generated


def known_match(known, prop, f, hist, ev):
    """Known findings are matched by a predicate on the failing event and its
    history, not by property id alone."""
    from . import signatures
    for k in known.get("findings", []):
        if k.get("status") != "known" or k.get("property") != prop:
            continue
        pred = getattr(signatures, k["signature"], None)
        if pred and pred(f, hist, ev):
            return k
    return None


def run_batch(out, label, dictname, histories, spec="Trace_File", nshards=None, known=None):
    """Drive + validate one batch; classify failures for out.prop."""
    if not histories:
        return
    res = core.drive_and_validate(f"{out.prop}_{label}", dictname, histories, spec=spec, nshards=nshards)
    out.histories += len(histories)
    out.events += res["events"]
    for h in histories:
        out.distinct.add(core.script_hash(h))
    if len(out.samples) < 3:
        h = histories[len(histories) // 2]
        out.samples.append({"batch": label, "dict": dictname, "ver": h.get("ver"), "ops": h["ops"][:12]})
    out.parts.append({"batch": label, "histories": len(histories), "events": res["events"],
                      "wall_s": round(res["wall"], 1)})
    known = known or core.load_known()
    per_hist = {}
    for f in res["failures"]:
        per_hist.setdefault(f.ghi, []).append(f)
    for ghi, why in res["hangs"]:
        f = core.Failure("HANG", why, -1, -1, 0, "")
        f.ghi = ghi
        per_hist.setdefault(ghi, []).append(f)
    for ghi, fs in sorted(per_hist.items()):
        hist = histories[ghi] if 0 <= ghi < len(histories) else {}
        mine = [f for f in fs if tag_matches(out.prop, f)]
        others = [f for f in fs if not tag_matches(out.prop, f)]
        for f in others:
            out.notes.append(f"{f.tag}.{f.rule} batch={label} hist={ghi} op={f.oi}")
        if not mine:
            continue
        f = mine[0]
        ev = core.event_of(res, f) if f.shard else None
        k = known_match(known, out.prop, f, hist, ev)
        what = f"{f.tag}.{f.rule} at op {f.oi} of history {hist.get('id', ghi)} [{label}]"
        if k:
            out.known.append((k, what))
            continue
        payload = {"property": out.prop, "batch": label, "dict": dictname, "spec": spec,
                   "failed": [{"tag": x.tag, "rule": x.rule, "op_index": x.oi, "detail": x.detail} for x in mine],
                   "history": hist,
                   "event": {k2: v for k2, v in (ev or {}).items() if k2 not in ("img", "api", "reopen")} if ev else None}
        path = core.write_replay(out.prop, f"{label}_{ghi}", payload)
        out.violations.append((what, path))


def finish(out, level, rule, assumptions, extra_cov=None):
    # one line per distinct known finding / violation
    seen = set()
    for k, what in out.known:
        key = k["signature"]
        if key in seen:
            continue
        seen.add(key)
        print(f"KNOWN-FINDING: property={out.prop} {k['description']} (e.g. {what})")
    for what, path in out.violations[:20]:
        print(f"VIOLATION property={out.prop} replay={path}  # {what}")
    if len(out.violations) > 20:
        print(f"# ... {len(out.violations) - 20} more violations (replay files written)")
    notes = {}
    for n in out.notes:
        key = n.split(" ")[0]
        notes[key] = notes.get(key, 0) + 1
    for key, cnt in sorted(notes.items()):
        print(f"NOTE other-property {key} x{cnt}")
    cov = {"states": out.design["states"], "transitions": out.design["transitions"],
           "traces_validated_against_impl": out.histories,
           "evaluations": out.events, "distinct_nontrivial": len(out.distinct),
           "rule": rule, "samples": out.samples or [{"none": True}], "batches": out.parts,
           "exhaustive": False, "known_findings_hit": len(out.known), "notes": notes}
    if extra_cov:
        cov.update(extra_cov)
    if level == "model_checking" and (cov["states"] < 1 or cov["transitions"] < 1):
        # the schema wants the fallback keys when the level's own keys are absent
        cov.pop("states"), cov.pop("transitions")
    core.write_evidence(out.prop, out.tier, out.seed, level, cov, assumptions, time.time() - out.t0,
                        len(out.violations))
    log(f"[{out.prop}] histories={out.histories} events={out.events} violations={len(out.violations)} "
        f"known={len(out.known)} wall={time.time() - out.t0:.1f}s")
    return 1 if out.violations else 0


# ---------------------------------------------------------------------------
# Shared generators for the file-level family

def edges_namespace(out, tier):
    names = ["foo", "FOO", "bar", "a", "bad_colon"]
    maxnodes = 3 if tier == "quick" else 4
    edges, gen, distinct = gens.tlc_edges("MC_Tree", gens.mc_tree_cfg(names, maxnodes, True),
                                          {"DICT": os.path.join(core.DICTDIR, "A.tlc.json")}, f"mct_{out.prop}")
    out.add_design(gen, distinct)
    d = gens.Dict("A")
    hists = []
    for i, e in enumerate(edges):
        ops = gens.concretize(e)
        for o in ops:
            o["heavy"] = False
        ops[-1]["heavy"] = True
        # heavy also on the step before the last, so that C10 can compare bytes
        if len(ops) >= 2:
            ops[-2]["heavy"] = True
        ops += gens.query_battery(d, ["foo", "FOO", "bar", "a"], parents=((), ("foo",)))
        hists.append({"id": f"edge{i}", "ver": 3 if i % 2 == 0 else 4, "heavy": "marked", "ops": ops})
    return hists


def random_batches(seed, tier, n_quick, n_thorough, nops, dicts=("A",), **kw):
    rng = random.Random(seed)
    n = n_quick if tier == "quick" else n_thorough
    out = {}
    for dn in dicts:
        d = gens.Dict(dn)
        hs = []
        for i in range(n):
            ver = 3 if i % 2 == 0 else 4
            hs.append(gens.random_history(rng, d, ver, nops, f"rnd{dn}{i}", **kw))
        out[dn] = hs
    return out


FILE_ASSUME = [
    "the Rust harness only drives and records; verdicts come from TLC evaluating CfbTree/CfbImage on the recorded events",
    "trusted base: harness raw decoder (field extraction + RLE), dictionaries generated from Python's Unicode tables, TLC",
    "histories are bounded (lengths and alphabets in coverage.batches); real geometry V3 and V4",
]


def check_c01(tier, seed):
    out = Outcome("C01", tier, seed)
    run_batch(out, "edges", "A", edges_namespace(out, tier))
    for dn, hs in random_batches(seed, tier, 60, 600, 40, dicts=("A", "B")).items():
        run_batch(out, f"random{dn}", dn, hs)
    return finish(out, "model_checking",
                  "G1b: every transition of the MC_Tree state graph replayed on the real library (last two steps heavy + query battery); "
                  "G2: seeded random histories; distinct = distinct op scripts",
                  FILE_ASSUME)


CHECKS = {"C01": check_c01}
