"""C14: the lock protocol.  Programs are extracted from the real library
(ldrive extract, instrumented RwLock), model checked with TLC (MC_Lock =
CfbLock instantiated with exactly those programs), and real multi-threaded
runs are validated by Trace_Lock."""
import json
import os
import re

from . import core
from .checks import Outcome, run_batch, finish, TAGS, FILE_ASSUME

TAGS.update({"C14": {"C14", "PANIC", "HANG"}})

PROG_RE = re.compile(r'^<<"PROGRAM", "([^"]+)", "([^"]+)", "(.*)">>$')
REF_PROGS = os.path.join(core.SPEC, "lock_programs.json")

L_ASSUME = [
    "lock events come from the cfg(cfb_verif) RwLock wrapper in /repo (src/internal/sync.rs); 'acq' is logged while the guard is held, 'rel' before it is released, order = sequence number under the log mutex",
    "CfbLock models std's futex RwLock as writer-preferring (a shared request is refused while a writer waits); TLC explores every interleaving of the extracted programs for the stated thread and call counts",
    "any number of threads: CfbLockN (a thread holding a guard only releases it) is proved deadlock-free and mutually exclusive for an arbitrary thread set with tlapm (CfbLockN_proofs); MC_Lock checks that CfbLock on the extracted programs refines CfbLockN (PROPERTY Refines) for the model-checked thread counts, and Trace_Lock rejects any recorded request made while a guard is held (NonReentrant)",
    "real-thread runs: a Stream is not Send, so handles stay on the creating thread; readers share &CompoundFile through thread::scope",
]


def extract_programs(out):
    """Runs the extraction histories; returns {role: set(program tuples)} and per-call programs."""
    keep = []
    hs = [{"id": "extract_v3", "mode": "extract", "ver": 3, "maxbuf": 1024}, {"id": "extract_v4", "mode": "extract", "ver": 4}]
    run_batch(out, "extract", "A", hs, spec="Trace_Lock", driver="ldrive", nshards=2, keep=keep)
    progs = {"reader": set(), "handle": set(), "exclusive": set()}
    by_call = {}
    for ln in keep:
        m = PROG_RE.match(ln)
        if m:
            role, name, pj = m.group(1), m.group(2), m.group(3)
            prog = tuple(json.loads(pj.encode().decode("unicode_escape")))
            progs.setdefault(role, set()).add(prog)
            by_call.setdefault(f"{role}:{name}", set()).add(prog)
    return progs, by_call


def sections(prog):
    """A program in which the thread never requests the lock while it holds a guard is a sequence of complete critical sections;
    between two of them the thread holds nothing - the lock state is the one between two calls.  For the lock protocol such a
    program is therefore the same as its sections called one after the other, and the model checker gets the distinct
    sections instead of every concatenation the listings' Iterator methods produce ("RrRrRr" for nth(2)).  A program WITH a
    nested request stays whole."""
    depth, cur, out, nested = 0, [], [], False
    for st in prog:
        if st in ("R", "W"):
            if depth > 0:
                nested = True
            depth += 1
        else:
            depth -= 1
        cur.append(st)
        if depth == 0:
            out.append(tuple(cur))
            cur = []
    if nested or depth != 0 or cur:
        return [tuple(prog)]
    return out or [tuple(prog)]


def mc_lock(out, progs, nreaders, maxcalls, tag, timeout=900):
    """Model checks CfbLock instantiated with the extracted programs."""
    progs = {role: {sec for p in ps for sec in sections(p)} for role, ps in progs.items()}
    wd = core.workdir(f"C14_mc_{tag}")
    pj = os.path.join(wd, "progs.json")
    with open(pj, "w") as f:
        json.dump({"reader": sorted(list(p) for p in progs["reader"]), "handle": sorted(list(p) for p in progs["handle"])}, f)
    cfg = os.path.join(core.SPEC, f"_mc_lock_{tag}.cfg")
    with open(cfg, "w") as f:
        f.write(f"""SPECIFICATION Spec
CONSTANT Readers <- MCReadersN
CONSTANT Handle <- MCHandle
CONSTANT ReaderProgs <- MCReaderProgs
CONSTANT HandleProgs <- MCHandleProgs
CONSTANT MaxCalls = {maxcalls}
CONSTANT NReaders = {nreaders}
INVARIANT MutualExclusion AbsProgress
PROPERTY Termination Refines
CHECK_DEADLOCK TRUE
""")
    try:
        rc, lines = core.run_tlc("MC_Lock.tla", os.path.basename(cfg), {"PROGS": pj}, os.path.join(wd, "md"),
                                 workers=6, timeout=timeout, xmx="6g", deque=False)
    finally:
        os.remove(cfg)
    gen, distinct = core.tlc_stats(lines)
    out.add_design(gen, distinct)
    out.parts.append({"design": f"MC_Lock readers={nreaders} calls={maxcalls} reader_programs={len(progs['reader'])} "
                                f"handle_programs={len(progs['handle'])}", "states": distinct, "transitions": gen})
    if core.tlc_ok(lines):
        return None
    text = "\n".join(lines)
    if "Deadlock reached" in text:
        what = "deadlock"
    elif "is violated" in text:
        what = "invariant-or-property"
    else:
        raise core.ToolError("MC_Lock did not complete:\n" + "\n".join(lines[-30:]))
    return what, lines


def tlaps_lockn():
    """Re-checks the proofs about CfbLockN (any number of threads) with tlapm.  The verdict is about the
    model and does not drive the exit code; it is recorded in the evidence."""
    import shutil
    import subprocess
    wd = core.workdir("C14_tlaps")
    for f in ("CfbLockN.tla", "CfbLockN_proofs.tla"):
        shutil.copy(os.path.join(core.SPEC, f), wd)
    try:
        p = subprocess.run(["timeout", "300", "tlapm", "--threads", "4", "CfbLockN_proofs.tla"], cwd=wd,
                           stdout=subprocess.PIPE, stderr=subprocess.STDOUT, text=True)
        m = re.search(r"All (\d+) obligations? proved", p.stdout)
        return {"tool": "tlapm", "module": "CfbLockN_proofs", "proved": bool(m), "obligations": int(m.group(1)) if m else 0,
                "tail": "" if m else p.stdout[-400:]}
    except Exception as e:   # tlapm missing: say so, do not fail the check
        return {"tool": "tlapm", "proved": False, "error": str(e)}


def check_c14(tier, seed):
    out = Outcome("C14", tier, seed)
    proof = tlaps_lockn()
    if not proof.get("proved"):
        print(f"NOTE C14 tlapm did not re-prove CfbLockN_proofs: {proof}")
    progs, by_call = extract_programs(out)
    if not progs["reader"] or not progs["handle"]:
        raise core.ToolError("program extraction produced nothing")
    extracted = {k: sorted("".join(p) for p in v) for k, v in by_call.items()}
    # fidelity: compare with the committed reference programs
    drift = []
    if os.path.exists(REF_PROGS):
        ref = json.load(open(REF_PROGS))
        for k in sorted(set(ref) | set(extracted)):
            if ref.get(k) != extracted.get(k):
                drift.append(f"{k}: reference {ref.get(k)} extracted {extracted.get(k)}")
        for d in drift[:10]:
            print(f"SPEC-DRIFT C14 lock program {d[:300]}")
    # design level on the extracted programs
    configs = [(2, 2)] if tier == "quick" else [(2, 2), (3, 2), (2, 3)]
    for (nr, mc) in configs:
        bad = mc_lock(out, progs, nr, mc, f"{nr}_{mc}")
        if bad:
            what, lines = bad
            path = core.write_replay("C14", f"mc_lock_{nr}_{mc}", {
                "property": "C14", "kind": "mc_lock", "what": what,
                "programs": {k: sorted("".join(p) for p in v) for k, v in progs.items()},
                "tlc_counterexample": [ln for ln in lines if ln.strip()][-120:]})
            out.violations.append((f"MC_Lock({nr} readers, {mc} calls) on the extracted programs: {what}", path))
            break
    # real threads
    n = 24 if tier == "quick" else 240
    nops = 120 if tier == "quick" else 300
    hs = [{"id": f"thr{i}", "mode": "threads", "ver": 3 + i % 2, "readers": 1 + i % 4, "nops": nops,
           "seed": seed * 1000 + i, "stall_ms": 8000} for i in range(n)]
    run_batch(out, "threads", "A", hs, spec="Trace_Lock", driver="ldrive", nshards=4)
    return finish(out, "model_checking",
                  "lock programs of every read-only method / iterator step / handle operation are extracted from the real library under the instrumented lock, "
                  "CfbLock is model checked (deadlock, termination) on exactly those programs, and real runs of 1-4 reader threads against the handle thread are "
                  "validated by Trace_Lock (NonReentrant, mutual exclusion, hold depth, linearisable lengths, deadlock on stall); distinct = distinct run scripts",
                  L_ASSUME, {"lock_programs": extracted, "spec_drift": drift, "any_n_proof": proof})


LCHECKS = {"C14": check_c14}
