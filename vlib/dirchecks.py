"""Generators driven by the implementation-shaped directory model (CfbDir /
MC_Dir): transition coverage of the sibling-tree state graph - every
reachable tree shape x every insertion / removal (optionally with an open
handle) - turned into scripts for the real library."""
import os

from . import core, gens


def mc_dir_cfg(nkeys, emit, with_handle, view_shape, copy=False, maxops=99):
    ks = ", ".join(str(i) for i in range(1, nkeys + 1))
    b = lambda x: "TRUE" if x else "FALSE"
    return f"""SPECIFICATION Spec
CONSTANTS Keys = {{{ks}}} CopyOnRemove = {b(copy)} Emit = {b(emit)} WithHandle = {b(with_handle)} ViewShape = {b(view_shape)} MaxOps = {maxops}
VIEW View_
CONSTRAINT Bound
ACTION_CONSTRAINT EmitEdge
INVARIANT TreeOK HandleBound
CHECK_DEADLOCK FALSE
"""


def dir_edges(out, nkeys, with_handle, view_shape, tag, maxops=99):
    edges, gen, distinct = gens.tlc_edges("MC_Dir", mc_dir_cfg(nkeys, True, with_handle, view_shape, maxops=maxops), {},
                                          f"mcd_{out.prop}_{tag}", workers=4)
    out.add_design(gen, distinct)
    out.parts.append({"design": f"MC_Dir keys={nkeys} handle={with_handle} view={'shape' if view_shape else 'slots'}",
                      "states": distinct, "transitions": gen})
    return edges


def sorted_names(d, pool):
    """names of `pool` (valid, distinct fold classes) in CFB order"""
    seen, names = set(), []
    for n in pool:
        if n in d.tlc and d.tlc[n]["v"] and d.key(n) not in seen:
            seen.add(d.key(n))
            names.append(n)
    return sorted(names, key=lambda n: (len(d.key(n)), d.key(n)))


POOLS = {
    "A": ["a", "B", "c", "Z", "aa", "AB", "zz", "foo", "bar", "baz", "k1", "k2"],
}


def names_for(dictname, nkeys):
    d = gens.Dict(dictname)
    pool = POOLS.get(dictname) or d.valid
    names = sorted_names(d, pool)
    if len(names) < nkeys:
        names = sorted_names(d, d.valid)
    # spread over the order (mix of lengths)
    step = max(1, len(names) // nkeys)
    pick = names[::step][:nkeys]
    if len(pick) < nkeys:
        pick = names[:nkeys]
    return d, pick


def edge_history(e, names, ver, hid, d, kinds="mixed", use_handle=False, battery=True):
    """ins -> create (stream with a little data, or storage), rem -> matching remove, open -> open_stream."""
    f = gens.Fill()
    ops = []
    kind_of = {}
    for o in e:
        n = names[o["k"] - 1]
        if o["op"] == "ins":
            as_stream = kinds == "stream" or (kinds == "mixed" and o["k"] % 3 != 0)
            if as_stream:
                ops.append({"op": "create_stream", "p": gens.sp([n]), "heavy": False})
                ops.append({"op": "write", "p": gens.sp([n]), "off": 0, "runs": [[f.next(), 10 + o["k"]]], "heavy": False})
                kind_of[n] = "stream"
            else:
                ops.append({"op": "create_storage", "p": gens.sp([n]), "heavy": False})
                kind_of[n] = "storage"
        elif o["op"] == "rem":
            ops.append({"op": "remove_stream" if kind_of.get(n) == "stream" else "remove_storage", "p": gens.sp([n]), "heavy": False})
            kind_of.pop(n, None)
        elif o["op"] == "open":
            ops.append({"op": "open_stream", "p": gens.sp([n]), "h": "h0", "heavy": False})
    ops[-1]["heavy"] = True
    if use_handle and any(o["op"] == "open" for o in e):
        ops.append({"op": "h_read", "h": "h0", "heavy": False})
        ops.append({"op": "h_write", "h": "h0", "off": 3, "runs": [[f.next(), 70]], "heavy": True})
        ops.append({"op": "h_len", "h": "h0", "heavy": False})
        ops.append({"op": "h_set_len", "h": "h0", "n": 5, "heavy": True})
    if battery:
        ops += gens.query_battery(d, names, parents=((),))
        ops.append({"op": "read_storage", "p": gens.sp([]), "heavy": False})
    return {"id": hid, "ver": ver, "heavy": "marked", "ops": ops}


def shape_histories(out, tier, dictname="A", quick_keys=5, thorough_keys=6, kinds="mixed", tag="shape"):
    """Every reachable sibling-tree shape x every insertion / removal."""
    nkeys = quick_keys if tier == "quick" else thorough_keys
    edges = dir_edges(out, nkeys, False, True, f"{tag}{nkeys}")
    d, names = names_for(dictname, nkeys)
    hs = []
    for i, e in enumerate(edges):
        hs.append(edge_history(e, names, 3 if i % 2 == 0 else 4, f"{tag}{i}", d, kinds=kinds))
    return hs


def c07_edges(out, tier):
    """Sibling-tree transitions with one open handle (slot-level view: which slot the handle sits in matters)."""
    from .checks import run_batch
    nkeys = 4 if tier == "quick" else 5
    edges = dir_edges(out, nkeys, True, tier != "quick", f"h{nkeys}") if tier != "quick" else dir_edges(out, 5, True, True, "h5s")
    d, names = names_for("A", 5 if tier == "quick" else nkeys)
    hs = []
    for i, e in enumerate(edges):
        if not any(o["op"] == "open" for o in e):
            continue
        hs.append(edge_history(e, names, 3 if i % 2 == 0 else 4, f"hedge{i}", d, kinds="stream", use_handle=True, battery=False))
    run_batch(out, "handle-edges", "A", hs)


def c09_edges(out, tier):
    from .checks import run_batch
    for dn in ("B", "C", "D", "E", "G"):
        d = gens.Dict(dn)
        if len(sorted_names(d, d.valid)) < 4:
            continue
        nk = min(5 if tier == "quick" else 6, len(sorted_names(d, d.valid)))
        edges = dir_edges(out, nk, False, True, f"c09{dn}{nk}")
        dd, names = names_for(dn, nk)
        hs = [edge_history(e, names, 3 if i % 2 == 0 else 4, f"ord{dn}{i}", dd, kinds="mixed") for i, e in enumerate(edges)]
        if tier == "quick":
            hs = hs[::2]
        run_batch(out, f"order{dn}", dn, hs)
