"""Generators driven by the implementation-shaped directory model (CfbDir)."""


def c07_edges(out, tier):
    pass


def c09_edges(out, tier):
    pass
