"""Signatures of known findings: predicates over (failure, history, event).
A signature identifies the specific input / history shape that fails, so a
different violation of the same property is still reported."""
