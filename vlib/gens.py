"""Script generators.  Scripts are lists of histories; a history is a dict
{id, ver, heavy, ops:[...]} executed by harness/src/bin/drive.rs.

Sources: (G1) the TLA+ specification through TLC (transition coverage of
MC_* instances, printed as EDGE lines), (G2) seeded random drivers shaped to
cross real geometry thresholds, and template grids.  The light-weight shadow
kept by the random driver only biases generation towards meaningful calls;
it never judges anything."""
import json
import os
import random
import re

from . import core

SIZES = [0, 1, 63, 64, 65, 100, 700, 4095, 4096, 4097, 5000, 9000]


def sp(toks, lead=True, trail=False):
    return {"t": list(toks), "lead": lead, "trail": trail}


class Dict:
    def __init__(self, name):
        self.name = name
        self.tlc = json.load(open(os.path.join(core.DICTDIR, f"{name}.tlc.json")))
        self.ids = sorted(self.tlc.keys())
        self.valid = [i for i in self.ids if self.tlc[i]["v"]]
        self.invalid = [i for i in self.ids if not self.tlc[i]["v"]]

    def key(self, i):
        return tuple(self.tlc[i]["u"])

    def variants(self, i):
        return [j for j in self.ids if self.key(j) == self.key(i)]


class Fill:
    """Fresh non-zero fill bytes, never reused within a history."""

    def __init__(self):
        self.n = 0

    def next(self):
        self.n = self.n % 255 + 1
        return self.n

    def runs(self, rng, total):
        if total <= 0:
            return []
        k = rng.choice([1, 1, 2, 3]) if total >= 3 else 1
        cuts = sorted(rng.sample(range(1, total), k - 1)) if k > 1 else []
        out, prev = [], 0
        for c in cuts + [total]:
            out.append([self.next(), c - prev])
            prev = c
        return out


class Shadow:
    """Generation-side shadow of the namespace (bias only)."""

    def __init__(self, d):
        self.d = d
        self.nodes = {(): {"kind": "root", "size": 0}}

    def keypath(self, names):
        return tuple(self.d.key(n) for n in names)

    def storages(self):
        return [k for k, v in self.nodes.items() if v["kind"] != "stream"]

    def streams(self):
        return [k for k, v in self.nodes.items() if v["kind"] == "stream"]

    def children(self, kp):
        return [k for k in self.nodes if len(k) == len(kp) + 1 and k[: len(kp)] == kp]

    def names_of(self, kp):
        return [self.nodes[kp[: i + 1]]["name"] for i in range(len(kp))]


def spell(rng, d, names, fancy=0.3):
    """Spells a name chain as a path: case variants, '.', resolvable '..'."""
    toks = []
    for n in names:
        if rng.random() < fancy:
            n = rng.choice(d.variants(n))
        if rng.random() < fancy / 3:
            toks.append(".")
        if rng.random() < fancy / 4:
            toks += [rng.choice(d.valid), ".."]
        toks.append(n)
    lead = rng.random() > fancy / 2
    trail = rng.random() < fancy / 2
    return sp(toks, lead, trail)


def random_history(rng, d, ver, nops, hid, heavy="all", reopen_p=0.03, meta_p=0.06, sizes=None, max_nodes=14,
                   values=None, deep=True):
    sizes = sizes or SIZES + ([511, 512, 513, 1025] if ver == 3 else [8191, 8192, 8193])
    sh = Shadow(d)
    fill = Fill()
    ops = []
    vals = values or {"clsid": ["nil", "ones", "probe", "r1"], "bits": ["zero", "one", "hi", "max", "r1"],
                      "time": ["epoch", "pre70_50", "y1601", "pre1601", "y2038", "now_ish", "max_tick", "beyond", "epoch_150"]}

    def pick_existing(kind=None):
        ks = [k for k, v in sh.nodes.items() if k != () and (kind is None or v["kind"] == kind)]
        return rng.choice(ks) if ks else None

    def new_child_names():
        par = rng.choice(sh.storages())
        if not deep and len(par) >= 2:
            par = ()
        n = rng.choice(d.valid)
        return par, n

    while len(ops) < nops:
        r = rng.random()
        if r < 0.20:
            par, n = new_child_names()
            kp = par + (d.key(n),)
            op = "create_stream" if rng.random() < 0.7 else "create_new_stream"
            ops.append({"op": op, "p": spell(rng, d, sh.names_of(par) + [n], 0.15)})
            ex = sh.nodes.get(kp)
            if ex is None and len(sh.nodes) < max_nodes:
                sh.nodes[kp] = {"kind": "stream", "size": 0, "name": n}
            elif ex and ex["kind"] == "stream" and op == "create_stream":
                ex["size"] = 0
            if kp in sh.nodes and sh.nodes[kp]["kind"] == "stream" and rng.random() < 0.8:
                sz = rng.choice(sizes)
                if sz > 0:
                    ops.append({"op": "write", "p": sp(sh.names_of(kp)), "off": 0, "runs": fill.runs(rng, sz)})
                    sh.nodes[kp]["size"] = max(sh.nodes[kp]["size"], sz)
        elif r < 0.34:
            kp = pick_existing("stream")
            if kp is None:
                continue
            cur = sh.nodes[kp]["size"]
            off = rng.choice([0, cur, cur // 2, max(0, cur - 1), cur + 1 if rng.random() < 0.1 else cur])
            sz = rng.choice(sizes[1:])
            ops.append({"op": "write", "p": spell(rng, d, sh.names_of(kp), 0.1), "off": off, "runs": fill.runs(rng, sz)})
            if off <= cur:
                sh.nodes[kp]["size"] = max(cur, off + sz)
        elif r < 0.44:
            kp = pick_existing("stream")
            if kp is None:
                continue
            n = rng.choice(sizes + [sh.nodes[kp]["size"] + 1, max(0, sh.nodes[kp]["size"] - 1)])
            ops.append({"op": "set_len", "p": sp(sh.names_of(kp)), "n": n})
            sh.nodes[kp]["size"] = n
        elif r < 0.54:
            par, n = new_child_names()
            kp = par + (d.key(n),)
            if rng.random() < 0.25:
                n2 = rng.choice(d.valid)
                names = sh.names_of(par) + [n, n2]
                ops.append({"op": "create_storage_all", "p": spell(rng, d, names, 0.1)})
                ok = True
                for i in range(len(par), len(names)):
                    k = sh.keypath(names[: i + 1])
                    if k in sh.nodes:
                        if sh.nodes[k]["kind"] == "stream":
                            ok = False
                            break
                if ok and len(sh.nodes) < max_nodes:
                    for i in range(len(par), len(names)):
                        k = sh.keypath(names[: i + 1])
                        sh.nodes.setdefault(k, {"kind": "storage", "size": 0, "name": names[i]})
            else:
                ops.append({"op": "create_storage", "p": spell(rng, d, sh.names_of(par) + [n], 0.15)})
                if kp not in sh.nodes and len(sh.nodes) < max_nodes:
                    sh.nodes[kp] = {"kind": "storage", "size": 0, "name": n}
        elif r < 0.66:
            kp = pick_existing()
            if kp is None:
                continue
            kind = sh.nodes[kp]["kind"]
            q = rng.random()
            if q < 0.1:
                op = "remove_storage_all"
            elif q < 0.2:
                op = "remove_stream" if kind == "storage" else "remove_storage"   # wrong-type refusal
            else:
                op = "remove_stream" if kind == "stream" else "remove_storage"
            ops.append({"op": op, "p": spell(rng, d, sh.names_of(kp), 0.15)})
            if op == "remove_storage_all" and kind == "storage":
                for k in [k for k in sh.nodes if k[: len(kp)] == kp]:
                    del sh.nodes[k]
            elif op == "remove_stream" and kind == "stream":
                del sh.nodes[kp]
            elif op == "remove_storage" and kind == "storage" and not sh.children(kp):
                del sh.nodes[kp]
        elif r < 0.78:
            kp = pick_existing() if rng.random() < 0.8 else None
            names = sh.names_of(kp) if kp else [rng.choice(d.ids)]
            if rng.random() < 0.15:
                names = names + [rng.choice(d.ids)]
            op = rng.choice(["entry", "exists", "is_stream", "is_storage", "read_storage", "walk_storage", "open_stream", "read"])
            ops.append({"op": op, "p": spell(rng, d, names, 0.5)})
        elif r < 0.78 + meta_p:
            kp = pick_existing() if rng.random() < 0.85 else ()
            if kp is None:
                continue
            names = sh.names_of(kp)
            which = rng.choice(["set_clsid", "set_bits", "set_ctime", "set_mtime", "touch"])
            if which == "touch" and kp == ():
                continue
            o = {"op": which, "p": spell(rng, d, names, 0.1)}
            if which != "touch":
                o["v"] = rng.choice(vals[{"set_clsid": "clsid", "set_bits": "bits"}.get(which, "time")])
            ops.append(o)
        elif r < 0.93:
            # refusal attempts
            q = rng.random()
            if q < 0.3 and d.invalid:
                par = rng.choice(sh.storages())
                op = rng.choice(["create_storage", "create_stream", "create_new_stream", "create_storage_all"])
                ops.append({"op": op, "p": sp(sh.names_of(par) + [rng.choice(d.invalid)])})
            elif q < 0.5:
                # missing parent
                ops.append({"op": rng.choice(["create_storage", "create_stream"]),
                            "p": sp([rng.choice(d.valid), rng.choice(d.valid), rng.choice(d.valid)])})
            elif q < 0.7:
                kp = pick_existing("stream")
                if kp:
                    ops.append({"op": rng.choice(["create_storage", "create_stream", "create_storage_all"]),
                                "p": sp(sh.names_of(kp) + [rng.choice(d.valid)])})
            elif q < 0.8:
                ops.append({"op": rng.choice(["create_stream", "remove_storage", "entry", "create_storage"]),
                            "p": sp([".."] if rng.random() < 0.5 else [rng.choice(d.valid), "..", ".."])})
            elif q < 0.9:
                ops.append({"op": rng.choice(["remove_storage", "create_storage", "create_stream", "remove_stream", "set_clsid"]),
                            "p": sp([]), "v": "r1"})
            else:
                kp = pick_existing("stream")
                if kp:
                    ops.append({"op": "set_clsid", "p": sp(sh.names_of(kp)), "v": "r1"})
        elif r < 0.93 + reopen_p:
            ops.append({"op": "reopen", "mode": rng.choice(["strict", "permissive"])})
        else:
            ops.append({"op": "flush"})
    return {"id": hid, "ver": ver, "heavy": heavy, "ops": ops[:nops]}


# ---------------------------------------------------------------------------
# G1: transition coverage out of TLC

EDGE_RE = re.compile(r'^<<"EDGE", "(.*)">>$')


def tlc_edges(spec, cfg_text, env, tag, workers=4, timeout=900):
    """Runs an MC_* generator instance; returns (histories as op lists, generated, distinct)."""
    cfg = os.path.join(core.SPEC, f"_{tag}.cfg")
    with open(cfg, "w") as f:
        f.write(cfg_text)
    try:
        rc, lines = core.run_tlc(f"{spec}.tla", os.path.basename(cfg), env, os.path.join(core.WORK, f"md_{tag}"),
                                 workers=workers, timeout=timeout, xmx="6g", deque=False)
    finally:
        os.remove(cfg)
    if not core.tlc_ok(lines):
        raise core.ToolError(f"{spec} design run failed:\n" + "\n".join(lines[-30:]))
    edges = []
    for ln in lines:
        m = EDGE_RE.match(ln)
        if m:
            s = m.group(1).encode().decode("unicode_escape")
            edges.append(json.loads(s))
    gen, distinct = core.tlc_stats(lines)
    return edges, gen, distinct


def mc_tree_cfg(names, maxnodes, emit):
    ns = ", ".join(f'"{n}"' for n in names)
    return f"""SPECIFICATION Spec
CONSTANT Dict <- MCDict
CONSTANT MaxNodes = {maxnodes}
CONSTANT Names = {{{ns}}}
CONSTANT Emit = {"TRUE" if emit else "FALSE"}
VIEW View
CONSTRAINT Bound
ACTION_CONSTRAINT EmitEdge
INVARIANT InvTree InvSorted InvWalk
PROPERTY RefusalsStutter
CHECK_DEADLOCK FALSE
"""


def concretize(ops, fill=None):
    """Gives every write of a TLC-generated script fresh fill bytes."""
    fill = fill or Fill()
    out = []
    for o in ops:
        o = dict(o)
        if "runs" in o:
            o["runs"] = [[fill.next(), r[1]] for r in o["runs"]]
        out.append(o)
    return out


def query_battery(d, names, parents=((),)):
    """Fixed battery of read-only calls (light events, each judged)."""
    ops = []
    for par in parents:
        for n in names:
            p = sp(list(par) + [n])
            for op in ("exists", "is_stream", "is_storage", "entry", "open_stream", "read_storage"):
                ops.append({"op": op, "p": p, "heavy": False})
    return ops
