"""Script generators.  Scripts are lists of histories; a history is a dict
{id, ver, heavy, ops:[...]} executed by harness/src/bin/drive.rs.

Sources: (G1) the TLA+ specification through TLC (transition coverage of
MC_* instances, printed as EDGE lines), (G2) seeded random drivers shaped to
cross real geometry thresholds, and template grids.  The light-weight shadow
kept by the random driver only biases generation towards meaningful calls;
it never judges anything."""
import json
import os
import random
import re

from . import core

SIZES = [0, 1, 63, 64, 65, 100, 700, 4095, 4096, 4097, 5000, 9000]


def sp(toks, lead=True, trail=False):
    return {"t": list(toks), "lead": lead, "trail": trail}


class Dict:
    def __init__(self, name):
        self.name = name
        self.tlc = json.load(open(os.path.join(core.DICTDIR, f"{name}.tlc.json")))
        self.ids = sorted(self.tlc.keys())
        self.valid = [i for i in self.ids if self.tlc[i]["v"]]
        self.invalid = [i for i in self.ids if not self.tlc[i]["v"]]

    def key(self, i):
        return tuple(self.tlc[i]["u"])

    def variants(self, i):
        return [j for j in self.ids if self.key(j) == self.key(i)]


class Fill:
    """Fresh non-zero fill bytes, never reused within a history."""

    def __init__(self):
        self.n = 0

    def next(self):
        self.n = self.n % 255 + 1
        return self.n

    def runs(self, rng, total):
        if total <= 0:
            return []
        k = rng.choice([1, 1, 2, 3]) if total >= 3 else 1
        cuts = sorted(rng.sample(range(1, total), k - 1)) if k > 1 else []
        out, prev = [], 0
        for c in cuts + [total]:
            out.append([self.next(), c - prev])
            prev = c
        return out


class Shadow:
    """Generation-side shadow of the namespace (bias only)."""

    def __init__(self, d):
        self.d = d
        self.nodes = {(): {"kind": "root", "size": 0}}

    def keypath(self, names):
        return tuple(self.d.key(n) for n in names)

    def storages(self):
        return [k for k, v in self.nodes.items() if v["kind"] != "stream"]

    def streams(self):
        return [k for k, v in self.nodes.items() if v["kind"] == "stream"]

    def children(self, kp):
        return [k for k in self.nodes if len(k) == len(kp) + 1 and k[: len(kp)] == kp]

    def names_of(self, kp):
        return [self.nodes[kp[: i + 1]]["name"] for i in range(len(kp))]


def spell(rng, d, names, fancy=0.3):
    """Spells a name chain as a path: case variants, '.', resolvable '..'."""
    toks = []
    for n in names:
        if rng.random() < fancy:
            n = rng.choice(d.variants(n))
        if rng.random() < fancy / 3:
            toks.append(".")
        if rng.random() < fancy / 4:
            toks += [rng.choice(d.valid), ".."]
        toks.append(n)
    lead = rng.random() > fancy / 2
    trail = rng.random() < fancy / 2
    return sp(toks, lead, trail)


def random_history(rng, d, ver, nops, hid, heavy="all", reopen_p=0.03, meta_p=0.06, sizes=None, max_nodes=14,
                   values=None, deep=True):
    sizes = sizes or SIZES + ([511, 512, 513, 1025] if ver == 3 else [8191, 8192, 8193])
    sh = Shadow(d)
    fill = Fill()
    ops = []
    vals = values or {"clsid": ["nil", "ones", "probe", "r1"], "bits": ["zero", "one", "hi", "max", "r1"],
                      "time": ["epoch", "pre70_50", "y1601", "pre1601", "y2038", "now_ish", "max_tick", "beyond", "epoch_150"]}

    def pick_existing(kind=None):
        ks = [k for k, v in sh.nodes.items() if k != () and (kind is None or v["kind"] == kind)]
        return rng.choice(ks) if ks else None

    def new_child_names():
        par = rng.choice(sh.storages())
        if not deep and len(par) >= 2:
            par = ()
        n = rng.choice(d.valid)
        return par, n

    while len(ops) < nops:
        r = rng.random()
        if r < 0.20:
            par, n = new_child_names()
            kp = par + (d.key(n),)
            op = "create_stream" if rng.random() < 0.7 else "create_new_stream"
            ops.append({"op": op, "p": spell(rng, d, sh.names_of(par) + [n], 0.15)})
            ex = sh.nodes.get(kp)
            if ex is None and len(sh.nodes) < max_nodes:
                sh.nodes[kp] = {"kind": "stream", "size": 0, "name": n}
            elif ex and ex["kind"] == "stream" and op == "create_stream":
                ex["size"] = 0
            if kp in sh.nodes and sh.nodes[kp]["kind"] == "stream" and rng.random() < 0.8:
                sz = rng.choice(sizes)
                if sz > 0:
                    ops.append({"op": "write", "p": sp(sh.names_of(kp)), "off": 0, "runs": fill.runs(rng, sz)})
                    sh.nodes[kp]["size"] = max(sh.nodes[kp]["size"], sz)
        elif r < 0.34:
            kp = pick_existing("stream")
            if kp is None:
                continue
            cur = sh.nodes[kp]["size"]
            off = rng.choice([0, cur, cur // 2, max(0, cur - 1), cur + 1 if rng.random() < 0.1 else cur])
            sz = rng.choice(sizes[1:])
            ops.append({"op": "write", "p": spell(rng, d, sh.names_of(kp), 0.1), "off": off, "runs": fill.runs(rng, sz)})
            if off <= cur:
                sh.nodes[kp]["size"] = max(cur, off + sz)
        elif r < 0.44:
            kp = pick_existing("stream")
            if kp is None:
                continue
            n = rng.choice(sizes + [sh.nodes[kp]["size"] + 1, max(0, sh.nodes[kp]["size"] - 1)])
            ops.append({"op": "set_len", "p": sp(sh.names_of(kp)), "n": n})
            sh.nodes[kp]["size"] = n
        elif r < 0.54:
            par, n = new_child_names()
            kp = par + (d.key(n),)
            if rng.random() < 0.25:
                n2 = rng.choice(d.valid)
                names = sh.names_of(par) + [n, n2]
                ops.append({"op": "create_storage_all", "p": spell(rng, d, names, 0.1)})
                ok = True
                for i in range(len(par), len(names)):
                    k = sh.keypath(names[: i + 1])
                    if k in sh.nodes:
                        if sh.nodes[k]["kind"] == "stream":
                            ok = False
                            break
                if ok and len(sh.nodes) < max_nodes:
                    for i in range(len(par), len(names)):
                        k = sh.keypath(names[: i + 1])
                        sh.nodes.setdefault(k, {"kind": "storage", "size": 0, "name": names[i]})
            else:
                ops.append({"op": "create_storage", "p": spell(rng, d, sh.names_of(par) + [n], 0.15)})
                if kp not in sh.nodes and len(sh.nodes) < max_nodes:
                    sh.nodes[kp] = {"kind": "storage", "size": 0, "name": n}
        elif r < 0.66:
            kp = pick_existing()
            if kp is None:
                continue
            kind = sh.nodes[kp]["kind"]
            q = rng.random()
            if q < 0.03 and sh.storages():
                # the root under a non-canonical spelling (removes every child, never the root, returns Ok)
                st = [k for k in sh.storages() if k != ()]
                toks = (sh.names_of(st[0]) + [".."] * len(st[0])) if st and rng.random() < 0.7 else ["."]
                ops.append({"op": "remove_storage_all", "p": sp(toks, rng.random() < 0.5, rng.random() < 0.3)})
                for k in [k for k in sh.nodes if k != ()]:
                    del sh.nodes[k]
                continue
            if q < 0.1:
                op = "remove_storage_all"
            elif q < 0.2:
                op = "remove_stream" if kind == "storage" else "remove_storage"   # wrong-type refusal
            else:
                op = "remove_stream" if kind == "stream" else "remove_storage"
            ops.append({"op": op, "p": spell(rng, d, sh.names_of(kp), 0.15)})
            if op == "remove_storage_all" and kind == "storage":
                for k in [k for k in sh.nodes if k[: len(kp)] == kp]:
                    del sh.nodes[k]
            elif op == "remove_stream" and kind == "stream":
                del sh.nodes[kp]
            elif op == "remove_storage" and kind == "storage" and not sh.children(kp):
                del sh.nodes[kp]
        elif r < 0.78:
            kp = pick_existing() if rng.random() < 0.8 else None
            names = sh.names_of(kp) if kp else [rng.choice(d.ids)]
            if rng.random() < 0.15:
                names = names + [rng.choice(d.ids)]
            op = rng.choice(["entry", "exists", "is_stream", "is_storage", "read_storage", "walk_storage", "open_stream", "read"])
            ops.append({"op": op, "p": spell(rng, d, names, 0.5)})
        elif r < 0.78 + meta_p:
            kp = pick_existing() if rng.random() < 0.85 else ()
            if kp is None:
                continue
            names = sh.names_of(kp)
            which = rng.choice(["set_clsid", "set_bits", "set_ctime", "set_mtime", "touch"])
            if which == "touch" and kp == ():
                continue
            o = {"op": which, "p": spell(rng, d, names, 0.1)}
            if which != "touch":
                o["v"] = rng.choice(vals[{"set_clsid": "clsid", "set_bits": "bits"}.get(which, "time")])
            ops.append(o)
        elif r < 0.93:
            # refusal attempts
            q = rng.random()
            if q < 0.3 and d.invalid:
                par = rng.choice(sh.storages())
                op = rng.choice(["create_storage", "create_stream", "create_new_stream", "create_storage_all", "create_storage_all"])
                mid = []
                if op == "create_storage_all" and rng.random() < 0.6:
                    # missing valid components before the invalid one: nothing may be created
                    mid = [rng.choice(d.valid) for _ in range(rng.choice([1, 2]))]
                tail = [rng.choice(d.valid)] if op == "create_storage_all" and rng.random() < 0.3 else []
                ops.append({"op": op, "p": sp(sh.names_of(par) + mid + [rng.choice(d.invalid)] + tail)})
            elif q < 0.5:
                # missing parent
                ops.append({"op": rng.choice(["create_storage", "create_stream"]),
                            "p": sp([rng.choice(d.valid), rng.choice(d.valid), rng.choice(d.valid)])})
            elif q < 0.7:
                kp = pick_existing("stream")
                if kp:
                    ops.append({"op": rng.choice(["create_storage", "create_stream", "create_storage_all"]),
                                "p": sp(sh.names_of(kp) + [rng.choice(d.valid)])})
            elif q < 0.8:
                ops.append({"op": rng.choice(["create_stream", "remove_storage", "entry", "create_storage"]),
                            "p": sp([".."] if rng.random() < 0.5 else [rng.choice(d.valid), "..", ".."])})
            elif q < 0.9:
                ops.append({"op": rng.choice(["remove_storage", "create_storage", "create_stream", "remove_stream", "set_clsid"]),
                            "p": sp([]), "v": "r1"})
            else:
                kp = pick_existing("stream")
                if kp:
                    ops.append({"op": "set_clsid", "p": sp(sh.names_of(kp)), "v": "r1"})
        elif r < 0.93 + reopen_p:
            ops.append({"op": "reopen", "mode": rng.choice(["strict", "permissive"])})
        else:
            ops.append({"op": "flush"})
    return {"id": hid, "ver": ver, "heavy": heavy, "ops": ops[:nops]}


# ---------------------------------------------------------------------------
# G1: transition coverage out of TLC

EDGE_RE = re.compile(r'^<<"EDGE", "(.*)">>$')


def tlc_edges(spec, cfg_text, env, tag, workers=4, timeout=900):
    """Runs an MC_* generator instance; returns (histories as op lists, generated, distinct)."""
    cfg = os.path.join(core.SPEC, f"_{tag}.cfg")
    with open(cfg, "w") as f:
        f.write(cfg_text)
    try:
        rc, lines = core.run_tlc(f"{spec}.tla", os.path.basename(cfg), env, os.path.join(core.WORK, f"md_{tag}"),
                                 workers=workers, timeout=timeout, xmx="6g", deque=False)
    finally:
        os.remove(cfg)
    if not core.tlc_ok(lines):
        raise core.ToolError(f"{spec} design run failed:\n" + "\n".join(lines[-30:]))
    edges = []
    for ln in lines:
        m = EDGE_RE.match(ln)
        if m:
            s = m.group(1).encode().decode("unicode_escape")
            edges.append(json.loads(s))
    gen, distinct = core.tlc_stats(lines)
    return edges, gen, distinct


def mc_tree_cfg(names, maxnodes, emit):
    ns = ", ".join(f'"{n}"' for n in names)
    return f"""SPECIFICATION Spec
CONSTANT Dict <- MCDict
CONSTANT MaxNodes = {maxnodes}
CONSTANT Names = {{{ns}}}
CONSTANT Emit = {"TRUE" if emit else "FALSE"}
VIEW View
CONSTRAINT Bound
ACTION_CONSTRAINT EmitEdge
INVARIANT InvTree InvSorted InvWalk
PROPERTY RefusalsStutter
CHECK_DEADLOCK FALSE
"""


def concretize(ops, fill=None):
    """Gives every write of a TLC-generated script fresh fill bytes."""
    fill = fill or Fill()
    out = []
    for o in ops:
        o = dict(o)
        if "runs" in o:
            o["runs"] = [[fill.next(), r[1]] for r in o["runs"]]
        out.append(o)
    return out


def query_battery(d, names, parents=((),)):
    """Fixed battery of read-only calls (light events, each judged)."""
    ops = []
    for par in parents:
        for n in names:
            p = sp(list(par) + [n])
            for op in ("exists", "is_stream", "is_storage", "entry", "open_stream", "read_storage"):
                ops.append({"op": op, "p": p, "heavy": False})
    return ops


# ---------------------------------------------------------------------------
# Shaped histories crossing real geometry thresholds

def threshold_histories(tier, seed):
    """Directory-sector, FAT-sector, MiniFAT-sector and DIFAT-sector (first and second) growth at
    real geometry, each followed by removals, reopen and reuse."""
    rng = random.Random(seed)
    out = []
    pool = ["k1", "k2", "k3", "k4", "k5", "k6", "foo", "bar", "baz", "a", "B", "c", "Z", "aa", "AB", "zz", "quux",
            "stream1", "n31", "n30", "sp", "dot", "dots"]
    for ver in (3, 4):
        # (a) directory growth: V3 4 entries/sector, V4 32 entries/sector
        f = Fill()
        ops = []
        nent = 10 if ver == 3 else 36
        made = []
        # two levels so that 36 distinct names exist
        ops.append({"op": "create_storage", "p": sp(["foo"]), "heavy": True})
        ops.append({"op": "create_storage", "p": sp(["bar"]), "heavy": True})
        parents = [[], ["foo"], ["bar"]]
        i = 0
        while len(made) < nent:
            par = parents[i % 3]
            n = pool[(i // 3) % len(pool)]
            i += 1
            if par == [] and n in ("foo", "bar"):
                continue
            path = par + [n]
            if rng.random() < 0.5:
                ops.append({"op": "create_stream", "p": sp(path)})
                ops.append({"op": "write", "p": sp(path), "off": 0, "runs": f.runs(rng, rng.choice([10, 64, 100, 4096]))})
            else:
                ops.append({"op": "create_storage", "p": sp(path)})
            made.append(path)
            total = len(made) + 3
            per = 4 if ver == 3 else 32
            ops[-1]["heavy"] = (ver == 3) or (total % per in (0, 1, 2)) or len(made) == nent
        ops.append({"op": "reopen", "mode": "strict", "heavy": True})
        for path in made[::3]:
            ops.append({"op": "remove_storage_all", "p": sp(path), "heavy": True})
        ops.append({"op": "create_stream", "p": sp(["zz"]), "heavy": True})
        ops.append({"op": "reopen", "mode": "permissive", "heavy": True})
        out.append({"id": f"dirgrow_v{ver}", "ver": ver, "heavy": "marked", "ops": ops})
        # (a2) the directory grows across sector boundaries AFTER a reopen (the reopened object holds every slot of the
        #      loaded sectors, the creating one only the slots it has used so far)
        ops = []
        for n in pool[:5]:
            ops.append({"op": "create_storage", "p": sp([n]), "heavy": False})
        ops.append({"op": "reopen", "mode": "strict", "heavy": True})
        per = 4 if ver == 3 else 32
        more = [[pool[0], n] for n in pool[1:]] + [[pool[1], n] for n in pool[2:]] + [[pool[2], n] for n in pool[3:]]
        for j, path in enumerate(more[: (2 * per + 6)]):
            ops.append({"op": "create_stream" if j % 3 else "create_storage", "p": sp(path),
                        "heavy": (6 + j + 1) % per in (0, 1, 2) or j == 2 * per + 5})
        ops.append({"op": "reopen", "mode": "permissive", "heavy": True})
        out.append({"id": f"dirgrow_reopened_v{ver}", "ver": ver, "heavy": "marked", "ops": ops})
        # (b) MiniFAT growth: V3 128 entries per MiniFAT sector, V4 1024
        f = Fill()
        ops = []
        nstreams = 4 if ver == 3 else (18 if tier == "thorough" else 3)
        for j in range(nstreams):
            p = sp([pool[j]])
            ops.append({"op": "create_stream", "p": p})
            ops.append({"op": "write", "p": p, "off": 0, "runs": f.runs(rng, 4000), "heavy": True})
        ops.append({"op": "remove_stream", "p": sp([pool[1]]), "heavy": True})
        ops.append({"op": "reopen", "mode": "strict", "heavy": True})
        ops.append({"op": "create_stream", "p": sp(["zz"])})
        ops.append({"op": "write", "p": sp(["zz"]), "off": 0, "runs": f.runs(rng, 3000), "heavy": True})
        ops.append({"op": "set_len", "p": sp([pool[0]]), "n": 5000, "heavy": True})
        ops.append({"op": "set_len", "p": sp([pool[0]]), "n": 100, "heavy": True})
        out.append({"id": f"minifatgrow_v{ver}", "ver": ver, "heavy": "marked", "ops": ops})
        # (b2) the MiniFAT spans two sectors, then the TAIL of the mini stream is freed (the in-memory
        #      MiniFAT is trimmed, the chain is not), then a mini sector is appended again
        f = Fill()
        ops = []
        per_mf = 128 if ver == 3 else 1024
        each = 32 if ver == 3 else 63                      # mini sectors per stream
        n = per_mf // each + 2
        names = (pool + ["f1", "f2", "f3", "f4", "f5", "f6", "f7", "f8"])[:n]
        for nm in names:
            ops.append({"op": "create_stream", "p": sp([nm])})
            ops.append({"op": "write", "p": sp([nm]), "off": 0, "runs": f.runs(rng, each * 64)})
        ops[-1]["heavy"] = True
        for nm in names[-3:][::-1]:
            ops.append({"op": "remove_stream", "p": sp([nm]), "heavy": True})
        ops.append({"op": "create_stream", "p": sp(["zz"])})
        ops.append({"op": "write", "p": sp(["zz"]), "off": 0, "runs": f.runs(rng, 100), "heavy": True})
        ops.append({"op": "write", "p": sp(["zz"]), "off": 100, "runs": f.runs(rng, 64 * each), "heavy": True})
        ops.append({"op": "reopen", "mode": "strict", "heavy": True})
        out.append({"id": f"minifattail_v{ver}", "ver": ver, "heavy": "marked", "ops": ops})
        # (b3) the same with the file closed and reopened between the release of the tail and the new growth: what the
        #      reopened object knows about the MiniFAT chain and the container comes from the image (trimmed MiniFAT,
        #      untrimmed chains)
        ops2 = []
        for o in ops:
            ops2.append(dict(o))
            if o["op"] == "remove_stream" and o["p"]["t"] == [names[-3]]:
                ops2.append({"op": "reopen", "mode": "strict" if ver == 3 else "permissive", "heavy": True})
        out.append({"id": f"minifattail_reopened_v{ver}", "ver": ver, "heavy": "marked", "ops": ops2})
        # (c) FAT growth: V3 128 entries per FAT sector (64 KiB), V4 1024 (4 MiB)
        if ver == 3 or tier == "thorough":
            f = Fill()
            big = 70000 if ver == 3 else 4300000
            ops = [{"op": "create_stream", "p": sp(["a"])},
                   {"op": "write", "p": sp(["a"]), "off": 0, "runs": f.runs(rng, big), "heavy": True},
                   {"op": "create_stream", "p": sp(["B"])},
                   {"op": "write", "p": sp(["B"]), "off": 0, "runs": f.runs(rng, 9000), "heavy": True},
                   {"op": "set_len", "p": sp(["a"]), "n": big // 2, "heavy": True},
                   {"op": "reopen", "mode": "strict", "heavy": True},
                   {"op": "write", "p": sp(["B"]), "off": 9000, "runs": f.runs(rng, big // 3), "heavy": True},
                   {"op": "remove_stream", "p": sp(["a"]), "heavy": True},
                   {"op": "create_stream", "p": sp(["c"])},
                   {"op": "write", "p": sp(["c"]), "off": 0, "runs": f.runs(rng, 5000), "heavy": True}]
            out.append({"id": f"fatgrow_v{ver}", "ver": ver, "heavy": "marked", "ops": ops})
    if True:
        # (d) DIFAT growth, V3 only (109 FAT sectors ~ 7 MiB); V4 needs 457 MiB.  Both tiers: since the
        # chain rules of CfbImage follow chains by halving, a 30,000-sector image is judged in seconds.
        f = Fill()
        ops = [{"op": "create_stream", "p": sp(["a"])},
               {"op": "write", "p": sp(["a"]), "off": 0, "runs": f.runs(rng, 7300000), "heavy": True},
               {"op": "create_stream", "p": sp(["B"])},
               {"op": "write", "p": sp(["B"]), "off": 0, "runs": f.runs(rng, 200000), "heavy": True},
               {"op": "reopen", "mode": "strict", "heavy": True},
               {"op": "remove_stream", "p": sp(["a"]), "heavy": True},
               {"op": "create_stream", "p": sp(["c"])},
               {"op": "write", "p": sp(["c"]), "off": 0, "runs": f.runs(rng, 100000), "heavy": True}]
        out.append({"id": "difatgrow_v3", "ver": 3, "heavy": "marked", "ops": ops})
        # (e) a second DIFAT sector: more than 109 + 127 FAT sectors (~15.5 MiB in V3)
        f = Fill()
        ops = [{"op": "create_stream", "p": sp(["a"])},
               {"op": "write", "p": sp(["a"]), "off": 0, "runs": f.runs(rng, 15600000), "heavy": True},
               {"op": "create_stream", "p": sp(["B"])},
               {"op": "write", "p": sp(["B"]), "off": 0, "runs": f.runs(rng, 300000), "heavy": True},
               {"op": "reopen", "mode": "strict", "heavy": True},
               {"op": "write", "p": sp(["B"]), "off": 300000, "runs": f.runs(rng, 5000), "heavy": True}]
        out.append({"id": "difat2grow_v3", "ver": 3, "heavy": "marked", "ops": ops})
    return out


def fat_boundary_histories(tier):
    """Every kind of allocation made while the file is 0..3 sectors short of a FAT-sector boundary (version 3:
    128 sectors = 64 KiB; version 4: 1024 sectors = 4 MiB, thorough tier only), so that the FAT sector is added in
    the middle of a directory-sector, MiniFAT, container, migration or chain allocation - the classes of CfbPhys's
    case analysis that small histories never reach at real geometry."""
    out = []
    for ver in (3,):       # version 4: 1024-sector chains, which CfbPhys (sector-by-sector transcription) follows too slowly
        slen = 512 if ver == 3 else 4096
        per = slen // 4
        for d in (0, 1, 2, 3):
            n = per - 2 - d                      # sectors of the filler stream: FAT + directory + n = per - d
            scripts = {
                "small": [("create_stream", ["zz"]), ("write", ["zz"], 0, 100), ("write", ["zz"], 100, 700)],
                "dirs": [("create_storage", ["k1"]), ("create_storage", ["k2"]), ("create_storage", ["k3"]), ("create_stream", ["k4"]),
                         ("create_storage", ["k1", "k5"])],
                "append": [("write", ["AB"], n * slen, 600), ("write", ["AB"], n * slen + 600, 3 * slen)],
                "grow": [("set_len", ["AB"], n * slen + 1000), ("set_len", ["AB"], n * slen + 1000 + 2 * slen)],
                "setlen_small": [("create_stream", ["zz"]), ("set_len", ["zz"], 100), ("set_len", ["zz"], 5000), ("set_len", ["zz"], 100),
                                 ("set_len", ["zz"], 0)],
                "big": [("create_stream", ["zz"]), ("write", ["zz"], 0, 5000), ("set_len", ["zz"], 12000)],
                "migrate": [("create_stream", ["zz"]), ("write", ["zz"], 0, 64), ("create_stream", ["quux"]), ("write", ["quux"], 0, 64),
                            ("write", ["zz"], 64, 5000), ("set_len", ["quux"], 4096)],
                "reuse": [("set_len", ["AB"], (n - 3) * slen), ("create_stream", ["zz"]), ("write", ["zz"], 0, 3 * slen + 1),
                          ("create_stream", ["quux"]), ("write", ["quux"], 0, 100)],
                "shrink_to_small": [("create_stream", ["zz"]), ("write", ["zz"], 0, 100), ("set_len", ["AB"], 1000)],
            }
            for name, steps in scripts.items():
                f = Fill()
                ops = [{"op": "create_stream", "p": sp(["AB"]), "heavy": False},
                       {"op": "write", "p": sp(["AB"]), "off": 0, "runs": [[f.next(), n * slen]], "heavy": True}]
                for st in steps:
                    if st[0] == "write":
                        ops.append({"op": "write", "p": sp(st[1]), "off": st[2], "runs": [[f.next(), st[3]]], "heavy": True})
                    elif st[0] == "set_len":
                        ops.append({"op": "set_len", "p": sp(st[1]), "n": st[2], "heavy": True})
                    else:
                        ops.append({"op": st[0], "p": sp(st[1]), "heavy": True})
                ops.append({"op": "reopen", "mode": "strict", "heavy": True})
                out.append({"id": f"fatb_v{ver}_{d}_{name}", "ver": ver, "heavy": "marked", "ops": ops})
    return out


def with_forks(rng, hists, p=0.5):
    """For each history also produce a copy that reopens the bytes (no flush)
    at a random operation boundary and continues on the reopened file."""
    out = []
    for h in hists:
        out.append(h)
        if rng.random() < p and len(h["ops"]) > 2:
            k = rng.randrange(1, len(h["ops"]))
            ops = h["ops"][:k] + [{"op": "reopen", "mode": rng.choice(["strict", "permissive"])}] + h["ops"][k:]
            out.append(dict(h, id=h["id"] + f"_fork{k}", ops=ops))
    return out


# ---------------------------------------------------------------------------
# C08 templates: shrink/grow grids

def within_unit_triples(ver):
    """(L0, L1, L2): write L0, cut to L1, grow to L2, where the cut and the growth stay inside the same
    number of (mini) sectors - no sector is released or added, so only an explicit scrub zeroes the gap -
    and the variants that cross exactly one unit boundary."""
    slen = 512 if ver == 3 else 4096
    out = []
    classes = [(64, k) for k in (1, 2, 5, 63)] + [(slen, k) for k in ((9, 10, 13) if ver == 3 else (2, 3))]
    for u, k in classes:
        lo = (k - 1) * u
        for L0 in (k * u, k * u - 1, k * u - u // 3):
            for L1 in (lo + 1, lo + u // 2, L0 - 1, lo):
                for L2 in (L0, k * u, L1 + 1, k * u + 1):
                    if 0 < L1 < L0 and L1 < L2 and (u == 64 or L1 >= 4096) and (u != 64 or L2 < 4096):
                        out.append((L0, L1, L2))
    return sorted(set(out))


def c08_templates(tier):
    out = []
    for ver in (3, 4):
        # T4: cut and growth inside the same final (mini) sector
        tr = within_unit_triples(ver)
        for j, (L0, L1, L2) in enumerate(tr):
            if tier == "quick" and j % 2:
                continue
            f = Fill()
            ops = [{"op": "create_stream", "p": sp(["a"])},
                   {"op": "write", "p": sp(["a"]), "off": 0, "runs": [[f.next(), L0 // 2], [f.next(), L0 - L0 // 2]]},
                   {"op": "set_len", "p": sp(["a"]), "n": L1},
                   {"op": "set_len", "p": sp(["a"]), "n": L2, "heavy": True},
                   {"op": "read", "p": sp(["a"])}]
            out.append({"id": f"T4_v{ver}_{L0}_{L1}_{L2}", "ver": ver, "heavy": "marked", "ops": ops})
    for ver in (3, 4):
        slen = 512 if ver == 3 else 4096
        L = sorted(set([0, 1, 63, 64, 65, 4095, 4096, 4097, slen - 1, slen, slen + 1, 2 * slen + 1]))
        if tier == "quick":
            Lq = [1, 64, 65, 4095, 4096, slen + 1, 2 * slen + 1]
        else:
            Lq = L
        # T1: write L0, shrink to L1, grow to L2, read back (same path, fresh handle, reopen)
        n = 0
        for L0 in Lq:
            for L1 in L:
                if L1 >= L0:
                    continue
                for L2 in Lq:
                    if L2 <= L1:
                        continue
                    if tier == "quick" and (n % 3) != 0:
                        n += 1
                        continue
                    n += 1
                    f = Fill()
                    ops = [{"op": "create_stream", "p": sp(["a"])},
                           {"op": "write", "p": sp(["a"]), "off": 0, "runs": [[f.next(), L0]]},
                           {"op": "set_len", "p": sp(["a"]), "n": L1},
                           {"op": "set_len", "p": sp(["a"]), "n": L2, "heavy": True},
                           {"op": "read", "p": sp(["a"])}]
                    out.append({"id": f"T1_v{ver}_{L0}_{L1}_{L2}", "ver": ver, "heavy": "marked", "ops": ops})
        # T2: write A (L0), remove/shrink A, create B, grow B to L2 (reuse of freed space),
        #     with and without a third stream pinning the mini stream's tail
        for L0 in Lq:
            if L0 == 0:
                continue
            for L2 in Lq:
                for pin in (False, True):
                    for how in ("remove", "shrink"):
                        f = Fill()
                        ops = [{"op": "create_stream", "p": sp(["a"])},
                               {"op": "write", "p": sp(["a"]), "off": 0, "runs": [[f.next(), L0]]}]
                        if pin:
                            ops += [{"op": "create_stream", "p": sp(["c"])},
                                    {"op": "write", "p": sp(["c"]), "off": 0, "runs": [[f.next(), 70]]}]
                        if how == "remove":
                            ops.append({"op": "remove_stream", "p": sp(["a"])})
                        else:
                            ops.append({"op": "set_len", "p": sp(["a"]), "n": 0})
                        tail = [{"op": "create_stream", "p": sp(["B"])},
                                {"op": "set_len", "p": sp(["B"]), "n": L2, "heavy": True},
                                {"op": "read", "p": sp(["B"])}]
                        out.append({"id": f"T2_v{ver}_{L0}_{L2}_{int(pin)}_{how}", "ver": ver, "heavy": "marked", "ops": ops + tail})
                        # the same with the file closed and reopened between the release and the reuse: what is known
                        # about the released (mini) sectors then comes from the image alone
                        if (L0 + L2) % 3 == 0 or tier == "thorough":
                            out.append({"id": f"T2r_v{ver}_{L0}_{L2}_{int(pin)}_{how}", "ver": ver, "heavy": "marked",
                                        "ops": ops + [{"op": "reopen", "mode": "strict" if pin else "permissive", "heavy": False}] + tail})
        # T3: across a migration in either direction, then grow again
        for (L0, L1, L2) in [(100, 5000, 6000), (5000, 100, 200), (5000, 100, 5000), (4095, 4096, 4200),
                             (4096, 4095, 4096), (9000, 60, 9000), (60, 9000, 30), (4097, 1, 4097),
                             (2 * slen + 1, slen - 1, 2 * slen + 1), (slen + 1, 63, slen + 1)]:
            f = Fill()
            ops = [{"op": "create_stream", "p": sp(["a"])},
                   {"op": "write", "p": sp(["a"]), "off": 0, "runs": [[f.next(), L0]]},
                   {"op": "set_len", "p": sp(["a"]), "n": L1, "heavy": True},
                   {"op": "set_len", "p": sp(["a"]), "n": L2, "heavy": True},
                   {"op": "set_len", "p": sp(["a"]), "n": max(L0, L1, L2) + 70, "heavy": True}]
            out.append({"id": f"T3_v{ver}_{L0}_{L1}_{L2}", "ver": ver, "heavy": "marked", "ops": ops})
    return out


# ---------------------------------------------------------------------------
# C15 cycle templates

def c15_templates(tier):
    out = []
    sizes = [10, 64, 4095, 4096, 10000] + ([70000] if tier == "thorough" else [])
    for ver in (3, 4):
        slen = 512 if ver == 3 else 4096
        per_sector = slen // 64                       # mini sectors per container sector
        mf_per = slen // 4                            # MiniFAT entries per sector
        fills = [0, 1, per_sector - 1, per_sector, per_sector + 1]
        if tier == "thorough" or ver == 3:
            fills += [mf_per - 1, mf_per, mf_per + 1]
        for nfill in fills:
            for s in sizes:
                cycles = {
                    "create_remove": [{"op": "create_stream", "p": sp(["zz"])},
                                      {"op": "write", "p": sp(["zz"]), "off": 0, "runs": [[7, s]]},
                                      {"op": "remove_stream", "p": sp(["zz"])}],
                    "grow_shrink": [{"op": "set_len", "p": sp(["a"]), "n": s + 64},
                                    {"op": "set_len", "p": sp(["a"]), "n": 64}],
                    # regular -> larger regular -> back (truncation inside a regular chain)
                    "grow_shrink_big": [{"op": "set_len", "p": sp(["AB"]), "n": 5000 + s + 4096},
                                        {"op": "set_len", "p": sp(["AB"]), "n": 5000}],
                    # a small stream overwritten from offset 0 past the cutoff (migration on the write path)
                    "small_then_big": [{"op": "create_stream", "p": sp(["zz"])},
                                       {"op": "write", "p": sp(["zz"]), "off": 0, "runs": [[7, 100]]},
                                       {"op": "write", "p": sp(["zz"]), "off": 0, "runs": [[8, s + 4096]]},
                                       {"op": "remove_stream", "p": sp(["zz"])}],
                    # the file is closed and reopened inside the cycle: what was released must be reusable
                    # from the image alone (free lists and free slots are rebuilt from the bytes)
                    "create_remove_reopen": [{"op": "create_stream", "p": sp(["zz"])},
                                             {"op": "write", "p": sp(["zz"]), "off": 0, "runs": [[7, s]]},
                                             {"op": "remove_stream", "p": sp(["zz"])},
                                             {"op": "reopen", "mode": "strict"}],
                    "storage_reopen": [{"op": "create_storage", "p": sp(["zz"])},
                                       {"op": "create_stream", "p": sp(["zz", "quux"])},
                                       {"op": "reopen", "mode": "permissive"},
                                       {"op": "remove_storage_all", "p": sp(["zz"])},
                                       {"op": "reopen", "mode": "strict"}],
                    "trunc_remove_big": [{"op": "create_stream", "p": sp(["zz"])},
                                         {"op": "write", "p": sp(["zz"]), "off": 0, "runs": [[7, s + 8192]]},
                                         {"op": "set_len", "p": sp(["zz"]), "n": 4500},
                                         {"op": "remove_stream", "p": sp(["zz"])}],
                }
                # a freed chain is reused in REVERSE order (the free lists are LIFO): the second big stream's chain runs
                # backwards through the space of the first; a small stream created in between sits behind it and is
                # removed first, so that the reversed chain is at the tail of the (mini) FAT when it is released
                r = {10: 640, 64: 2560}.get(s, s)
                cycles["reuse_reversed"] = [{"op": "create_stream", "p": sp(["zz"])},
                                            {"op": "write", "p": sp(["zz"]), "off": 0, "runs": [[7, r]]},
                                            {"op": "create_stream", "p": sp(["quux"])},
                                            {"op": "write", "p": sp(["quux"]), "off": 0, "runs": [[8, 10 if r < 4096 else 4500]]},
                                            {"op": "remove_stream", "p": sp(["zz"])},
                                            {"op": "create_stream", "p": sp(["k1"])},
                                            {"op": "write", "p": sp(["k1"]), "off": 0, "runs": [[9, r]]},
                                            {"op": "remove_stream", "p": sp(["quux"])},
                                            {"op": "remove_stream", "p": sp(["k1"])}]
                cycles["reuse_reversed_resize"] = cycles["reuse_reversed"][:-1] + [
                    {"op": "set_len", "p": sp(["k1"]), "n": r // 2}, {"op": "set_len", "p": sp(["k1"]), "n": r},
                    {"op": "remove_stream", "p": sp(["k1"])}]
                if s == 10 and ver == 3:
                    # growth by more than a whole FAT sector's worth of sectors (128 in version 3) in ONE set_len call, while
                    # free sectors exist: the long extension must come out of the free list like any other
                    cycles["setlen_long"] = [{"op": "create_stream", "p": sp(["zz"])},
                                             {"op": "set_len", "p": sp(["zz"]), "n": 100000},
                                             {"op": "remove_stream", "p": sp(["zz"])}]
                    cycles["grow_long_shrink"] = [{"op": "set_len", "p": sp(["AB"]), "n": 5000 + 140000},
                                                  {"op": "set_len", "p": sp(["AB"]), "n": 5000}]
                if s in (10, 4096, 10000):
                    cycles["create_setlen_remove"] = [{"op": "create_stream", "p": sp(["zz"])},
                                                     {"op": "write", "p": sp(["zz"]), "off": 0, "runs": [[7, s]]},
                                                     {"op": "set_len", "p": sp(["zz"]), "n": 5000 if s < 4096 else 100},
                                                     {"op": "remove_stream", "p": sp(["zz"])}]
                    cycles["overwrite"] = [{"op": "create_stream", "p": sp(["a"])},
                                           {"op": "write", "p": sp(["a"]), "off": 0, "runs": [[9, s]]},
                                           {"op": "set_len", "p": sp(["a"]), "n": 64},
                                           {"op": "write", "p": sp(["a"]), "off": 0, "runs": [[5, 64]]}]
                    cycles["two_streams"] = [{"op": "create_stream", "p": sp(["zz"])},
                                             {"op": "create_stream", "p": sp(["quux"])},
                                             {"op": "write", "p": sp(["zz"]), "off": 0, "runs": [[7, s]]},
                                             {"op": "write", "p": sp(["quux"]), "off": 0, "runs": [[8, 100]]},
                                             {"op": "remove_stream", "p": sp(["zz"])},
                                             {"op": "remove_stream", "p": sp(["quux"])}]
                    cycles["storage"] = [{"op": "create_storage_all", "p": sp(["k1", "k2"])},
                                         {"op": "create_stream", "p": sp(["k1", "k2", "k3"])},
                                         {"op": "write", "p": sp(["k1", "k2", "k3"]), "off": 0, "runs": [[7, s]]},
                                         {"op": "remove_storage_all", "p": sp(["k1"])}]
                for cname, cyc in cycles.items():
                    # prefix: a stream 'a' of 64 bytes plus fillers occupying nfill mini sectors
                    ops = [{"op": "create_stream", "p": sp(["a"])},
                           {"op": "write", "p": sp(["a"]), "off": 0, "runs": [[5, 64]]},
                           {"op": "create_stream", "p": sp(["AB"])},
                           {"op": "write", "p": sp(["AB"]), "off": 0, "runs": [[6, 5000]]}]
                    left, k = nfill, 0
                    while left > 0:
                        take = min(left, 63)            # fillers stay below the 4096 cutoff
                        nm = C15_FILLERS[k]
                        ops.append({"op": "create_stream", "p": sp([nm])})
                        ops.append({"op": "write", "p": sp([nm]), "off": 0, "runs": [[11 + k, take * 64]]})
                        left -= take
                        k += 1
                    ops[-1]["mark"] = "cycle_base"
                    for rep in range(4):
                        for o in cyc:
                            ops.append(dict(o))
                        ops[-1]["mark"] = "rep_end"
                    out.append({"id": f"cyc_v{ver}_{cname}_{s}_{nfill}", "ver": ver, "heavy": "last", "ops": ops})
        # Prefixes that leave a RETAINED BUT EMPTY container behind, with a reopen inside the cycle (what was kept
        # for reuse must be found again from the image alone):
        #  - the mini stream: every small stream removed, the root keeps its chain with length 0;
        #  - the directory: it spilled into a further sector and shrank back, so that the highest live slot is
        #    the last slot of a sector and the next sector holds only unallocated entries.
        per = 4 if ver == 3 else 32
        def finish(name, ops, cyc):
            ops[-1]["mark"] = "cycle_base"
            for rep in range(4):
                for o in cyc:
                    ops.append(dict(o))
                ops[-1]["mark"] = "rep_end"
            out.append({"id": f"cyc_v{ver}_{name}", "ver": ver, "heavy": "last", "ops": ops})
        for s in (100, 1000, 4095):
            ops = [{"op": "create_stream", "p": sp(["AB"])}, {"op": "write", "p": sp(["AB"]), "off": 0, "runs": [[6, 5000]]},
                   {"op": "create_stream", "p": sp(["a"])}, {"op": "write", "p": sp(["a"]), "off": 0, "runs": [[5, 200]]},
                   {"op": "remove_stream", "p": sp(["a"])}]
            finish(f"emptymini_{s}", ops, [{"op": "reopen", "mode": "strict"}, {"op": "create_stream", "p": sp(["zz"])},
                                          {"op": "write", "p": sp(["zz"]), "off": 0, "runs": [[7, s]]},
                                          {"op": "remove_stream", "p": sp(["zz"])}])
        # many repetitions of slot-only cycles: a directory slot lost per repetition shows as growth only when the
        # lost slots cross a directory-sector boundary (every 4th repetition in version 3, every 32nd in version 4)
        for order in ("fifo", "lifo"):
            for payload in (0, 10):
                cyc = [{"op": "create_stream", "p": sp(["zz"])}, {"op": "create_stream", "p": sp(["quux"])}]
                if payload:
                    cyc += [{"op": "write", "p": sp(["zz"]), "off": 0, "runs": [[7, payload]]},
                            {"op": "write", "p": sp(["quux"]), "off": 0, "runs": [[8, payload]]}]
                first, second = ("zz", "quux") if order == "fifo" else ("quux", "zz")
                cyc += [{"op": "remove_stream", "p": sp([first])}, {"op": "remove_stream", "p": sp([second])}]
                ops = [{"op": "create_stream", "p": sp(["a"])}, {"op": "write", "p": sp(["a"]), "off": 0, "runs": [[5, 64]]}]
                ops[-1]["mark"] = "cycle_base"
                for rep in range(40 if ver == 4 else 12):
                    for o in cyc:
                        ops.append(dict(o))
                    ops[-1]["mark"] = "rep_end"
                out.append({"id": f"cyc_v{ver}_slots_{order}_{payload}", "ver": ver, "heavy": "last", "ops": ops})
        base = C15_FILLERS + ["k1", "k2", "k3", "quux", "AB", "a"]          # 30 distinct names of dictionary A
        paths = [[n] for n in base] + [[base[0], n] for n in base[1:]] + [[base[1], n] for n in base[2:]]
        for live in (per - 1, 2 * per - 1):            # live entries besides the root: highest live slot = last of a sector
            ops = []
            for pth in paths[:live + 2]:
                ops.append({"op": "create_storage", "p": sp(pth)})
            for pth in reversed(paths[live:live + 2]):
                ops.append({"op": "remove_storage", "p": sp(pth)})
            finish(f"dirshrunk_{live}", ops, [{"op": "reopen", "mode": "strict"}, {"op": "create_storage", "p": sp(["zz"])},
                                             {"op": "remove_storage", "p": sp(["zz"])}])
    return out


C15_FILLERS = ["foo", "bar", "baz", "B", "c", "Z", "aa", "stream1", "n31", "n30", "sp", "dot", "dots", "k4", "k5", "k6",
               "f1", "f2", "f3", "f4", "f5", "f6", "f7", "f8"]


# ---------------------------------------------------------------------------
# C17 metadata histories

def c17_histories(tier, seed):
    rng = random.Random(seed)
    vals = json.load(open(os.path.join(core.DICTDIR, "values.json")))
    times = sorted(vals["time"].keys())
    clsids = sorted(vals["clsid"].keys())
    bits = sorted(vals["bits"].keys())
    out = []
    names = ["k1", "k2", "k3", "k4", "k5", "k6", "foo", "bar", "baz", "a", "B", "c", "Z", "aa", "AB", "zz", "quux",
             "stream1", "n31", "n30", "sp", "dot", "dots"]
    for ver in (3, 4):
        per = 4 if ver == 3 else 32
        # place targets around the directory-sector boundary (slots per-1, per, per+1)
        for target_kind in ("storage", "stream", "root"):
            ops = []
            # fill slots 1..per-2 with small storages (two levels to get enough names)
            made = 0
            for par in ([], ["k1"], ["k2"]):
                for n in names:
                    if made >= per - 2:
                        break
                    if par == [] or n not in ("k1", "k2"):
                        ops.append({"op": "create_storage", "p": sp(par + [n])})
                        made += 1
            tg = []
            for j in range(3):       # three targets straddling the boundary
                p = ["foo", f"k{j + 3}"] if ver == 4 or True else [f"k{j + 3}"]
                if j == 0 and not any(o["p"]["t"] == ["foo"] for o in ops):
                    ops.append({"op": "create_storage", "p": sp(["foo"])})
                if target_kind == "stream":
                    ops.append({"op": "create_stream", "p": sp(p)})
                elif target_kind == "storage":
                    ops.append({"op": "create_storage", "p": sp(p)})
                tg.append(p if target_kind != "root" else [])
            for o in ops:
                o["heavy"] = False
            must = [t for t in ("far", "far_past", "far_2_64", "past_2_64", "beyond", "max_tick", "pre1601_far", "y1601_p50", "pre70_50") if t in times]
            vs = times if tier == "thorough" else must + rng.sample([t for t in times if t not in must], 5)
            for i, t in enumerate(vs):
                p = tg[i % 3]
                ops.append({"op": "set_ctime", "p": sp(p), "v": t, "heavy": True})
                ops.append({"op": "set_mtime", "p": sp(p), "v": vs[(i + 1) % len(vs)], "heavy": True})
                ops.append({"op": "entry", "p": sp(p)})
            for i, c in enumerate(clsids):
                ops.append({"op": "set_clsid", "p": sp(tg[i % 3]), "v": c, "heavy": True})
            for i, b in enumerate(bits):
                ops.append({"op": "set_bits", "p": sp(tg[i % 3]), "v": b, "heavy": True})
            ops.append({"op": "reopen", "mode": "strict", "heavy": True})
            # structural churn around the targets must preserve their metadata
            ops.append({"op": "remove_storage", "p": sp(["k1", "k3"]), "heavy": True})
            ops.append({"op": "create_stream", "p": sp(["zz"]), "heavy": True})
            ops.append({"op": "write", "p": sp(["zz"]), "off": 0, "runs": [[3, 5000]], "heavy": True})
            ops.append({"op": "touch", "p": sp(tg[0]), "heavy": True} if target_kind != "root" else {"op": "flush"})
            ops.append({"op": "set_clsid", "p": sp(["nope"]), "v": "r1"})
            ops.append({"op": "set_bits", "p": sp(["nope", "x"]), "v": "r1"})
            ops.append({"op": "set_mtime", "p": sp([".."]), "v": "epoch"})
            ops.append({"op": "reopen", "mode": "permissive", "heavy": True})
            out.append({"id": f"meta_v{ver}_{target_kind}", "ver": ver, "heavy": "marked", "ops": ops})
    return out


def c17_setter_after_removal(tier):
    """setter(P), P goes away by every removal the API has (or is replaced by an object of the other kind), the SAME
    setter on P again (NotFound / the new object's rules), then a new object is created - it reuses the freed
    directory slot - and must carry default metadata; finally P's siblings are listed."""
    out = []
    setters = [("set_bits", "r1"), ("set_clsid", "r2"), ("set_ctime", "y2038"), ("set_mtime", "pre70_50"), ("touch", None)]
    removals = ["remove_storage", "remove_storage_all_self", "remove_storage_all_parent", "remove_storage_all_root", "remove_stream", "recreate_stream"]
    i = 0
    for ver in (3, 4):
        for (st, v) in setters:
            for rm in removals:
                kind = "stream" if rm in ("remove_stream", "recreate_stream") else "storage"
                if kind == "stream" and st == "set_clsid":
                    continue
                P = ["foo", "k1"]
                ops = [{"op": "create_storage", "p": sp(["foo"])},
                       {"op": "create_stream" if kind == "stream" else "create_storage", "p": sp(P)},
                       {"op": "create_storage", "p": sp(["bar"])}]
                def setter(path):
                    o = {"op": st, "p": sp(path)}
                    if v is not None:
                        o["v"] = v
                    return o
                ops.append(setter(P))
                ops.append({"op": "entry", "p": sp(P)})
                if rm == "remove_storage":
                    ops.append({"op": "remove_storage", "p": sp(P)})
                elif rm == "remove_storage_all_self":
                    ops.append({"op": "remove_storage_all", "p": sp(P)})
                elif rm == "remove_storage_all_parent":
                    ops.append({"op": "remove_storage_all", "p": sp(["foo"])})
                elif rm == "remove_storage_all_root":
                    ops.append({"op": "remove_storage_all", "p": sp([])})
                elif rm == "remove_stream":
                    ops.append({"op": "remove_stream", "p": sp(P)})
                else:
                    ops.append({"op": "create_stream", "p": sp(P)})      # overwrite: the same object, metadata kept
                ops.append(setter(P))                                       # gone: NotFound (kept: Ok)
                ops.append({"op": "create_storage_all", "p": sp(["zz", "quux"])})
                ops.append({"op": "create_stream", "p": sp(["zz", "a"])})
                ops.append({"op": "entry", "p": sp(["zz"])})
                ops.append({"op": "entry", "p": sp(["zz", "quux"])})
                ops.append({"op": "entry", "p": sp(["zz", "a"])})
                ops.append(setter(P))
                ops.append({"op": "walk_storage", "p": sp([])})
                for o in ops:
                    o["heavy"] = False
                ops[-1]["heavy"] = True
                ops.append({"op": "reopen", "mode": "strict" if i % 2 else "permissive", "heavy": True})
                out.append({"id": f"meta_rm_v{ver}_{st}_{rm}", "ver": ver, "heavy": "marked", "ops": ops})
                i += 1
    return out


# ---------------------------------------------------------------------------
# C07 handle histories (random): handles stay open across structural ops on
# other entries; every handle op flushes, so no pending data between events.

def c07_random(rng, d, ver, hid, nops=40):
    f = Fill()
    names = [n for n in ["k1", "k2", "k3", "k4", "k5", "k6", "foo", "bar", "a", "zz", "quux", "aa"] if n in d.tlc]
    rng.shuffle(names)
    held = {}          # handle -> name
    live = {}          # name -> kind
    ops = []
    for n in names[:5]:
        ops.append({"op": "create_stream", "p": sp([n])})
        ops.append({"op": "write", "p": sp([n]), "off": 0, "runs": f.runs(rng, rng.choice([10, 64, 100, 4096, 5000]))})
        live[n] = "stream"
    hnames = rng.sample(names[:5], 3)
    for i, n in enumerate(hnames):
        # the handle is obtained through ANOTHER spelling of the path than the stored one more often than not (letter case,
        # '.', resolvable '..'), and now and then by create_stream over the existing stream (which keeps the entry)
        pth = spell(rng, d, [n], 0.7) if rng.random() < 0.7 else sp([n])
        others = [v for v in d.variants(n) if v != n]
        if i == 0 and others:
            pth = sp([rng.choice(others)])          # (one handle per history always through a different letter case)
        if i == 2 and rng.random() < 0.5:
            ops.append({"op": "create_stream", "p": pth, "h": f"h{i}"})
        else:
            ops.append({"op": "open_stream", "p": pth, "h": f"h{i}"})
        held[f"h{i}"] = n
    protected = set(held.values())
    while len(ops) < nops:
        r = rng.random()
        if r < 0.3:
            # remove a non-held entry
            cands = [n for n in live if n not in protected]
            if cands:
                n = rng.choice(cands)
                ops.append({"op": "remove_stream" if live[n] == "stream" else "remove_storage", "p": sp([n])})
                del live[n]
        elif r < 0.55:
            cands = [n for n in names if n not in live]
            if cands:
                n = rng.choice(cands)
                if rng.random() < 0.7:
                    ops.append({"op": "create_stream", "p": sp([n])})
                    ops.append({"op": "write", "p": sp([n]), "off": 0, "runs": f.runs(rng, rng.choice([10, 100, 4096]))})
                    live[n] = "stream"
                else:
                    ops.append({"op": "create_storage", "p": sp([n])})
                    live[n] = "storage"
        elif r < 0.7:
            h = rng.choice(sorted(held))
            ops.append({"op": "h_write", "h": h, "off": 0, "runs": f.runs(rng, rng.choice([5, 64, 700, 4096, 4200]))})
        elif r < 0.8:
            ops.append({"op": "h_read", "h": rng.choice(sorted(held))})
        elif r < 0.9:
            ops.append({"op": "h_set_len", "h": rng.choice(sorted(held)), "n": rng.choice([0, 10, 64, 4095, 4096, 6000])})
        else:
            cands = [n for n in live if n not in protected and live[n] == "stream"]
            if cands:
                ops.append({"op": "set_len", "p": sp([rng.choice(cands)]), "n": rng.choice([0, 100, 5000])})
    for h in sorted(held):
        ops.append({"op": "h_read", "h": h})
        ops.append({"op": "h_len", "h": h})
    return {"id": hid, "ver": ver, "heavy": "all", "ops": ops}
