"""Orchestration core: build the harness, run drivers with a watchdog, shard
traces over parallel single-worker TLC processes, parse verdicts, write
evidence and replay files.  The judge is always TLC; nothing here decides
whether an observed result is right."""
import concurrent.futures as cf
import hashlib
import json
import os
import re
import shutil
import subprocess
import sys
import time

ROOT = os.path.dirname(os.path.dirname(os.path.abspath(__file__)))
SPEC = os.path.join(ROOT, "spec")
WORK = os.path.join(ROOT, "work")
HARNESS = os.path.join(ROOT, "harness")
BIN = os.path.join(HARNESS, "target", "debug")
DICTDIR = os.path.join(SPEC, "dict")
REPLAYS = os.path.join(ROOT, "replays")
EVIDENCE = os.path.join(ROOT, "evidence")
TMP = os.path.join(WORK, "tmp")

MAXPAR = int(os.environ.get("VERIF_JOBS", "12"))


class ToolError(Exception):
    pass


def log(*a):
    print(*a, file=sys.stderr, flush=True)


def ensure_dirs():
    for d in (WORK, TMP, REPLAYS, EVIDENCE):
        os.makedirs(d, exist_ok=True)


def build():
    """Incremental offline build of the harness against /repo's working tree."""
    ensure_dirs()
    env = dict(os.environ, CARGO_NET_OFFLINE="true")
    t = time.time()
    p = subprocess.run(["cargo", "build", "--offline", "--bins"], cwd=HARNESS, env=env,
                       stdout=subprocess.PIPE, stderr=subprocess.STDOUT, text=True)
    if p.returncode != 0:
        log(p.stdout[-4000:])
        raise ToolError("harness build failed")
    log(f"[build] ok in {time.time() - t:.1f}s")
    if not os.path.exists(os.path.join(DICTDIR, "A.tlc.json")):
        subprocess.run([sys.executable, os.path.join(ROOT, "bin", "gen_dicts.py")], check=True,
                       stdout=subprocess.DEVNULL)


def workdir(name):
    d = os.path.join(WORK, name)
    shutil.rmtree(d, ignore_errors=True)
    os.makedirs(d)
    return d


def java_env(extra=None, xmx="3g", deque=True):
    opts = f"-Xss1g -Xmx{xmx} -XX:ParallelGCThreads=2 -XX:CICompilerCount=2 -Djava.io.tmpdir={TMP}"
    if deque:
        opts += " -Dtlc2.tool.queue.IStateQueue=StateDeque"
    env = dict(os.environ, JAVA_TOOL_OPTIONS=opts)
    if extra:
        env.update(extra)
    return env


TLC_NOISE = re.compile(r"^(Picked up|Parsing file|Semantic processing|Linting of|TLC2 Version|Running |Starting\.\.\.|Computing initial|Finished computing|  Estimates|  because two|  calculated|  based on|The average outdegree|Progress\()")


def run_tlc(spec, cfg, env_extra, metadir, workers=1, timeout=1800, xmx="3g", deque=True, extra_args=None):
    """Runs TLC; returns (returncode, [output lines without boilerplate])."""
    os.makedirs(TMP, exist_ok=True)
    shutil.rmtree(metadir, ignore_errors=True)
    cmd = ["timeout", str(timeout), "tlc", "-workers", str(workers), "-config", cfg,
           "-metadir", metadir, "-noGenerateSpecTE"] + (extra_args or []) + [spec]
    def more_files():
        # TLC's Json module does not close the files it reads; long traces need a generous limit
        import resource
        soft, hard = resource.getrlimit(resource.RLIMIT_NOFILE)
        want = 65536 if hard == resource.RLIM_INFINITY else min(hard, 65536)
        if soft < want:
            resource.setrlimit(resource.RLIMIT_NOFILE, (want, hard))
    p = subprocess.run(cmd, cwd=SPEC, env=java_env(env_extra, xmx, deque), preexec_fn=more_files,
                       stdout=subprocess.PIPE, stderr=subprocess.STDOUT, text=True)
    shutil.rmtree(metadir, ignore_errors=True)
    lines = [ln for ln in p.stdout.splitlines() if not TLC_NOISE.match(ln)]
    return p.returncode, lines


STATES_RE = re.compile(r"^(\d+) states generated, (\d+) distinct states found")


def tlc_stats(lines):
    for ln in lines:
        m = STATES_RE.match(ln)
        if m:
            return int(m.group(1)), int(m.group(2))
    return 0, 0


def tlc_ok(lines):
    return any("No error has been found" in ln for ln in lines)


# --------------------------------------------------------------------------
# Driving


def run_drive(binary, script_path, out_path, timeout=120, journal=None, extra=None):
    """Runs a driver under a watchdog.  A hang is data: the journalled history
    is recorded as hung and the driver is restarted after it.
    Returns list of hung history indices."""
    hung = []
    start = 0
    journal = journal or (out_path + ".journal")
    parts = []
    while True:
        part = f"{out_path}.part{len(parts)}"
        cmd = [os.path.join(BIN, binary), script_path, part, "--journal", journal, "--from", str(start)]
        if extra:
            cmd += extra
        def limits():
            # a driver running changed library code may allocate without bound: cap its address space
            import resource
            cap = int(os.environ.get("VERIF_DRIVER_MEM_GB", "12")) << 30
            resource.setrlimit(resource.RLIMIT_AS, (cap, cap))
        try:
            p = subprocess.run(cmd, stdout=subprocess.PIPE, stderr=subprocess.STDOUT, text=True, timeout=timeout, preexec_fn=limits)
            parts.append(part)
            if p.returncode == 3:
                # the driver recorded a stalled history (its threads are stuck) and left: continue after it
                try:
                    idx = int(open(journal).read().strip())
                except Exception:
                    raise ToolError("driver stalled without journal")
                start = idx + 1
                continue
            if p.returncode != 0:
                # the driver itself died (abort, stack overflow, OOM kill): the
                # journalled history is the culprit
                try:
                    idx = int(open(journal).read().strip())
                except Exception:
                    raise ToolError(f"driver failed without journal: {p.stdout[-2000:]}")
                hung.append((idx, f"driver-died rc={p.returncode}"))
                start = idx + 1
                if len(hung) >= 4:
                    break          # this shard's histories keep hanging: four reports are enough, do not wait for the rest
                continue
            break
        except subprocess.TimeoutExpired:
            parts.append(part)
            try:
                idx = int(open(journal).read().strip())
            except Exception:
                raise ToolError("driver timed out without journal")
            hung.append((idx, "hang"))
            start = idx + 1
            if len(hung) >= 4:
                break
    with open(out_path, "w") as out:
        for part in parts:
            if os.path.exists(part):
                with open(part) as f:
                    data = f.read()
                # a killed driver may leave a truncated last line
                if data and not data.endswith("\n"):
                    data = data[: data.rfind("\n") + 1]
                out.write(data)
                os.remove(part)
    return hung


FAIL_RE = re.compile(r'^<<"FAIL", "([^"]+)", "([^"]+)", (-?\d+), (-?\d+), (\d+)>>')
NOTE_RE = re.compile(r'^<<"NOTE", "([^"]+)", (-?\d+), (-?\d+), (\d+)>>')


class Failure:
    def __init__(self, tag, rule, hi, oi, line, shard):
        self.tag, self.rule, self.hi, self.oi, self.line, self.shard = tag, rule, hi, oi, line, shard
        self.detail = ""

    def key(self):
        return (self.tag, self.rule, self.hi, self.oi)

    def __repr__(self):
        return f"{self.tag}.{self.rule}@h{self.hi}/op{self.oi}"


def validate_trace(spec, trace, dictname, md, timeout=1800, env_more=None, keep=None):
    """keep: optional list; receives every non-boilerplate TLC output line (for validators that also
    print derived data such as PROGRAM lines)."""
    env = {"TRACE": trace, "DICT": os.path.join(DICTDIR, f"{dictname}.tlc.json"),
           "VALUES": os.path.join(DICTDIR, "values.json")}
    if env_more:
        env.update(env_more)
    rc, lines = run_tlc(f"{spec}.tla", f"{spec}.cfg", env, md, workers=1, timeout=timeout)
    fails, notes, expected = [], [], []
    seen = set()
    if keep is not None:
        keep.extend(lines)
    for i, ln in enumerate(lines):
        m = FAIL_RE.match(ln)
        if m:
            f = Failure(m.group(1), m.group(2), int(m.group(3)), int(m.group(4)), int(m.group(5)), trace)
            if f.key() not in seen:
                seen.add(f.key())
                fails.append(f)
            continue
        if ln.startswith('<<"EXPECTED"') and fails:
            fails[-1].detail = ln[:600]
        m = NOTE_RE.match(ln)
        if m:
            notes.append(ln)
    if not tlc_ok(lines):
        tail = "\n".join(lines[-25:])
        raise ToolError(f"TLC did not complete on {trace} (rc={rc}):\n{tail}")
    gen, distinct = tlc_stats(lines)
    return fails, notes, distinct


def shard(items, k):
    k = max(1, min(k, len(items)))
    out = [[] for _ in range(k)]
    for i, it in enumerate(items):
        out[i % k].append(it)
    return [s for s in out if s]


def script_hash(hist):
    # distinct = distinct script under a distinct configuration (version, buffer size, backend, fault positions)
    key = {k: v for k, v in hist.items() if k not in ("id", "heavy", "img", "reopen")}
    return hashlib.sha1(json.dumps(key, sort_keys=True).encode()).hexdigest()


def drive_and_validate(name, dictname, histories, spec="Trace_File", driver="drive", nshards=None,
                       drive_timeout=1500, tlc_timeout=1800, extra_script=None, keep=None, group_key=None,
                       extra_specs=()):
    """Runs `histories` on the real library and validates every trace with TLC.
    Returns dict with failures (global history indices), hangs, counts.
    group_key: histories with the same key stay in one shard, in order (needed by validators that
    compare histories with each other).  extra_specs: further validators run on the same traces."""
    wd = workdir(name)
    par = nshards or MAXPAR
    # trace files are kept short (TLC reads one trace per process); parallelism is a separate matter
    # ... and short in events too (TLC's Json module leaks a descriptor per evaluated state)
    nev_est = sum(len(h.get("ops") or ()) + 1 for h in histories)
    nshards = nshards or max(MAXPAR, min(400, max(len(histories) // 250, nev_est // 4000) + 1))
    if group_key is None:
        shards = shard(list(enumerate(histories)), nshards)
    else:
        groups = {}
        for gi, h in enumerate(histories):
            groups.setdefault(group_key(h), []).append((gi, h))
        shards = [sum(g, []) for g in shard(list(groups.values()), nshards)]
    jobs = []
    for si, items in enumerate(shards):
        script = {"dict_path": os.path.join(DICTDIR, f"{dictname}.names.json"),
                  "values_path": os.path.join(DICTDIR, "values.json"),
                  "tmpdir": TMP,
                  # per-history watchdog of the drivers (a hang is data; see harness watchdog)
                  "hist_limit_ms": 25000 if os.environ.get("VERIF_TIER", "quick") == "quick" else 240000,
                  "case_limit_ms": 10000,
                  "histories": [h for _, h in items]}
        if extra_script:
            script.update(extra_script)
        sp = os.path.join(wd, f"s{si}.json")
        with open(sp, "w") as f:
            json.dump(script, f)
        jobs.append((si, sp, os.path.join(wd, f"t{si}.ndjson"), [gi for gi, _ in items]))

    def work(job):
        si, sp, tp, gidx = job
        hung = run_drive(driver, sp, tp, timeout=drive_timeout)
        nev = sum(1 for _ in open(tp))
        if nev == 0:
            return si, [], hung, 0, 0
        fails, notes, distinct = validate_trace(spec, tp, dictname, os.path.join(wd, f"md{si}"), timeout=tlc_timeout, keep=keep)
        for xs in extra_specs:
            f2, _, d2 = validate_trace(xs, tp, dictname, os.path.join(wd, f"md{si}x"), timeout=tlc_timeout, keep=keep)
            fails += f2
            distinct += d2
        return si, fails, hung, nev, distinct

    results = {"failures": [], "hangs": [], "events": 0, "tlc_states": 0, "histories": len(histories), "workdir": wd,
               "jobs": jobs}
    t0 = time.time()
    with cf.ThreadPoolExecutor(max_workers=min(par, MAXPAR)) as ex:
        for si, fails, hung, nev, distinct in ex.map(work, jobs):
            gidx = jobs[si][3]
            for f in fails:
                f.ghi = gidx[f.hi] if 0 <= f.hi < len(gidx) else -1
                results["failures"].append(f)
            for idx, why in hung:
                results["hangs"].append((gidx[idx] if idx < len(gidx) else -1, why))
            results["events"] += nev
            results["tlc_states"] += distinct
    results["wall"] = time.time() - t0
    return results


def event_of(results, f):
    """Fetch the recorded event a failure refers to."""
    try:
        with open(f.shard) as fh:
            for i, ln in enumerate(fh, 1):
                if i == f.line:
                    return json.loads(ln)
    except Exception:
        pass
    return None


def write_replay(prop, name, payload):
    os.makedirs(REPLAYS, exist_ok=True)
    path = os.path.join(REPLAYS, f"{prop}_{name}.json")
    with open(path, "w") as f:
        json.dump(payload, f, indent=1)
    return path


def write_evidence(prop, tier, seed, level, coverage, assumptions, wall, violations, extra=None):
    os.makedirs(EVIDENCE, exist_ok=True)
    ev = {"property_id": prop, "tier": tier, "seed": seed, "level": level, "coverage": coverage,
          "assumptions": assumptions, "wall_s": round(wall, 2), "violations": violations}
    if extra:
        ev.update(extra)
    with open(os.path.join(EVIDENCE, f"{prop}.json"), "w") as f:
        json.dump(ev, f, indent=1)
    return ev


def load_known():
    p = os.path.join(ROOT, "known_findings.json")
    if os.path.exists(p):
        return json.load(open(p))
    return {"findings": []}
