"""C18: results do not depend on buffering, I/O chunking, backend or run."""
import random

from . import core, gens, hgens
from .checks import Outcome, run_batch, finish, TAGS, FILE_ASSUME

TAGS.update({"C18": {"C01", "C02", "C06", "C18", "PANIC", "HANG", "OPEN", "SETUP"}})

# chunk schedules for the in-memory backend: n > 0 = transfer at most n bytes, 0 = full transfer,
# -1 = fail with ErrorKind::Interrupted (succeeds when retried); cycled
CHUNKS = [[1], [2, 3], [7], [1, -1], [3, -1, 0], [0, -1], [5, 0, 0, -1, 1], [512, -1, 511], [4096, 1]]
MAXBUFS = [1, 1024, 1500, 4096]


def pin_times(ops):
    """After every storage creation the script pins both times of every storage it may have
    created, so that all later images are clock independent; the steps in between are not compared."""
    out = []
    for o in ops:
        if o["op"] == "touch":
            # touch stamps a storage with the clock: the step itself is not compared, the modification time is pinned
            # again right after it (on a stream touch and the time setters have no effect, so nothing needs pinning -
            # and nothing could be pinned if they had)
            out.append(dict(o, cmp=False))
            out.append({"op": "set_mtime", "p": dict(o["p"]), "v": "epoch_150", "cmp": True})
            continue
        o = dict(o)
        if o["op"] in ("create_storage", "create_storage_all"):
            o["cmp"] = False
            out.append(o)
            toks = [t for t in o["p"]["t"]]
            prefixes = [toks] if o["op"] == "create_storage" else [toks[: i + 1] for i in range(len(toks))]
            pins = []
            for pre in prefixes:
                p = {"t": pre, "lead": o["p"].get("lead", True), "trail": False}
                pins.append({"op": "set_ctime", "p": p, "v": "y2038", "cmp": False})
                pins.append({"op": "set_mtime", "p": p, "v": "epoch_150", "cmp": False})
            if pins:
                pins[-1]["cmp"] = True
            out += pins
        else:
            out.append(o)
    return out


def file_bundles(tier, seed):
    rng = random.Random(seed)
    d = gens.Dict("A")
    n = 10 if tier == "quick" else 40
    hs = []
    for si in range(n):
        base = gens.random_history(rng, d, 3, 28 if tier == "quick" else 40, f"s{si}", heavy="marked", reopen_p=0.04, meta_p=0.12)
        ops = pin_times(base["ops"])
        for i, o in enumerate(ops):
            o["heavy"] = (i % 9 == 8) or i == len(ops) - 1
        sid = f"s{si}"
        chunks = CHUNKS if tier == "thorough" else [CHUNKS[(si * 3 + k) % len(CHUNKS)] for k in range(4)]
        for ver in (3, 4):
            grp = f"v{ver}"
            cfgs = [("run1", None, "mem", []), ("run2", None, "mem", []), ("file", None, "file", [])]
            if ver == 4:
                cfgs.append(("path", None, "path", []))      # cfb::create(path) over an existing longer file
            cfgs += [(f"chunks{'_'.join(map(str, c))}", None, "mem", c) for c in chunks]
            for mb in (MAXBUFS if tier == "thorough" else [MAXBUFS[si % 4], MAXBUFS[(si + 1) % 4]]):
                cfgs.append((f"mb{mb}", mb, "mem", []))
                cfgs.append((f"mb{mb}_chunks", mb, "mem", CHUNKS[(si + mb) % len(CHUNKS)]))
            for label, mb, kind, ch in cfgs:
                g = grp if mb is None else f"{grp}mb{mb}"
                h = {"id": f"{sid}_v{ver}_{label}", "ver": ver, "heavy": "marked", "ops": ops,
                     "backend": {"kind": kind, "chunks": ch},
                     "cfg": {"script": sid, "label": f"v{ver}_{label}", "grp": g, "scope": "all"}}
                if mb is not None:
                    h["maxbuf"] = mb
                hs.append(h)
    return hs


def handle_bundles(tier, seed):
    rng = random.Random(seed + 17)
    n = 12 if tier == "quick" else 60
    hs = []
    for si in range(n):
        init = rng.choice([None, 100, 3000, 5000, 9000])
        base = hgens.random_handle_history(rng, f"hs{si}", 3, None, 40, init)
        sid = f"hs{si}"
        for ver in (3, 4):
            for mb in [None] + (MAXBUFS if tier == "thorough" else [MAXBUFS[si % 4]]):
                grp = f"v{ver}mb{mb}"
                chs = [[]] + (CHUNKS if tier == "thorough" else [CHUNKS[(si + k) % len(CHUNKS)] for k in range(3)])
                for ci, ch in enumerate(chs):
                    hs.append(dict(base, id=f"{sid}_v{ver}_mb{mb}_c{ci}", ver=ver, maxbuf=mb, hash=True, chunks=ch,
                                   cfg={"script": sid, "label": f"v{ver}_mb{mb}_chunks{'_'.join(map(str, ch))}", "grp": grp, "scope": "grp"}))
    return hs


def check_c18(tier, seed):
    out = Outcome("C18", tier, seed)
    # design level: however the backend splits a transfer (short counts, Interrupted), the loops below the stream buffer deliver
    # / store exactly the range (CfbChainIO)
    from .checks import design_chainio
    design_chainio(out, 3, 2 if tier == "quick" else 3, 2 if tier == "quick" else 3)
    key = lambda h: h["cfg"]["script"]
    run_batch(out, "file", "A", file_bundles(tier, seed), group_key=key, extra_specs=("Trace_Config",))
    run_batch(out, "handle", "A", handle_bundles(tier, seed), spec="Trace_Handle", driver="hdrive", group_key=key,
              extra_specs=("Trace_Config",))
    # the same bytes and the same options through every constructor: images that only a permissive open accepts (TLC-generated
    # deviations) are dumped a dozen times each, and the dumps go through the in-memory constructors and, every tenth time, through a
    # real file opened by path (read-only / read-write) - a constructor that loses an option on the way answers differently from
    # the others.  (The rule that states it is C16's "strict rejects"; in this batch its failures can only be about the constructor.)
    from . import imagechecks
    c = [x for x in imagechecks.contents(tier) if x["id"] == "c4_mixed"][0]
    hs = []
    for ver in (3, 4):
        devs = imagechecks.tlc_deviations(out, c, ver, 1, 1, 1, 1, seed, False, f"c18_dev_v{ver}")
        for i, D in enumerate(devs[:12] if tier == "quick" else devs):
            hs.append({"id": f"ctor_{ver}_{i}:{D['dev']}", "ver": ver, "heavy": "marked", "layout": D["lay"], "tree": D["tree"],
                       "open_mode": "permissive", "expect": "deviation", "ops": [{"op": "flush", "heavy": True} for _ in range(12)]})
    run_batch(out, "constructors", c["dict"], hs, also_own=("C16",))
    return finish(out, "model_checking",
                  "each script runs under {two runs, std::fs::File, chunked / Interrupted in-memory backends, several max_buffer_size values} x {V3, V4}; "
                  "every run is validated against the same deterministic model (Trace_File / Trace_Handle) and Trace_Config requires identical results across all "
                  "configurations and byte-identical images (hash, length) after every compared step within a version/buffer-size group; storage times are pinned by the script; "
                  "distinct = distinct (script, configuration)",
                  FILE_ASSUME + ["OS-level short reads/writes cannot be forced on std::fs::File; they are emulated by the chunking in-memory backend",
                                 "Interrupted is injected on read and write only (std's retry contract)"])


CCHECKS = {"C18": check_c18}
