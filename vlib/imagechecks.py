"""Checks built on TLC-generated physical images (C04, C05, C11, C16 part 2)."""


def c16_deviations(out, tier, seed):
    pass
