"""Maps property ids to check functions."""
import json

from . import checks, core


def all_checks():
    from . import hchecks, lchecks, cchecks, imagechecks
    d = dict(checks.CHECKS)
    d.update(hchecks.HCHECKS)
    d.update(lchecks.LCHECKS)
    d.update(cchecks.CCHECKS)
    d.update(imagechecks.ICHECKS)
    return d


def run(prop, tier, seed):
    fn = all_checks().get(prop)
    if fn is None:
        raise core.ToolError(f"no check registered for {prop}")
    return fn(tier, seed)


def replay(prop, path):
    """Re-executes the history stored in a replay file on the current tree and
    re-validates it."""
    payload = json.load(open(path))
    all_checks()          # registers every family's failure tags
    if payload.get("kind") == "mc_lock":
        # the counterexample was found by MC_Lock on the extracted programs: extract and model check again
        from . import lchecks
        return lchecks.check_c14("quick", 1)
    out = checks.Outcome(prop, "quick", 0)
    out.replay = True
    hs = payload.get("bundle") or [payload["history"]]
    checks.run_batch(out, "replay", payload["dict"], hs, spec=payload.get("spec", "Trace_File"), nshards=1,
                     driver=payload.get("driver", "drive"), extra_specs=tuple(payload.get("extra_specs") or ()),
                     group_key=(lambda h: 0) if payload.get("bundle") else None)
    level = "exploration" if prop in ("C05", "C11") else "fault_enumeration" if prop in ("C12", "C13") else "model_checking"
    return checks.finish(out, level, "replay of one recorded history (with its configuration bundle where the verdict compares configurations)",
                         checks.FILE_ASSUME)
