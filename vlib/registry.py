"""Maps property ids to check functions."""
import json

from . import checks, core


def all_checks():
    from . import hchecks, lchecks, cchecks, imagechecks
    d = dict(checks.CHECKS)
    d.update(hchecks.HCHECKS)
    d.update(lchecks.LCHECKS)
    d.update(cchecks.CCHECKS)
    d.update(imagechecks.ICHECKS)
    return d


def run(prop, tier, seed):
    fn = all_checks().get(prop)
    if fn is None:
        raise core.ToolError(f"no check registered for {prop}")
    return fn(tier, seed)


def replay(prop, path):
    """Re-executes the history stored in a replay file on the current tree and
    re-validates it."""
    payload = json.load(open(path))
    out = checks.Outcome(prop, "quick", 0)
    checks.run_batch(out, "replay", payload["dict"], [payload["history"]], spec=payload.get("spec", "Trace_File"), nshards=1,
                     driver=payload.get("driver", "drive"))
    return checks.finish(out, "model_checking", "replay of one recorded history", checks.FILE_ASSUME)
