"""Handle-level checks: C06 (byte-vector semantics for every buffer size),
C12 (read faults), C13 (write faults)."""
import json
import re
import os
import random

from . import core, gens, hgens
from .checks import Outcome, run_batch, finish, TAGS

TAGS.update({
    "C06": {"C06", "PANIC", "HANG"},
    "C12": {"C12", "C06", "PANIC", "HANG"},
    "C13": {"C13", "PANIC", "HANG"},
})

H_ASSUME = [
    "verdicts come from TLC evaluating Trace_Handle (reference byte vector with cursor) on recorded calls; short counts are bound from the log",
    "design level: MC_Handle (transcription of stream.rs / stream_buffer.rs) model checked exhaustively at MinBuf=2, Growth=4 units, one write-back atomic",
    "trusted base: harness driver and fault-injecting backend, TLC",
]


def design_handle(out, configs, timeout=900):
    """Exhaustive design-level runs of MC_Handle; a violated invariant here is
    a tool-level failure of the model, not of the code."""
    for (maxbuf, maxlen, faults) in configs:
        cfg = hgens.mc_handle_cfg(maxbuf, maxlen, faults, False)
        edges, gen, distinct = gens.tlc_edges("MC_Handle", cfg, {}, f"mch_{out.prop}_{maxbuf}_{maxlen}_{faults}", workers=6, timeout=timeout)
        out.add_design(gen, distinct)
        out.parts.append({"design": f"MC_Handle MaxBuf={maxbuf} MaxLen={maxlen} MaxFaults={faults}", "states": distinct, "transitions": gen})


def design_fault(out, tier):
    """MC_Fault: CfbFault (the write paths at the granularity of single backend writes, memory / file split) at
    tiny geometry; every reachable state x every operation x every write as the failing one x retry, and the
    same with another operation in between.  As for every design-level run, a violated invariant is a failure
    of the model (exit 2), not a verdict about the code."""
    runs = [(3, False, False, "InvPhys InvThrough InvRetryShow", "{0, 1, 3, 7, 8, 9, 13}"),
            (2, False, True, "InvRetry2Show", "{0, 3, 7, 9, 13}")]
    if tier == "thorough":
        runs = [(4, True, False, "InvPhys InvThrough InvRetryShow", "{0, 1, 3, 7, 8, 9, 13}"),
                (4, False, False, "InvPhys InvThrough InvRetryShow", "{0, 1, 3, 7, 8, 9, 13}"),
                (2, True, True, "InvRetry2Show", "{0, 3, 7, 9, 13}"), (2, False, True, "InvRetry2Show", "{0, 3, 7, 9, 13}")]
    b = lambda x: "TRUE" if x else "FALSE"
    for (maxops, v4, inter, invs, sizes) in runs:
        tag = f"mcf_{maxops}_{int(v4)}_{int(inter)}"
        path = os.path.join(core.SPEC, f"_{tag}.cfg")
        open(path, "w").write(f"""SPECIFICATION Spec
CONSTANTS Names = {{"a", "b", "c"}} Sizes = {sizes} MaxOps = {maxops} V4 = {b(v4)} Old = FALSE Interleave = {b(inter)}
INVARIANT {invs}
CHECK_DEADLOCK FALSE
""")
        try:
            rc, lines = core.run_tlc("MC_Fault.tla", os.path.basename(path), {}, os.path.join(core.WORK, f"md_{tag}"), workers=6,
                                     timeout=7000, xmx="8g", deque=False)
        finally:
            os.remove(path)
        if not core.tlc_ok(lines):
            raise core.ToolError("MC_Fault (design level) failed:\n" + "\n".join(ln[:300] for ln in lines[-30:]))
        gen, distinct = core.tlc_stats(lines)
        out.add_design(gen, distinct)
        out.parts.append({"design": f"MC_Fault tiny geometry MaxOps={maxops} V4={v4} interleaved={inter}: in every state, every enabled operation "
                                    f"x every write of it failing x retry" + (" x one operation on another name in between" if inter else "") +
                                    ": the file opens (CfbOpen), holds the abstract content, chains fit, no sector has two owners, memory = file",
                          "invariants": invs, "states": distinct, "transitions": gen})


def count_calls(hist, cls):
    """Fault-free run of the workload: total number of backend calls of the class and the
    cumulative count after every API call (the boundaries between API calls)."""
    wd = core.workdir("count_calls")
    h = dict(hist, faults={"class": cls, "at": []}, id="count")
    sp = os.path.join(wd, "s.json")
    json.dump({"dict_path": os.path.join(core.DICTDIR, "A.names.json"), "histories": [h]}, open(sp, "w"))
    tp = os.path.join(wd, "t.ndjson")
    core.run_drive("hdrive", sp, tp)
    bounds = [0]
    for ln in open(tp):
        e = json.loads(ln)
        if "calls" in e:
            bounds.append(e["calls"])
    return bounds[-1], bounds


def fault_positions(n, bounds, limit):
    """Positions at which a fault is injected when not every position can be afforded: the first
    and last backend calls of every API call (where its first table update and its final
    directory-entry / header write sit), an even sample of each call's interior, and an even
    sample of the whole run."""
    ks = set()
    for c0, c1 in zip(bounds, bounds[1:]):
        if c1 <= c0:
            continue
        ks.update(range(c0 + 1, min(c1, c0 + 6) + 1))
        ks.update(range(max(c0 + 1, c1 - 2), c1 + 1))
        m = c1 - c0
        if m > 9:
            ks.update(c0 + 1 + int(i * m / 6) for i in range(1, 6))
    ks = sorted(k for k in ks if 1 <= k <= n)
    if len(ks) > limit:                    # keep the call starts, thin the rest evenly
        step = len(ks) / limit
        ks = sorted(set(ks[int(i * step)] for i in range(limit)))
    rest = limit - len(ks)
    if rest > 0:
        step = n / rest
        ks = sorted(set(ks) | set(min(n, int(i * step) + 1) for i in range(rest)))
    return ks


def handle_fidelity(lines, prop):
    """Trace_HandleFid output: cache states of real handles (hook Stream::verif_state) predicted by CfbHandle."""
    compared = sum(int(m.group(1)) for m in (re.match(r'^<<"HCOMPARED", (\d+)>>', ln) for ln in lines) if m)
    kinds = {}
    for ln in lines:
        if ln.startswith('<<"HDRIFT"'):
            parts = ln.split('"')
            k = f"{parts[3]} after {parts[5]}"
            kinds[k] = kinds.get(k, 0) + 1
    for k, n in sorted(kinds.items())[:12]:
        print(f"SPEC-DRIFT {prop} CfbHandle does not predict the handle's cache state: {k} x{n}")
    refills = sum(int(m.group(1)) for m in (re.match(r'^<<"HREFILLS", (\d+)>>', ln) for ln in lines) if m)
    return {"handle_cache_states_compared_with_CfbHandle": compared,
            "refills_whose_backend_read_count_CfbChainIO_predicted": refills - sum(n for k, n in kinds.items() if k.startswith("backend-reads")),
            "refills_compared": refills, "cache_drift": kinds}


def check_c06(tier, seed):
    out = Outcome("C06", tier, seed)
    flines = []
    rng = random.Random(seed)
    design_handle(out, [(2, 4, 0), (3, 4, 0)] + ([(5, 4, 0), (8, 4, 0), (32, 4, 0), (3, 5, 0)] if tier == "thorough" else []))
    depth = 4 if tier == "quick" else 5
    edges, gen, distinct = gens.tlc_edges("MC_Handle", hgens.mc_handle_cfg(3, 4, 0, True, depth=depth), {}, "mch_edges", workers=6)
    if tier == "quick" and len(edges) > 6000:
        edges = edges[:6000]            # BFS order: quick is a prefix of thorough
    run_batch(out, "edges", "A", hgens.edge_histories(edges, 4, tier), spec="Trace_Handle", driver="hdrive",
              extra_specs=("Trace_HandleFid",), keep=flines)
    n = 120 if tier == "quick" else 1500
    hs = []
    for i in range(n):
        ver = 3 if i % 2 == 0 else 4
        mb = hgens.CONFIGS[(i // 2) % len(hgens.CONFIGS)]
        init = rng.choice([None, 100, 3000, 5000, 9000])
        hs.append(hgens.random_handle_history(rng, f"hr{i}", ver, mb, 45, init))
    # the same script under every buffer size: results must be explainable by the same reference vector
    base = hgens.random_handle_history(random.Random(seed + 99), "same", 3, None, 60, 3000)
    for ver in (3, 4):
        for mb in hgens.CONFIGS:
            hs.append(dict(base, id=f"same_v{ver}_mb{mb}", ver=ver, maxbuf=mb))
    run_batch(out, "random", "A", hs, spec="Trace_Handle", driver="hdrive", extra_specs=("Trace_HandleFid",), keep=flines)
    # truncate-then-extend inside the same final (mini) sector: a byte vector pads with zeros
    run_batch(out, "setlen-within-unit", "A", hgens.setlen_within_unit_histories(tier) + hgens.dirty_growth_histories(tier)[::2], spec="Trace_Handle", driver="hdrive",
              extra_specs=("Trace_HandleFid",), keep=flines)
    # beyond the listed properties (informational, tag XDROP): the handle outlives the CompoundFile
    run_batch(out, "file-dropped", "A", hgens.dropped_file_histories(tier, seed), spec="Trace_Handle", driver="hdrive")
    return finish(out, "model_checking",
                  "transition coverage of the MC_Handle graph (BFS depth bound) scaled by 512 bytes/unit and replayed under max_buffer_size in {1,1024,1536,2560,4096,default} x V3/V4; "
                  "seeded random call sequences with sizes straddling 64/1024/4096/sector/buffer capacity and i64/u64 extreme seeks; "
                  "fidelity: Trace_HandleFid replays the fault-free histories through CfbHandle at the real constants and compares the predicted cache state "
                  "(window offset, cursor, filled, allocated, dirty, length) with the hook Stream::verif_state after every call", H_ASSUME,
                  {"fidelity": handle_fidelity(flines, "C06")})


FAULT_KINDS = ["", "unexpected_eof", "", "would_block", "", "timed_out", "", "invalid_data", "", "write_zero", ""]


def fault_histories(workloads, cls, tier, rng, label, kind=None):
    hs = []
    for wi, w in enumerate(workloads):
        n, bounds = count_calls(w, cls)
        ks = list(range(1, n + 1))
        limit = 420 if tier == "quick" else 100000
        if w.get("every_k"):
            limit = max(limit, 3000)
        if w.get("fault_ops"):
            # long workload (thousands of calls in the read-backs): every position INSIDE the named API calls only
            fo = w["fault_ops"] if tier == "thorough" or "fault_ops_quick" not in w else w["fault_ops_quick"]
            ks = sorted(k for oi in fo if oi + 1 < len(bounds) for k in range(bounds[oi] + 1, bounds[oi + 1] + 1))
        elif len(ks) > limit:
            ks = fault_positions(n, bounds, limit)
        for k in ks:
            # the kind of the injected error varies with the position (Other most often; UnexpectedEof, WouldBlock, TimedOut,
            # InvalidData, WriteZero now and then): any failure is a failure, whatever kind it carries
            kk = kind if kind is not None else FAULT_KINDS[k % len(FAULT_KINDS)]
            hs.append(dict(w, id=f"{label}{wi}_k{k}", faults=dict({"class": cls, "at": [k]}, **({"kind": kk} if kk else {}))))
        if tier == "thorough" and not w.get("fault_ops"):
            for _ in range(min(2000, n * 3)):
                k1, k2 = sorted(rng.sample(range(1, n + 1), 2))
                hs.append(dict(w, id=f"{label}{wi}_k{k1}_{k2}", faults={"class": cls, "at": [k1, k2]}))
    return hs


def check_c12(tier, seed):
    out = Outcome("C12", tier, seed)
    rng = random.Random(seed)
    design_handle(out, [(3, 3, 1)] + ([(3, 4, 1), (2, 3, 2)] if tier == "thorough" else []))
    from .checks import design_chainio
    design_chainio(out, 3, 2 if tier == "quick" else 3, 2 if tier == "quick" else 3)
    wl = [hgens.ro_workload(3, 1024), hgens.ro_workload(4, None), hgens.ro_small_workload(3, None), hgens.ro_small_workload(4, 1024)]
    if tier == "thorough":
        wl += [hgens.ro_workload(3, None), hgens.ro_workload(4, 1024), hgens.ro_workload(3, 2560)]
    hs = fault_histories(wl, "r", tier, rng, "ro")
    run_batch(out, "faults", "A", hs, spec="Trace_Handle", driver="hdrive")
    # faults at the reads of `open` itself on a file with two FAT sectors (a table assembled from what could be read), sampled
    hs = fault_histories([hgens.ro_open_workload(3, 1024, True), hgens.ro_open_workload(3, 1024, False)], "r", "thorough", rng, "roopen")
    hs = [h for h in hs if len(h["faults"]["at"]) == 1]
    if tier == "quick":
        hs = hs[:: max(1, len(hs) // 220)]
    run_batch(out, "open_faults", "A", hs, spec="Trace_Handle", driver="hdrive")
    # the same positions failing with ErrorKind::Interrupted, which std's read_exact loops retry silently:
    # a retried transfer must not have moved anything
    hs = fault_histories(wl[:3] if tier == "quick" else wl, "r", "quick" if tier == "quick" else "thorough", rng, "roi", kind="interrupted")
    hs = [h for h in hs if len(h["faults"]["at"]) == 1]
    run_batch(out, "interrupted", "A", hs, spec="Trace_Handle", driver="hdrive")
    return finish(out, "fault_enumeration",
                  "k-th backend read/seek call of a read-only workload fails (quick: every k up to 420 calls, beyond that the first and last backend calls of every API call plus an even sample; thorough: every k and sampled pairs); each call must return Err or exactly the fault-free result; "
                  "after an error the handle is asked for its position and read again; distinct = distinct (workload, fault positions)",
                  H_ASSUME)


def check_c13(tier, seed):
    out = Outcome("C13", tier, seed)
    rng = random.Random(seed)
    design_handle(out, [(3, 3, 1)] + ([(3, 4, 1), (2, 3, 2)] if tier == "thorough" else []))
    design_fault(out, tier)
    wl = [hgens.rw_workload(3, 1024, 0), hgens.rw_workload(4, None, 1), hgens.rw_workload(3, None, 2), hgens.rw_workload(3, None, 3)]
    if tier == "thorough":
        wl += [hgens.rw_workload(3, None, 1), hgens.rw_workload(4, 1024, 0), hgens.rw_workload(3, 2560, 1), hgens.rw_workload(4, 1024, 2), hgens.rw_workload(4, 1024, 3)]
    wl += hgens.rw_small_workloads()
    hs = fault_histories(wl, "w", tier, rng, "rw")
    run_batch(out, "faults", "A", hs, spec="Trace_Handle", driver="hdrive")
    # fidelity of CfbFault's ORDER of table writes: recorded write calls of file-level histories against the model
    from . import gens
    from .checks import random_batches
    wlines = []
    hs = [dict(h, wlog=True, heavy="none") for h in random_batches(seed + 21, tier, 40, 400, 40, dicts=("A",), meta_p=0.0)["A"]]
    run_batch(out, "writeorder", "A", hs, spec="Trace_Writes", keep=wlines)
    wcmp = sum(int(m.group(1)) for m in (re.match(r'^<<"WCOMPARED", (\d+)>>', ln) for ln in wlines) if m)
    wdrift = [ln for ln in wlines if ln.startswith('<<"WDRIFT"')]
    kinds = {}
    for ln in wdrift:
        k = ln.split('"')[3]
        kinds[k] = kinds.get(k, 0) + 1
    for k, n in sorted(kinds.items()):
        print(f"SPEC-DRIFT C13 CfbFault does not predict the order of the table writes of: {k} x{n}")
    return finish(out, "fault_enumeration",
                  "design level: MC_Fault (CfbFault = the write paths write by write, memory / file split; every state x operation x failing write x retry, "
                  "and with another operation in between) at tiny geometry; fidelity: Trace_Writes compares the order of the table writes CfbFault predicts "
                  "with the recorded write calls; "
                  "k-th backend write/seek/flush call of a mutating workload fails (quick: every k up to 420 calls, beyond that the first and last backend calls of every API call plus an even sample; thorough: every k and sampled pairs): the API call during which it fires must return Err, nothing later may panic or hang, "
                  "and an Ok flush must make every accepted byte readable through a fresh handle; the failed call is retried",
                  H_ASSUME, {"fidelity": {"operations_whose_table_write_order_was_compared_with_CfbFault": wcmp, "write_order_drift": kinds}})


HCHECKS = {"C06": check_c06, "C12": check_c12, "C13": check_c13}
