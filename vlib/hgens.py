"""Handle-level script generators (C06, C12, C13, C18)."""
import json
import os
import random

from . import core, gens

UNIT = 512          # bytes per model unit: MinBuf = 2 units = 1024 bytes, Growth = 4


def mc_handle_cfg(maxbuf, maxlen, faults, emit, depth=None, fixd=True, fixr=True):
    cons = f"CONSTRAINT DepthBound\n" if depth is not None else ""
    return f"""SPECIFICATION Spec
CONSTANTS MinBuf = 2 Growth = 4 MaxBuf = {maxbuf} FixDirty = {"TRUE" if fixd else "FALSE"} FixRefill = {"TRUE" if fixr else "FALSE"}
CONSTANTS MaxLen = {maxlen} MaxFaults = {faults} Emit = {"TRUE" if emit else "FALSE"} Depth = {depth if depth is not None else 99}
VIEW View_
{cons}ACTION_CONSTRAINT EmitEdge
INVARIANT Coupled ReadsRight WritesProgress FlushDurable ViewRight InvCache
CHECK_DEADLOCK FALSE
"""


def scale(ops, maxlen, jitter=0, fill=None):
    """Maps a model-unit op sequence to a real-scale script."""
    fill = fill or gens.Fill()
    out = []
    for o in ops:
        k = o["op"]
        if k == "read":
            out.append({"op": "read", "n": max(0, o["n"] * UNIT + (jitter if o["n"] else 0))})
        elif k == "fill_buf":
            out.append({"op": "fill_buf"})
        elif k == "consume":
            out.append({"op": "consume", "n": max(1, o["n"] * UNIT + jitter)})
        elif k == "write":
            out.append({"op": "write", "runs": [[fill.next(), max(1, o["n"] * UNIT + jitter)]]})
        elif k == "seek":
            if o["to"] < 0:
                out.append({"op": "seek", "whence": "end", "d": -((maxlen + 4) * UNIT) - 7, "sym": ""})
            elif o["to"] > maxlen:
                out.append({"op": "seek", "whence": "start", "d": (maxlen + 4) * UNIT + 7, "sym": ""})
            else:
                out.append({"op": "seek", "whence": "start", "d": max(0, o["to"] * UNIT + (jitter if o["to"] else 0)), "sym": ""})
        elif k == "set_len":
            out.append({"op": "set_len", "n": max(0, o["n"] * UNIT + (jitter if o["n"] else 0))})
        elif k == "flush":
            out.append({"op": "flush"})
            out.append({"op": "fresh_read"})
        out.append({"op": "len"})
    out.append({"op": "position"})
    out.append({"op": "flush"})
    out.append({"op": "fresh_read"})
    return out


PRELUDE = [{"op": "open"}, {"op": "create_stream", "name": "a"}]
CONFIGS = [1, 1024, 1536, 2560, 4096, None, 0]      # 0 and 1: below the 1024-byte minimum (clamped up to it)


def edge_histories(edges, maxlen, tier):
    hs = []
    for i, e in enumerate(edges):
        for jitter in ((0,) if tier == "quick" else (0, 1, -1)):
            ops = PRELUDE + scale(e, maxlen, jitter)
            mb = CONFIGS[i % len(CONFIGS)]
            ver = 3 if (i // len(CONFIGS)) % 2 == 0 else 4
            hs.append({"id": f"he{i}_j{jitter}", "ver": ver, "maxbuf": mb, "mode": "plain", "streams": [], "ops": ops})
    return hs


SZ = [0, 1, 63, 64, 65, 100, 511, 512, 513, 1023, 1024, 1025, 1500, 2048, 4095, 4096, 4097, 5000, 9000]


def random_handle_history(rng, hid, ver, maxbuf, nops=40, init=None, derived=None):
    """derived: some transfers go through the other methods of io::Read / Write / Seek (read_exact, read_vectored, take +
    read_to_end, write_vectored, rewind, seek_relative), each logged as the read / write / seek it amounts to.  Decided per
    history (every third one) so that the cache-state model, which transcribes the primitive calls only, follows the others."""
    if derived is None:
        derived = sum(map(ord, hid)) % 3 == 2
    f = gens.Fill()
    ops = [{"op": "open"}]
    streams = []
    if init is not None:
        streams = [{"name": "a", "runs": f.runs(rng, init)}]
        ops.append({"op": "open_stream", "name": "a"})
    else:
        ops.append({"op": "create_stream", "name": "a"})
    syms = ["i64min", "i64max", "u64max", "i64min1"]
    while len(ops) < nops:
        r = rng.random()
        if r < 0.22:
            ops.append({"op": "write", "runs": f.runs(rng, rng.choice(SZ[1:]))})
            if derived and rng.random() < 0.3:
                ops[-1]["via"] = "vectored"
        elif r < 0.40:
            ops.append({"op": "read", "n": rng.choice(SZ)})
            if derived and rng.random() < 0.5:
                ops[-1]["via"] = rng.choice(["exact", "vectored", "take"])
        elif r < 0.47:
            ops.append({"op": "fill_buf"})
            ops.append({"op": "consume", "n": rng.choice([1, 10, 64, 1024, 5000])})
        elif r < 0.65:
            wh = rng.choice(["start", "end", "cur"])
            if rng.random() < 0.12:
                # Start takes a u64: only the large extremes exist there
                ops.append({"op": "seek", "whence": wh, "d": 0,
                            "sym": rng.choice(["u64max", "i64max"] if wh == "start" else syms)})
            else:
                d = rng.choice(SZ)
                if wh == "end":
                    d = -d if rng.random() < 0.9 else d
                elif wh == "cur":
                    d = d if rng.random() < 0.5 else -d
                ops.append({"op": "seek", "whence": wh, "d": d, "sym": ""})
                if derived and wh == "cur" and rng.random() < 0.5:
                    ops[-1]["via"] = "relative"
                if derived and rng.random() < 0.1:
                    ops.append({"op": "seek", "whence": "start", "d": 0, "sym": "", "via": "rewind"})
        elif r < 0.75:
            if rng.random() < 0.1:
                ops.append({"op": "set_len", "n": 0, "sym": rng.choice(["u64max", "u64max1", "i64max"])})
                ops.append({"op": "len"})
                ops.append({"op": "position"})
            else:
                ops.append({"op": "set_len", "n": rng.choice(SZ)})
        elif r < 0.83:
            ops.append({"op": "flush"})
            ops.append({"op": "fresh_read"})
        elif r < 0.90:
            ops.append({"op": "position"})
        elif r < 0.95:
            ops.append({"op": "len"})
        else:
            ops.append({"op": "read_to_end"})
    ops += [{"op": "position"}, {"op": "flush"}, {"op": "fresh_read"}, {"op": "close"},
            {"op": "open_stream", "name": "a"}, {"op": "read_to_end"}]
    h = {"id": hid, "ver": ver, "maxbuf": maxbuf, "mode": "plain", "streams": streams, "ops": ops}
    if derived:
        h["nofid"] = True
    return h


# ---------------------------------------------------------------------------
# Fault workloads

def ro_workload(ver, maxbuf):
    """Read-only workload with built-in retries (static scripts cannot react
    to an error, so every call that may fail is followed by a position query
    and issued twice)."""
    f = gens.Fill()
    rng = random.Random(7)
    streams = [{"name": "a", "runs": f.runs(rng, 3000)}, {"name": "bar", "runs": f.runs(rng, 9000)},
               {"name": "c", "runs": f.runs(rng, 64)}]
    ops = [{"op": "open"}, {"op": "open"}, {"op": "walk"}, {"op": "entry", "name": "a"}, {"op": "exists", "name": "zz"}]
    for name, reads in (("a", [100, 1000, 2000, 5000]), ("bar", [1024, 3000, 5000, 100, 9000]), ("c", [10, 100])):
        ops += [{"op": "open_stream", "name": name}, {"op": "open_stream", "name": name}]
        for n in reads:
            ops += [{"op": "read", "n": n}, {"op": "position"}, {"op": "read", "n": n}, {"op": "position"}]
        ops += [{"op": "seek", "whence": "start", "d": 10, "sym": ""}, {"op": "position"},
                {"op": "fill_buf"}, {"op": "position"}, {"op": "fill_buf"}, {"op": "consume", "n": 7}, {"op": "position"},
                {"op": "seek", "whence": "end", "d": -50, "sym": ""}, {"op": "position"},
                {"op": "read", "n": 100}, {"op": "position"}, {"op": "read", "n": 100}, {"op": "position"},
                {"op": "seek", "whence": "start", "d": 0, "sym": ""}, {"op": "position"},
                {"op": "read_to_end"}, {"op": "position"}, {"op": "seek", "whence": "start", "d": 0, "sym": ""},
                {"op": "position"}, {"op": "read_to_end"}, {"op": "close"}]
    return {"ver": ver, "maxbuf": maxbuf, "mode": "ro_faults", "streams": streams, "ops": ops}


def ro_small_workload(ver, maxbuf):
    """Several very short streams created first in a fresh file, so that their mini sector numbers are 0, 1, 2, 3 ... - numbers
    that, misread as REGULAR sector numbers, name the FAT, directory and MiniFAT sectors (one-sector chains): a failure while
    such a stream is read must surface as an error, not as a second attempt somewhere else."""
    f = gens.Fill()
    rng = random.Random(13)
    streams = [{"name": "k1", "runs": [[f.next(), 64]]}, {"name": "k2", "runs": [[f.next(), 40], [f.next(), 60]]},
               {"name": "k3", "runs": [[f.next(), 300], [f.next(), 200]]}, {"name": "k4", "runs": [[f.next(), 30]]},
               {"name": "bar", "runs": f.runs(rng, 5000)}]
    ops = [{"op": "open"}, {"op": "open"}]
    for name in ("k2", "k1", "k4", "k3"):
        ops += [{"op": "open_stream", "name": name}, {"op": "open_stream", "name": name}]
        for _ in range(2):
            ops += [{"op": "seek", "whence": "start", "d": 0, "sym": ""}, {"op": "read", "n": 700}, {"op": "position"},
                    {"op": "read", "n": 700}, {"op": "position"}]
        ops += [{"op": "seek", "whence": "start", "d": 0, "sym": ""}, {"op": "read_to_end"}, {"op": "close"}]
    return {"ver": ver, "maxbuf": maxbuf, "mode": "ro_faults", "streams": streams, "ops": ops}


def ro_open_workload(ver, maxbuf, twice=True):
    """Faults while a file of SEVERAL FAT sectors is opened (version 3: more than 64 KiB), then reads at both ends of the long
    stream and of a short one whose mini sectors lie behind it: a table that was assembled wrongly because a failed read was
    skipped shows as wrong bytes, not as an error."""
    f = gens.Fill()
    rng = random.Random(11)
    # (the long stream changes its fill byte every 500 bytes: a chain that is followed wrongly by one sector must not deliver
    # the same bytes)
    streams = [{"name": "a", "runs": [[f.next(), 500] for _ in range(140)]}, {"name": "bar", "runs": [[f.next(), 60] for _ in range(50)]},
               {"name": "c", "runs": f.runs(rng, 700)}]
    if not twice:
        # second shape: no chain crosses the boundary between the first FAT sector's range and the second's (sectors 127 / 128):
        # eleven 8-sector streams and one of 35 sectors fill sectors 2..127 exactly (with the three further directory sectors),
        # then the second FAT sector, then a regular stream and two short ones that live entirely in the second range
        # (sixteen directory entries in all: the four directory sectors exist before the boundary is reached)
        names = ["k1", "k2", "k3", "k4", "k5", "k6", "f1", "f2", "f3", "f4", "f5", "f6"]
        streams = [{"name": n, "runs": [[f.next(), 4096]]} for n in names[:11]] + [{"name": names[11], "runs": [[f.next(), 17920]]}]
        # (regular streams only: with a MiniFAT chain in the second range a shifted table no longer opens at all)
        streams += [{"name": "a", "runs": [[f.next(), 500] for _ in range(20)]}, {"name": "bar", "runs": [[f.next(), 500] for _ in range(10)]},
                    {"name": "c", "runs": [[f.next(), 500] for _ in range(9)]}]
    # twice: the open is retried (an open that failed is followed by one that works); once: whatever the faulted open returned
    # is what the reads go through - an open that swallowed the failure and answered Ok must still have loaded the right tables
    ops = ([{"op": "open"}, {"op": "open"}] if twice else [{"op": "open"}]) + [{"op": "walk"}]
    for name, seeks in (("a", [0, 30000, 66000, 69000] if twice else [0, 3000, 7000]), ("bar", [0, 2000]), ("c", [0, 3000] if not twice else [0])):
        ops += [{"op": "open_stream", "name": name}, {"op": "open_stream", "name": name}]
        for d in seeks:
            ops += [{"op": "seek", "whence": "start", "d": d, "sym": ""}, {"op": "read", "n": 900}, {"op": "position"},
                    {"op": "read", "n": 900}, {"op": "position"}]
        ops += [{"op": "seek", "whence": "start", "d": 0, "sym": ""}, {"op": "read_to_end"}, {"op": "close"}]
    # only the positions inside the two `open` calls are swept
    return {"ver": ver, "maxbuf": maxbuf, "mode": "ro_faults", "streams": streams, "ops": ops, "fault_ops": [0, 1] if twice else [0]}


def rw_remove_workload(ver, maxbuf):
    """Streams are removed (each call issued twice: a failed release is retried), then two new
    streams are written into the released space and flushed; every stream that no failed call
    touched must read back exactly - a sector handed out twice shows up as one stream's bytes
    inside the other."""
    f = gens.Fill()
    rng = random.Random(23)
    streams = [{"name": "bar", "runs": f.runs(rng, 5000)}, {"name": "d", "runs": f.runs(rng, 9000)},
               {"name": "m", "runs": f.runs(rng, 300)}, {"name": "n", "runs": f.runs(rng, 200)}]
    w = lambda n: {"op": "write", "runs": f.runs(rng, n)}
    FL = [{"op": "flush"}, {"op": "position"}, {"op": "flush"}, {"op": "fresh_read"}]
    ops = [{"op": "open"}]
    for nm in ("d", "m"):
        ops += [{"op": "remove_stream", "name": nm}, {"op": "remove_stream", "name": nm}, {"op": "exists", "name": nm}]
    for nm, n in (("b", 4500), ("c", 4500), ("e", 4500), ("s", 100), ("t", 100), ("u", 200)):
        ops += [{"op": "create_stream", "name": nm}, {"op": "create_stream", "name": nm},
                {"op": "write_all", "runs": f.runs(rng, n)}, {"op": "position"}] + FL + [{"op": "close"}]
    for nm in ("b", "c", "e", "s", "t", "u", "bar", "n"):
        ops += [{"op": "open_stream", "name": nm}, {"op": "open_stream", "name": nm}, {"op": "fresh_read"}, {"op": "read_to_end"}, {"op": "close"}]
    return {"ver": ver, "maxbuf": maxbuf, "mode": "rw_faults", "streams": streams, "ops": ops}


def rw_two_handle_workload(ver, maxbuf):
    """Two handles: a write-back of /a that changes its size class (mini -> regular, later regular -> mini) may
    fail; while that handle is set aside with the failure outstanding, /b (/c) is created in the space the
    failed call may have released, written and flushed; then /a's call is retried.  Every stream that was
    flushed with Ok and that no failed call touched must still read back."""
    f = gens.Fill()
    rng = random.Random(31)
    streams = [{"name": "bar", "runs": f.runs(rng, 5000)}]
    wa = lambda n: {"op": "write_all", "runs": f.runs(rng, n)}
    FL = [{"op": "flush"}, {"op": "position"}, {"op": "flush"}, {"op": "fresh_read"}]
    other = lambda nm, n: [{"op": "park"}, {"op": "create_stream", "name": nm}, {"op": "create_stream", "name": nm}, wa(n), {"op": "position"}] + FL + \
                          [{"op": "close"}, {"op": "unpark"}]
    ops = [{"op": "open"}, {"op": "create_stream", "name": "a"}, {"op": "create_stream", "name": "a"}, wa(3000), {"op": "position"}] + FL
    # mini -> regular: the write-back of the next 2000 bytes migrates /a
    ops += [wa(2000), {"op": "position"}, {"op": "flush"}, {"op": "position"}] + other("b", 3000) + FL
    # regular -> shorter regular: the tail of /a's chain is released sector by sector; /e takes what a half-done release left on
    # the free list; then the shrink is retried
    ops += [{"op": "seek", "whence": "end", "d": 0, "sym": ""}, wa(9000), {"op": "position"}] + FL
    ops += [{"op": "set_len", "n": 6000}, {"op": "position"}] + other("e", 6000) + [{"op": "set_len", "n": 6000}, {"op": "position"}] + FL
    # regular -> mini: set_len below the cutoff migrates /a back
    ops += [{"op": "set_len", "n": 2500}, {"op": "position"}] + other("c", 6000) + [{"op": "set_len", "n": 2500}, {"op": "position"}] + FL
    # to nothing: the chain is released
    ops += [{"op": "set_len", "n": 0}, {"op": "position"}] + other("d", 2000) + [{"op": "set_len", "n": 0}, {"op": "position"}] + FL + [{"op": "close"}]
    for nm in ("b", "e", "c", "d", "bar", "a"):
        ops += [{"op": "open_stream", "name": nm}, {"op": "open_stream", "name": nm}, {"op": "fresh_read"}, {"op": "read_to_end"}, {"op": "close"}]
    return {"ver": ver, "maxbuf": maxbuf, "mode": "rw_faults", "streams": streams, "ops": ops}


def rw_small_workloads():
    """Short workloads around the FIRST use of each table (first mini sector of a file: MiniFAT chain, header
    fields, mini stream container; first growth of an existing MiniFAT; migration in both directions).  They are
    short enough for a fault at EVERY backend call in the quick tier."""
    f = gens.Fill()
    rng = random.Random(41)
    w = lambda n: {"op": "write", "runs": f.runs(rng, n)}
    FL = [{"op": "flush"}, {"op": "position"}, {"op": "flush"}, {"op": "fresh_read"}]
    reread = lambda nm: [{"op": "open_stream", "name": nm}, {"op": "open_stream", "name": nm}, {"op": "fresh_read"}, {"op": "close"}]
    out = []
    for ver in (3, 4):
        ops = [{"op": "open"}, {"op": "create_stream", "name": "a"}, {"op": "create_stream", "name": "a"}, w(700), {"op": "position"}] + FL + \
              [{"op": "close"}] + reread("a")
        out.append({"ver": ver, "maxbuf": 1024, "mode": "rw_faults", "streams": [], "ops": ops, "every_k": True})
    streams = [{"name": "bar", "runs": f.runs(rng, 5000)}, {"name": "m", "runs": f.runs(rng, 300)}]
    ops = [{"op": "open"}, {"op": "open_stream", "name": "m"}, {"op": "open_stream", "name": "m"},
           {"op": "seek", "whence": "end", "d": 0, "sym": ""}, {"op": "position"}, w(200), {"op": "position"}] + FL + \
          [{"op": "set_len", "n": 5000}, {"op": "position"}, {"op": "set_len", "n": 5000}, {"op": "position"}] + FL + \
          [{"op": "set_len", "n": 100}, {"op": "position"}, {"op": "set_len", "n": 100}, {"op": "position"}] + FL + \
          [{"op": "close"}] + reread("m") + reread("bar")
    out.append({"ver": 3, "maxbuf": None, "mode": "rw_faults", "streams": streams, "ops": ops, "every_k": True})
    # the allocation that needs a second FAT sector (the 129th sector of a version 3 file)
    streams = [{"name": "bar", "runs": f.runs(rng, 62000)}]
    ops = [{"op": "open"}, {"op": "open_stream", "name": "bar"}, {"op": "open_stream", "name": "bar"},
           {"op": "seek", "whence": "end", "d": 0, "sym": ""}, {"op": "position"},
           {"op": "write_all", "runs": f.runs(rng, 3000)}, {"op": "position"}] + FL + \
          [{"op": "close"}, {"op": "create_stream", "name": "b"}, {"op": "create_stream", "name": "b"},
           {"op": "write_all", "runs": f.runs(rng, 5000)}, {"op": "position"}] + FL + [{"op": "close"}] + reread("bar") + reread("b")
    out.append({"ver": 3, "maxbuf": None, "mode": "rw_faults", "streams": streams, "ops": ops, "every_k": True})
    # the allocation that needs the 110th FAT sector of a version 3 file: the header's 109 DIFAT slots are full, a DIFAT
    # sector is added as well (7.1 MB; the stream is written before the faults are armed), then the file keeps growing
    streams = [{"name": "bar", "runs": [[f.next(), 3000000], [f.next(), 4080000]]}]
    ops = [{"op": "open"}, {"op": "open_stream", "name": "bar"}, {"op": "open_stream", "name": "bar"},
           {"op": "seek", "whence": "end", "d": 0, "sym": ""}, {"op": "position"},
           {"op": "write_all", "runs": f.runs(rng, 10000)}, {"op": "position"}] + FL + \
          [{"op": "seek", "whence": "end", "d": 0, "sym": ""}, {"op": "position"},
           {"op": "write_all", "runs": f.runs(rng, 70000)}, {"op": "position"}] + FL + \
          [{"op": "close"}, {"op": "create_stream", "name": "b"}, {"op": "create_stream", "name": "b"},
           {"op": "write_all", "runs": f.runs(rng, 5000)}, {"op": "position"}] + FL + [{"op": "close"}] + reread("bar") + reread("b")
    # faults inside the two appends and their flushes (op indexes); the read-backs alone are 40,000 backend calls
    out.append({"ver": 3, "maxbuf": None, "mode": "rw_faults", "streams": streams, "ops": ops,
                "fault_ops": [5, 7, 9, 13, 15, 17], "fault_ops_quick": [5, 7]})
    # removal of an entry with two children whose predecessor is not its own child (sibling tree k4 -> (k2 -> k1, k3), k6):
    # several links are rewritten; every other entry must still be there after a failed and retried removal
    for ver in (3, 4):
        streams = [{"name": nm, "runs": f.runs(rng, 100)} for nm in ("k4", "k2", "k6", "k1", "k3", "k5")]
        ops = [{"op": "open"}, {"op": "remove_stream", "name": "k4"}, {"op": "remove_stream", "name": "k4"}, {"op": "exists", "name": "k4"}]
        for nm in ("k1", "k2", "k3", "k5", "k6"):
            ops += reread(nm)
        ops += [{"op": "remove_stream", "name": "k2"}, {"op": "remove_stream", "name": "k2"}]
        for nm in ("k1", "k3", "k5", "k6"):
            ops += reread(nm)
        out.append({"ver": ver, "maxbuf": None, "mode": "rw_faults", "streams": streams, "ops": ops, "every_k": True})
    # a failed call whose leftovers meet ANOTHER call before it is retried:
    #  - remove_stream fails while releasing the chain; a new stream is written into the released space; the removal is retried
    #  - create_stream fails while adding a directory sector; an entry is removed; the creation is retried in the freed slot
    streams = [{"name": "bar", "runs": f.runs(rng, 5000)}, {"name": "d", "runs": f.runs(rng, 9000)}, {"name": "m", "runs": f.runs(rng, 300)}]
    ops = [{"op": "open"}, {"op": "remove_stream", "name": "d"},
           {"op": "create_stream", "name": "b"}, {"op": "create_stream", "name": "b"}, {"op": "write_all", "runs": f.runs(rng, 6000)}, {"op": "position"}] + FL + \
          [{"op": "close"}, {"op": "remove_stream", "name": "d"}, {"op": "remove_stream", "name": "m"},
           {"op": "create_stream", "name": "c"}, {"op": "create_stream", "name": "c"}, {"op": "write_all", "runs": f.runs(rng, 200)}, {"op": "position"}] + FL + \
          [{"op": "close"}, {"op": "remove_stream", "name": "m"}] + reread("b") + reread("c") + reread("bar")
    out.append({"ver": 3, "maxbuf": None, "mode": "rw_faults", "streams": streams, "ops": ops, "every_k": True})
    # create_stream over an existing stream (truncation to nothing), failed and retried: the truncation must be in the file
    streams = [{"name": "a", "runs": f.runs(rng, 5000)}, {"name": "m", "runs": f.runs(rng, 300)}]
    ops = [{"op": "open"}]
    for nm in ("a", "m"):
        ops += [{"op": "create_stream", "name": nm}, {"op": "create_stream", "name": nm}] + FL + [{"op": "close"}] + reread(nm)
    out.append({"ver": 3, "maxbuf": None, "mode": "rw_faults", "streams": streams, "ops": ops, "every_k": True})
    streams = [{"name": nm, "runs": f.runs(rng, 100)} for nm in ("k1", "k2", "k3")]
    ops = [{"op": "open"}, {"op": "create_stream", "name": "k5"}, {"op": "remove_stream", "name": "k2"}, {"op": "remove_stream", "name": "k2"},
           {"op": "create_stream", "name": "k5"}, {"op": "write_all", "runs": f.runs(rng, 150)}, {"op": "position"}] + FL + \
          [{"op": "close"}] + reread("k5") + reread("k1") + reread("k3")
    out.append({"ver": 3, "maxbuf": None, "mode": "rw_faults", "streams": streams, "ops": ops, "every_k": True})
    return out


def rw_workload(ver, maxbuf, variant=0):
    if variant == 2:
        return rw_remove_workload(ver, maxbuf)
    if variant == 3:
        return rw_two_handle_workload(ver, maxbuf)
    f = gens.Fill()
    rng = random.Random(11 + variant)
    streams = [{"name": "bar", "runs": f.runs(rng, 5000)}]
    w = lambda n: {"op": "write", "runs": f.runs(rng, n)}
    FL = [{"op": "flush"}, {"op": "position"}, {"op": "flush"}, {"op": "fresh_read"}]
    ops = [{"op": "open"}, {"op": "create_stream", "name": "a"}, {"op": "create_stream", "name": "a"},
           w(700), {"op": "position"}, w(700), {"op": "position"}] + FL + \
          [w(3000), {"op": "position"}, w(900), {"op": "position"}] + FL + \
          [{"op": "seek", "whence": "start", "d": 100, "sym": ""}, {"op": "position"}, w(50), {"op": "position"}] + FL + \
          [{"op": "read", "n": 2000}, {"op": "position"}, w(10), {"op": "position"}] + FL
    # a small overwrite that stays buffered, then reads that run past the buffered window (each issued twice: the
    # first may fail), then the flush: the overwrite must be in the stream whatever happened to the reads
    ops += [{"op": "seek", "whence": "start", "d": 200, "sym": ""}, {"op": "position"}, w(30), {"op": "position"},
            {"op": "read", "n": 3000}, {"op": "position"}, {"op": "read", "n": 3000}, {"op": "position"}] + FL + \
           [{"op": "seek", "whence": "start", "d": 1500, "sym": ""}, {"op": "position"}, w(7), {"op": "position"},
            {"op": "fill_buf"}, {"op": "position"}, {"op": "read_to_end"}, {"op": "position"}, {"op": "read_to_end"}, {"op": "position"}] + FL
    if variant == 1:
        ops += [{"op": "set_len", "n": 6000}, {"op": "position"}, {"op": "set_len", "n": 6000}, {"op": "position"}] + FL + \
               [{"op": "set_len", "n": 100}, {"op": "position"}, {"op": "set_len", "n": 100}, {"op": "position"}] + FL
    ops += [{"op": "close"}, {"op": "open_stream", "name": "bar"}, {"op": "open_stream", "name": "bar"},
            {"op": "seek", "whence": "end", "d": 0, "sym": ""}, {"op": "position"}, w(2000), {"op": "position"}] + FL + \
           [{"op": "cf_flush"}, {"op": "close"}]
    return {"ver": ver, "maxbuf": maxbuf, "mode": "rw_faults", "streams": streams, "ops": ops}


def refused_seek_histories(tier):
    """write (unflushed) -> refused seek (every origin, symbolic extremes) -> position -> flush -> read back"""
    hs = []
    f = gens.Fill()
    bads = [("start", 10 ** 6, ""), ("end", 1, ""), ("end", -(10 ** 6), ""), ("cur", 10 ** 6, ""), ("cur", -(10 ** 6), ""),
            ("start", 0, "u64max"), ("end", 0, "i64min"), ("cur", 0, "i64min"), ("cur", 0, "i64max"), ("end", 0, "i64max")]
    i = 0
    for ver in (3, 4):
        for mb in (CONFIGS if tier == "thorough" else [1024, None]):
            for init in (None, 100, 5000):
                for wn in (10, 700, 1500, 5000):
                    ops = [{"op": "open"}]
                    streams = []
                    if init is None:
                        ops.append({"op": "create_stream", "name": "a"})
                    else:
                        streams = [{"name": "a", "runs": [[f.next(), init]]}]
                        ops.append({"op": "open_stream", "name": "a"})
                    for (wh, d, sym) in bads:
                        ops += [{"op": "write", "runs": [[f.next(), wn]]}, {"op": "position"},
                                {"op": "seek", "whence": wh, "d": d, "sym": sym}, {"op": "position"}, {"op": "len"}]
                    if init is not None:
                        # ... and the same refusals while the handle holds UNREAD buffered data (a partial read filled the
                        # window): the cursor must stay where the read left it, and the next read must continue from there
                        for (wh, d, sym) in bads:
                            ops += [{"op": "seek", "whence": "start", "d": 3, "sym": ""}, {"op": "read", "n": 7 if wn < 1000 else 40}, {"op": "position"},
                                    {"op": "seek", "whence": wh, "d": d, "sym": sym}, {"op": "position"}, {"op": "read", "n": 9}, {"op": "position"}]
                    for sym in ("u64max", "i64max") + (("v3_4g", "v3_5g", "v3_16t") if ver == 3 else ()):
                        ops += [{"op": "write", "runs": [[f.next(), wn]]}, {"op": "set_len", "n": 0, "sym": sym},
                                {"op": "len"}, {"op": "position"}, {"op": "seek", "whence": "end", "d": 0, "sym": ""}, {"op": "position"}]
                    ops += [{"op": "flush"}, {"op": "fresh_read"}]
                    hs.append({"id": f"rs{i}", "ver": ver, "maxbuf": mb, "mode": "plain", "streams": streams, "ops": ops, "hash": True})
                    i += 1
    return hs


def c08_handle_histories(tier):
    """C08 through ONE long-lived handle: fill the handle's window by reading, shrink, grow again, read the
    re-grown range through the same handle (immediately), then write one byte inside it and flush (what the
    handle writes back must not resurrect truncated bytes: fresh handle and reopened copy)."""
    hs = []
    f = gens.Fill()
    i = 0
    for ver in (3, 4):
        for mb in ([1024, None] if tier == "quick" else CONFIGS):
            for n in (300, 5000, 9000):
                for k in (0, 100, n):
                    for s1 in sorted(set([0, n // 2, n - 1, 100])):
                        for s2 in (n, n + 700, 4096 if n < 4096 else 2 * n):
                            if s2 <= s1:
                                continue
                            ops = [{"op": "open"}, {"op": "open_stream", "name": "a"}, {"op": "read", "n": k}, {"op": "position"},
                                   {"op": "set_len", "n": s1}, {"op": "position"}, {"op": "len"},
                                   {"op": "set_len", "n": s2}, {"op": "position"}, {"op": "len"},
                                   {"op": "read", "n": 2 * s2 + 10}, {"op": "position"},
                                   {"op": "seek", "whence": "start", "d": 0, "sym": ""}, {"op": "read_to_end"},
                                   {"op": "seek", "whence": "start", "d": min(s1 + 3, s2 - 1), "sym": ""},
                                   {"op": "write", "runs": [[f.next(), 1]]}, {"op": "flush"}, {"op": "fresh_read"},
                                   {"op": "seek", "whence": "start", "d": 0, "sym": ""}, {"op": "read_to_end"}]
                            hs.append({"id": f"c08h{i}", "ver": ver, "maxbuf": mb, "mode": "plain",
                                       "streams": [{"name": "a", "runs": [[f.next(), n // 2], [f.next(), n - n // 2]]}], "ops": ops})
                            i += 1
    return hs


def setlen_within_unit_histories(tier, label="wu"):
    """Through one handle: the stream is cut and grown again inside the same final (mini) sector
    (gens.within_unit_triples); the gap must read as zeros through the same handle, a fresh one and the file."""
    hs = []
    f = gens.Fill()
    i = 0
    for ver in (3, 4):
        tr = gens.within_unit_triples(ver)
        for j, (L0, L1, L2) in enumerate(tr):
            if tier == "quick" and j % 3:
                continue
            mb = CONFIGS[j % len(CONFIGS)]
            pre = [0, L1 // 2, L0][j % 3]
            ops = [{"op": "open"}, {"op": "open_stream", "name": "a"}, {"op": "read", "n": pre}, {"op": "position"},
                   {"op": "set_len", "n": L1}, {"op": "position"}, {"op": "len"},
                   {"op": "set_len", "n": L2}, {"op": "position"}, {"op": "len"},
                   {"op": "seek", "whence": "start", "d": 0, "sym": ""}, {"op": "read_to_end"},
                   {"op": "flush"}, {"op": "fresh_read"}]
            hs.append({"id": f"{label}{i}", "ver": ver, "maxbuf": mb, "mode": "plain",
                       "streams": [{"name": "a", "runs": [[f.next(), L0 // 2], [f.next(), L0 - L0 // 2]]}], "ops": ops})
            i += 1
    return hs


def dropped_file_histories(tier, seed=1):
    """Beyond the listed properties: the CompoundFile is dropped or consumed by into_inner while a handle
    (and a parked second handle) is alive; every later call on the handles returns what the byte-vector
    model says or an error, never a panic, and an Ok flush / set_len cannot happen once data would have to
    reach the file (tag XDROP, informational)."""
    import random
    rng = random.Random(seed * 77 + 5)
    f = gens.Fill()
    hs = []
    n = 24 if tier == "quick" else 200
    for i in range(n):
        ver = 3 + i % 2
        mb = CONFIGS[i % len(CONFIGS)]
        size = [300, 3000, 5000, 9000][i % 4]
        ops = [{"op": "open"}, {"op": "open_stream", "name": "a"}]
        for _ in range(rng.randint(0, 3)):
            k = rng.choice(["read", "write", "seek"])
            if k == "read":
                ops.append({"op": "read", "n": rng.choice([1, 100, 1024, 2000])})
            elif k == "write":
                ops.append({"op": "write", "runs": [[f.next(), rng.choice([1, 10, 700])]]})
            else:
                ops.append({"op": "seek", "whence": "start", "d": rng.randint(0, size), "sym": ""})
        ops.append({"op": "position"})
        if i % 3 == 0:
            ops += [{"op": "park"}, {"op": "open_stream", "name": "b"}, {"op": "read", "n": 10}]
        ops.append({"op": "drop_cf", "how": "into_inner" if i % 2 else "drop"})
        for _ in range(rng.randint(4, 10)):
            k = rng.choice(["read", "write", "seek", "flush", "set_len", "fill", "len", "rte"])
            if k == "read":
                ops.append({"op": "read", "n": rng.choice([1, 100, 1024, 5000])})
            elif k == "write":
                ops.append({"op": "write", "runs": [[f.next(), rng.choice([1, 10, 2000])]]})
            elif k == "seek":
                w = rng.choice(["start", "cur", "end"])
                ops.append({"op": "seek", "whence": w, "d": rng.choice([0, 0, 5, 1000, size]) if w == "start" else rng.choice([0, 0, 5, -5, 1000, -1000]), "sym": ""})
            elif k == "flush":
                ops.append({"op": "flush"})
            elif k == "set_len":
                ops.append({"op": "set_len", "n": rng.choice([0, 100, size, size + 50])})
            elif k == "fill":
                ops += [{"op": "fill_buf"}, {"op": "consume", "n": rng.choice([0, 1, 50])}]
            elif k == "rte":
                ops.append({"op": "read_to_end"})
            else:
                ops.append({"op": "len"})
            ops.append({"op": "position"})
        ops.append({"op": "close"})
        if i % 3 == 0:
            ops += [{"op": "unpark"}, {"op": "position"}, {"op": "read", "n": 64}, {"op": "position"}, {"op": "flush"}, {"op": "close"}]
        hs.append({"id": f"gone{i}", "ver": ver, "maxbuf": mb, "mode": "plain",
                   "streams": [{"name": "a", "runs": [[f.next(), size // 2], [f.next(), size - size // 2]]},
                               {"name": "b", "runs": [[f.next(), 200]]}], "ops": ops})
    return hs


def dirty_growth_histories(tier):
    """C08 through one handle that still holds UNWRITTEN data: write, cut, append a little, grow - with no flush
    in between - then read everything back through the same handle, flush, and read through a fresh handle and
    from the file.  The grown range must be zeros although the handle's buffer held other bytes there before."""
    hs = []
    f = gens.Fill()
    i = 0
    grid = [(n1, s1, b, s2) for n1 in (3000, 700, 5000) for s1 in (0, 64, 100, 1000) for b in (1, 10)
            for s2 in (s1 + b + 1, 500, 1024, 4096, 5000) if s1 < n1 and s2 > s1 + b]
    for ver in (3, 4):
        for j, (n1, s1, b, s2) in enumerate(grid):
            if tier == "quick" and (j + ver) % 3:
                continue
            mb = CONFIGS[j % len(CONFIGS)]
            init = [0, 300, 2000][j % 3]
            ops = [{"op": "open"}, {"op": "open_stream", "name": "a"}]
            if j % 2:
                ops += [{"op": "read_to_end"}, {"op": "seek", "whence": "start", "d": 0, "sym": ""}]
            ops += [{"op": "write_all", "runs": [[f.next(), n1 // 2], [f.next(), n1 - n1 // 2]]}, {"op": "len"},
                    {"op": "set_len", "n": s1}, {"op": "position"}, {"op": "len"},
                    {"op": "write_all", "runs": [[f.next(), b]]}, {"op": "position"}, {"op": "len"},
                    {"op": "set_len", "n": s2}, {"op": "position"}, {"op": "len"},
                    {"op": "seek", "whence": "start", "d": 0, "sym": ""}, {"op": "read_to_end"},
                    {"op": "flush"}, {"op": "fresh_read"},
                    {"op": "set_len", "n": s2 + 70}, {"op": "seek", "whence": "start", "d": 0, "sym": ""}, {"op": "read_to_end"},
                    {"op": "flush"}, {"op": "fresh_read"}]
            hs.append({"id": f"dg{i}", "ver": ver, "maxbuf": mb, "mode": "plain",
                       "streams": [{"name": "a", "runs": [[f.next(), init]] if init else []}], "ops": ops})
            i += 1
    return hs
