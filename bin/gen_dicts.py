#!/usr/bin/env python3
"""Generate name dictionaries and value tables for TLC and for the harness.

Names never enter TLC as Unicode: a dictionary maps ASCII ids to the string
(for the harness) and to its upper-cased UTF-16 code-unit sequence plus a
validity flag (for TLC).  Upper-casing is per code unit, from Python's Unicode
database, restricted to characters whose simple upper-case mapping is a single
BMP character and stable since Unicode 6 (the "unambiguous alphabet").
"""
import json, os, sys, unicodedata

OUT = os.path.join(os.path.dirname(os.path.abspath(__file__)), "..", "spec", "dict")

def utf16(s):
    b = s.encode("utf-16-le")
    return [b[i] | (b[i + 1] << 8) for i in range(0, len(b), 2)]

EXCLUDED = set("ßŉǰΐΰµſıİςẞ")  # exceptional characters: never in non-X dictionaries

def up_unit(u):
    if 0xD800 <= u <= 0xDFFF:
        return u
    c = chr(u)
    U = c.upper()
    if len(U) == 1 and ord(U) < 0x10000:
        return ord(U)
    return u

def valid(s):
    return len(utf16(s)) <= 31 and not any(ch in s for ch in "/\\:!")

def emit(name, names, exceptional=False):
    for i, s in names.items():
        assert i.isascii() and i not in (".", "..") and "/" not in i, i
        if not exceptional:
            for ch in s:
                assert ch not in EXCLUDED, (name, i, ch)
    tlc = {i: {"u": [up_unit(u) for u in utf16(s)], "v": valid(s)} for i, s in names.items()}
    json.dump({"dict": name, "names": names}, open(f"{OUT}/{name}.names.json", "w"), ensure_ascii=True, indent=0)
    json.dump(tlc, open(f"{OUT}/{name}.tlc.json", "w"), ensure_ascii=True)

def main():
    os.makedirs(OUT, exist_ok=True)
    # A: ASCII.  fold classes, shortlex probes, invalid names.
    A = {
        "foo": "foo", "FOO": "FOO", "Foo": "Foo",
        "bar": "bar", "BAR": "BAR", "baz": "baz",
        "a": "a", "B": "B", "b": "b", "c": "c", "Z": "Z",
        "aa": "aa", "AB": "AB", "ab": "ab", "zz": "zz",
        "quux": "quux", "stream1": "stream1", "Stream1": "STREAM1",
        "k1": "k1", "k2": "k2", "k3": "k3", "k4": "k4", "k5": "k5", "k6": "k6",
        "n31": "x" * 31, "n30": "y" * 30,
        "sp": "with space", "dot": "a.b", "dots": "...",
        "bad_colon": "a:b", "bad_bang": "a!b", "bad_bslash": "a\\b",
        "bad_len32": "z" * 32, "bad_len35": "w" * 35,
        "bad_bang_end": "ab!", "bad_colon_start": ":ab",
        "f1": "fill1", "f2": "fill2", "f3": "fill3", "f4": "fill4", "f5": "fill5", "f6": "fill6", "f7": "fill7", "f8": "fill8",
    }
    emit("A", A)
    # B: cased non-ASCII pairs (Latin-1, Greek, Cyrillic) mixed with ASCII
    B = {
        "e_acute": "été", "E_ACUTE": "ÉTÉ", "E_mixed": "Été",
        "alpha": "αβγ", "ALPHA": "ΑΒΓ",
        "cyr": "привет", "CYR": "ПРИВЕТ",
        "y_dia": "ÿa", "Y_DIA": "ŸA",
        "ascii": "abc", "ASCII": "ABC", "z": "z", "omega": "ω", "OMEGA": "Ω",
        "mix1": "aé", "MIX1": "AÉ", "o_sl": "ø", "O_SL": "Ø",
        # titlecase digraphs: neither lower nor upper case, but they have an upper-case mapping
        "dz_t": "\u01c5x", "dz_l": "\u01c6x", "dz_u": "\u01c4x", "lj_t": "\u01c8", "lj_u": "\u01c7", "nj_t": "y\u01cb", "nj_l": "y\u01cc",
    }
    emit("B", B)
    # C: caseless: CJK, digits, punctuation, private use / high BMP
    C = {
        "cjk1": "中文", "cjk2": "日本語", "dig": "12345", "punct": "-_=+()",
        "pua": "a", "pua2": "", "hi": "￥", "hi2": "ﭐx", "kana": "カタ",
        "d1": "1", "d2": "22", "hang": "한글",
        # U+0000 is an ordinary name character for the format (the length field, not a terminator, delimits the
        # name): names that differ only by trailing NULs are different names and must come back verbatim
        "nx": "x", "nx0": "x\u0000", "nx00": "x\u0000\u0000", "n0x": "\u0000x", "nmid": "a\u0000b",
    }
    emit("C", C)
    # D: supplementary-plane caseless characters mixed with high BMP ones
    D = {
        "emoji": "\U0001F600", "emoji2": "\U0001F600\U0001F601", "linb": "\U00010000",
        "pua_a": "a", "pua": "", "ffff": "￮", "cjkx": "\U00020000",
        "math": "\U0001D7D8", "a": "a", "zz": "zz", "mix": "a\U0001F600", "e2": "",
    }
    emit("D", D)
    # E: boundary lengths in UTF-16 units
    E = {
        "bmp30": "中" * 30, "bmp31": "中" * 31, "bad_bmp32": "中" * 32,
        "sup30": "\U0001F600" * 15, "bad_sup32": "\U0001F600" * 16, "sup31": "\U0001F600" * 15 + "a",
        "asc31": "q" * 31, "bad_asc32": "q" * 32, "bad_asc40": "q" * 40, "one": "q",
        "bad_sup33": "\U0001F600" * 16 + "a",
    }
    emit("E", E)
    # G: ASCII punctuation around the letters: the characters between 'Z' and 'a' ([ ] ^ _ `), '@' below 'A'
    #    and '{' '~' above 'z' order differently under upper-casing (the CFB rule) and lower-casing
    G = {
        "us_abc": "_abc", "wxyz": "wxyz", "Data": "Data", "a_bc": "a_bc", "a_hat": "a^bc", "lbr": "A[bc",
        "tick": "a`bc", "ABCD": "ABCD", "abcd": "abcd", "abc_": "abc_", "at": "@abc", "brace": "{abc", "tilde": "~abc",
        "zzzz": "zzzz", "ZZZZ": "ZZZZ", "rbr": "a]bc", "us": "_", "z": "z", "A": "A",
    }
    emit("G", G)
    # X: "exceptional" characters - those whose upper-casing is not a single stable BMP character (sharp s, the ligatures,
    #    n-apostrophe, dotted / dotless i, long s, Kelvin / Ohm / Angstrom signs, final sigma ...), and plain names that
    #    COLLIDE with them under Rust's / Unicode's full upper-casing (strasse, FILE, 'N).  No independent source for the
    #    historical CFB case table exists, so nothing is asserted that depends on it: every name of this dictionary has a
    #    different length in UTF-16 units.  Names of different lengths are different names under any per-unit folding and are
    #    ordered by length alone - both certain; the unit sequences below are the raw units (only their number matters).
    X = {
        "x1": "ŉ", "x2": "ʼN", "x3": "ﬁle", "x4": "FILE", "x5": "İıſKΩ",
        "x6": "straße", "x7": "STRASSE", "x8": "ǰΐΰµςẞÅx", "x9": "ﬀﬂﬃﬄﬅﬆabc",
        "x10": "straße.txt", "x11": "STRASSE.TXT", "x12": "ẞ" * 12, "x31": "ß" * 31, "bad_x32": "ß" * 32,
    }
    lens = [len(utf16(v)) for v in X.values()]
    assert len(set(lens)) == len(lens), lens
    for i, sname in X.items():
        assert i.isascii()
    json.dump({"dict": "X", "names": X}, open(f"{OUT}/X.names.json", "w"), ensure_ascii=True, indent=0)
    json.dump({i: {"u": utf16(sname), "v": valid(sname)} for i, sname in X.items()}, open(f"{OUT}/X.tlc.json", "w"), ensure_ascii=True)
    # values for C17
    def q(secs, nanos):
        EPOCH = 116444736000000000
        total = secs * 10**9 + nanos
        if total >= 0:
            t = EPOCH + total // 100
        else:
            t = EPOCH - ((-total) // 100)
        t = max(0, min(t, 2**64 - 1))
        return [t >> 44, (t >> 22) & 0x3FFFFF, t & 0x3FFFFF]
    times = {
        "epoch": (0, 0), "epoch_1ns": (0, 1), "epoch_99": (0, 99), "epoch_100": (0, 100), "epoch_150": (0, 150),
        "pre70_0": (-86400, 0), "pre70_50": (-86400, 50), "pre70_99": (-86400, 99),
        "pre70_100": (-86400, 100), "pre70_150": (-86400, 150), "pre70_m1ns": (-1, 999999999),
        "y1601": (-11644473600, 0), "y1601_p1": (-11644473600, 100), "y1601_p50": (-11644473600, 50),
        "pre1601": (-11644473601, 0), "pre1601_far": (-20000000000, 123456789),
        "y2038": (2147483648, 0), "y2106": (4294967296, 5), "y9999": (253402300799, 999999900),
        "now_ish": (1790000000, 123456789), "max_tick": (1833029933770, 955161500),
        "beyond": (1833029933771, 0), "far": (4000000000000, 0),
        # more than 2^64 ticks away from 1970 in either direction (a tick count that wraps when narrowed to 64 bits)
        "far_past": (-4000000000000, 0), "far_2_64": (1844674407371, 0), "past_2_64": (-1844674407371, 500),
    }
    vals = {
        "time": {k: {"secs": str(s), "nanos": n, "q": q(s, n)} for k, (s, n) in times.items()},
        "clsid": {
            "nil": "00000000000000000000000000000000", "ones": "ffffffffffffffffffffffffffffffff",
            "probe": "00112233445566778899aabbccddeeff", "r1": "8f0e6a1c5b7d4c3e9a21d4f6b8c0e2a4",
            "r2": "01020304050607080910111213141516",
        },
        "bits": {"zero": "00000000", "one": "00000001", "hi": "80000000", "max": "ffffffff", "r1": "deadbeef", "r2": "0badf00d"},
    }
    json.dump(vals, open(f"{OUT}/values.json", "w"), indent=0)
    print("dictionaries written to", os.path.normpath(OUT))

if __name__ == "__main__":
    main()
