#!/usr/bin/env python3
"""Regenerates MANIFEST.json from the table below (single source of truth)."""
import json, os, subprocess
ROOT = os.path.dirname(os.path.dirname(os.path.abspath(__file__)))
props = [json.loads(l) for l in open(os.path.join(ROOT, "properties.jsonl"))]

TRUST = ("Trusted base: TLC 1.8; the harness's raw decoder (field extraction + RLE, no cfb:: code) and drivers; "
         "Python-generated dictionaries / value tables. Bounds: alphabets, history lengths and geometry as recorded in the evidence.")

CLAIMED = {
 "C01": ("model_checking", "5 C01", "TLC trace validation of real executions against the CfbTree abstract model (TLA+); scripts from MC_Tree transition coverage + seeded random drivers; design level: InvAbs + InvData of MC_Phys (refinement of the abstract tree by CfbPhys including stream bytes, exhaustive at tiny geometry); the histories of the C15 / C08 generators and the geometry-threshold histories are judged here too; MC_Api: the API layer (CfbApi) refines CfbTree - allowed result kinds, abstraction of names / kinds / lengths / metadata, nested storages and every path spelling (exhaustive at tiny geometry)",
         "Every result, listing, entry and stream byte of every generated history is compared by TLC with the total abstract model; the MC_Tree graph makes (state x operation) coverage systematic."),
 "C02": ("model_checking", "5 C02", "TLC trace validation: strict and permissive reopen dumps of the un-flushed bytes after every operation must equal the CfbTree state; forked continuation on the reopened file; design level: InvOpen of MC_Phys (every image of the write-path model is accepted by the open-path model CfbOpen) and InvThrough of MC_Fault (the file decoded from the actual writes holds exactly the in-memory tables); fidelity: Trace_Open",
         "Crash points = every operation boundary of every history, both modes, both versions, including directory/FAT/MiniFAT (thorough: DIFAT) growth."),
 "C03": ("model_checking", "5 C03", "WF(img) rules R1-R8 written in TLA+ (CfbImage) evaluated by TLC on an independent raw decode of every produced image; the same rules are invariants of MC_Phys (CfbPhys, the TLA+ transcription of the allocator / directory / write paths, exhaustive at tiny geometry) and Trace_Phys binds CfbPhys to the code by predicting every table of every recorded image; case-analysis coverage: the classes of CfbPhys's write / resize case analysis reached by real executions (Trace_Phys) against those of the exhaustive tiny-geometry graph (MC_Phys); images produced through the path-based constructors (a real file, created where an older, longer file lay)",
         "The judge shares no code with the library; it re-derives every chain from fat[]/minifat[] and checks ownership, leaks, chain lengths, tree order, blank entries."),
 "C07": ("model_checking", "5 C07", "TLC trace validation (CfbTree with a handle table) of histories holding handles open across structural mutation; CfbDir design model of slot stability; handles obtained through other spellings of the path; foreign files whose empty streams carry a stale start field",
         "Full logical + physical equality after every step means every other stream, all metadata and the tree are exactly as the model predicts."),
 "C08": ("model_checking", "5 C08", "TLC trace validation of shrink/grow/reuse templates: CfbTree.SetLen pads with a zero run, fills are fresh non-zero bytes; design level: MC_Phys with the bytes of every sector in the state (InvData, ZeroExposure; CfbPhys TrackData), exhaustive at tiny geometry; foreign layouts with surplus sectors in a chain",
         "Full parameter grids over boundary lengths for write-shrink-grow, reuse after removal, and migrations."),
 "C09": ("model_checking", "5 C09", "TLC trace validation with name dictionaries: fold, order and validity computed in TLA+ from UTF-16 unit sequences; path spelling normalised by the model; MC_Api (the API layer's normalisation, lookups and validation against the abstract model, exhaustive at tiny geometry); dictionary X: exceptional characters and their full-upper-casing twins with pairwise different lengths (only length decides among them)",
         "Covers ASCII, cased and caseless non-ASCII, supplementary-plane and boundary-length names; exceptional case mappings excluded (no independent source)."),
 "C10": ("model_checking", "5 C10", "TLC trace validation: every refused call must leave the image hash unchanged and the model state untouched; refusals enumerated from the MC_Tree graph; design level: InvNoEffect of MC_Api (CfbApi = the API layer of lib.rs on CfbPhys: every check precedes every effect, also inside the loops of create_storage_all / remove_storage_all; exhaustive at tiny geometry); fidelity: the error kind of every recorded refusal against CfbApi's check order (Trace_Phys); a call refused although the model lets it succeed is held to the same no-effect rule",
         "Refusal x state coverage is measured on the model graph, not hoped for."),
 "C06": ("model_checking", "5 C06", "CfbHandle (TLA+ transcription of the stream cache) model checked against a reference byte vector; MC_Handle transition coverage and random call sequences replayed on real handles and judged by TLC (Trace_Handle) for every max_buffer_size; a handle that outlives its CompoundFile keeps obeying the byte-vector model for everything it answers with Ok; transfers through the provided methods of io::Read / Write / Seek (read_exact, read_vectored, take, write_vectored, rewind, seek_relative); max_buffer_size 0; fidelity: backend-read count of every refill (CfbChainIO)",
         "Exhaustive at model geometry for several buffer sizes; real-scale replays under six buffer sizes x two versions with extreme seek arguments."),
 "C12": ("fault_enumeration", "5 C12", "every k-th backend read/seek fails; TLC (Trace_Handle, ro_faults mode) requires Err or the fault-free result and correct bytes after retry; CfbHandle model checked with one injected fault; CfbChainIO: the transfer loops below the buffer with failing / interrupted backend calls; injected errors of varying kinds",
         "Every single fault position of the workloads (pairs in thorough); design-level model covers all interleavings of one fault with the cache protocol."),
 "C13": ("fault_enumeration", "5 C13", "design level: MC_Fault model checks CfbFault (the write paths write by write, memory / file split, a failing write, retry, another operation in between) at tiny geometry, and CfbHandle (FlushDurable) with faults; conformance: every k-th backend write/seek/flush of the workloads fails (every position of the short first-use / growth / removal / two-handle workloads); TLC (Trace_Handle, rw_faults mode) requires the call to report the error, no later panic, Ok flush => the bytes are read back by a fresh handle AND from a reopened copy of the file once every failed call has been retried, the backend's flush is reached, no untouched stream is lost; fidelity: Trace_Writes compares CfbFault's predicted order of table writes with the recorded write calls; the error kind of every refusal and the metadata of every slot against CfbApi / CfbPhys where Trace_Phys runs; injected errors of varying kinds",
         "Every single fault position of the workloads (pairs in thorough) with retry of the failed call."),
 "C15": ("model_checking", "5 C15", "TLC trace validation of net-zero cycles (checked on the model) with a NoGrowth assertion on logged file lengths; NoGrowth is an invariant of MC_Phys in cycle mode (CfbPhys at tiny geometry), bound to the code by Trace_Phys",
         "Cycle templates x sizes x mini-stream fill levels at and around sector multiples."),
 "C17": ("model_checking", "5 C17", "TLC trace validation of metadata setters/getters against CfbTree; FILETIME quantisation table from Python big integers; design level: InvMeta of MC_Phys (CfbPhys with colour, CLSID, state bits and times per entry and the setters in the alphabet: metadata refinement through slot reuse, relinking, directory growth, overwrite, reopen; exhaustive at tiny geometry); fidelity: Trace_Phys predicts the metadata of every directory slot of every recorded image",
         "Values are opaque tokens for TLC; expected quantisation comes from an independent table."),
 "C14": ("model_checking", "5 C14", "CfbLock (TLA+ model of the writer-preferring RwLock and per-call lock programs) model checked with TLC on programs extracted from the real library under the cfg(cfb_verif) instrumented lock; Trace_Lock validates real multi-threaded runs (NonReentrant, mutual exclusion, linearisable lengths, deadlock on stall); any number of threads: CfbLockN (a holder only releases) proved deadlock-free and mutually exclusive for an arbitrary thread set with tlapm (CfbLockN_proofs, 57 obligations), MC_Lock checks that CfbLock on the extracted programs refines it; buffered data written back by a handle's drop while readers run; a stall in which every unfinished thread waits for the lock or sits on a guard is a deadlock through another lock",
         "Every interleaving of 2-3 readers and the handle thread over the extracted programs; the schedule-independent NonReentrant rule is checked on every recorded acquisition, so the hazard is caught whether or not a run deadlocks."),
 "C18": ("model_checking", "5 C18", "the same TLC-validated script under every configuration (two runs, std::fs::File, chunked/Interrupted in-memory backends, several max_buffer_size values, V3/V4); Trace_Config (TLA+) requires identical results and byte-identical images within a version/buffer group; design level: CfbChainIO (read_exact / write_all over Chain::read / write over one backend call per sector piece, against every splitting of a transfer by short counts, Interrupted and failures; exhaustive at tiny geometry), bound to the code by the backend-read count of every refill (Trace_HandleFid)",
         "Every run is judged against the same deterministic model, so logical outcomes coincide; byte identity is compared step by step with pinned storage times."),
 "C04": ("model_checking", "5 C04", "Gen_Layout (TLA+ 'foreign writer') enumerates / samples legal physical layouts of logical contents with TLC; an independent builder serialises them; TLC trace validation (Trace_File: WF, Abs, CfbTree) judges what the library exposes after strict and permissive open and what it writes afterwards; empty streams with a stale start field, header fields the format leaves to the writer, whole-entry rewrites after removals on every red-black shape; design level: MC_RB (every sibling tree a strict reader accepts - any search-tree shape, any colouring without a red-red edge - is mapped into the same class by CfbPhys's insertion and removal: inductive, exhaustive up to 6 names); fidelity: Trace_Phys follows the histories from the foreign start image and predicts every table, link and colour byte the library writes afterwards; two FAT sectors placed anywhere",
         "All layouts of the smallest contents, seeded samples of larger ones: any slot assignment with gaps, any valid red-black shape, any sector and mini-sector placement; lookups under case variants and a mutation history on every image."),
 "C05": ("exploration", "5 C05", "Gen_Corrupt (TLA+) enumerates every field-level corruption of TLC-generated layouts; each damaged image gets every read-only call under catch_unwind, a watchdog and a counting allocator; Trace_Robust (TLA+) states the verdict (no panic, memory bound); plus crash corpus and seeded byte flips; valid files with 50,000-entry directories in degenerate shapes (sibling lists, nested storages) read on a 2 MiB stack",
         "The structured part of 'any byte string' (all single field corruptions x value classes, thorough: sampled pairs) is enumerated from the specification; unstructured bytes are a seeded supplement; termination, panics and memory are observed by monitors."),
 "C11": ("exploration", "5 C11", "Gen_Corrupt (TLA+) corruptions that survive permissive open x mutation scripts, under catch_unwind and a per-case watchdog; Trace_Robust states the verdict; coverage classified by corrupted site; valid files with dot-named objects; mutation steps grow_minis and shrink_behind_cursor",
         "Every single field corruption x scripts covering all mutation steps (thorough: every step singly and sampled ordered pairs, sampled pairs of corruptions)."),
 "C16": ("model_checking", "5 C16", "design level: InvC16 of MC_Phys (CfbOpen = transcription of open_internal and the validators, on every single-value damage of every reachable tiny-geometry image: strict accepts => permissive accepts with the same tables); fidelity: Trace_Open (model verdict vs library verdict on every layout, deviation, corruption); part 1: strict Ok => permissive Ok with the identical dump on every image (Trace_File / Trace_Robust); part 2: Gen_Deviate (TLA+) injects every documented tolerated deviation at every applicable place of TLC-generated layouts, singly and in independent pairs; Trace_File requires permissive = undamaged content and strict = rejected; DIFAT deviations on a layout whose DIFAT ends with a genuine entry 0 (relayout fat_rotate); stream times with the top bit set; path-based strict constructors in the dumps",
         "Deviation x place coverage comes from the specification; expectations are stated in the trace validator, not in the harness."),
}

HOOK_COMMITS = ["8fb4cf3", "2d01245", "92f3680"]

def main():
    m = json.load(open(os.path.join(ROOT, "MANIFEST.json")))
    extra = {}
    try:
        extra = json.load(open(os.path.join(ROOT, "bin", "manifest_extra.json")))
    except Exception:
        pass
    claimed = dict(CLAIMED)
    claimed.update({k: tuple(v) for k, v in extra.get("claimed", {}).items()})
    checks = []
    for p in props:
        pid = p["id"]
        if pid not in claimed:
            continue
        cat, ref, tech, text = claimed[pid]
        checks.append({
            "property_id": pid,
            "quick_cmd": f"bin/check {pid} --tier quick",
            "thorough_cmd": f"bin/check {pid} --tier thorough",
            "evidence_file": f"evidence/{pid}.json",
            "replay_cmd_template": f"bin/check {pid} --replay {{path}}",
            "engine": "tlc-trace-validation",
            "level_claimed": {"category": cat, "text": text, "design_ref": f"DESIGN.md section {ref}"},
            "level_note": TRUST,
            "technique": tech,
        })
    na = extra.get("not_applicable", {})
    m["checks"] = checks
    m["not_applicable"] = [{"property_id": p["id"], "reason": na.get(p["id"], "machinery for this property is not finished in this round; not claimed")}
                           for p in props if p["id"] not in claimed]
    m["engines"] = [{"name": "tlc-trace-validation", "path": "spec/", "serves_properties": [c["property_id"] for c in checks],
                     "kind_free_text": "explicit TLA+ specifications (CfbTree, CfbImage, CfbPhys, CfbApi, CfbChainIO, CfbOpen, CfbFault, CfbDir, CfbHandle, CfbLock, CfbLockN (+ tlapm proofs); generators Gen_Layout / Gen_Deviate / Gen_Corrupt; validators Trace_File / Trace_Phys / Trace_Handle / Trace_Lock / Trace_Config / Trace_Robust) model checked with TLC and bound to the code by trace validation and spec-generated replays"}]
    m["hooks"]["source_commits"] = extra.get("hook_commits", HOOK_COMMITS)
    m["notes"] = "bin/check <id> rebuilds the harness against /repo's working tree (cfg cfb_verif), generates scripts (TLC-generated + seeded), runs them on the real library and lets TLC judge every recorded event."
    json.dump(m, open(os.path.join(ROOT, "MANIFEST.json"), "w"), indent=1)
    print("claimed:", [c["property_id"] for c in checks])

main()
