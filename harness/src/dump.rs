//! Logical dump of a compound file through the public API only.

use crate::dict::Dict;
use crate::{err_kind, limbs, rle};
use serde_json::{json, Value};
use std::io::{Read, Seek};
use std::time::{SystemTime, UNIX_EPOCH};

const EPOCH_TICKS: i128 = 116444736000000000;

/// 100 ns ticks since 1601 of a SystemTime, by plain arithmetic.
pub fn ticks_of(t: SystemTime) -> i128 {
    match t.duration_since(UNIX_EPOCH) {
        Ok(d) => EPOCH_TICKS + (d.as_nanos() / 100) as i128,
        Err(e) => {
            let n = e.duration().as_nanos();
            EPOCH_TICKS - ((n + 99) / 100) as i128
        }
    }
}

pub fn time_json(t: SystemTime) -> Value {
    let v = ticks_of(t);
    if v < 0 {
        json!([-1, 0, 0])
    } else if v > u64::MAX as i128 {
        json!([1 << 21, 0, 0])
    } else {
        limbs(v as u64)
    }
}

pub fn entry_json(e: &cfb::Entry, dict: &Dict) -> Value {
    let kind = if e.is_root() {
        "root"
    } else if e.is_storage() {
        "storage"
    } else if e.is_stream() {
        "stream"
    } else {
        "other"
    };
    json!({
        "p": dict.path_ids(e.path()),
        "n": if e.is_root() { "Root Entry".to_string() } else { dict.id_of(e.name()) },
        "k": kind,
        // (is_empty() is the same statement as len() == 0: a disagreement is logged as a length no entry has)
        "l": if e.is_empty() != (e.len() == 0) { -7 } else if e.len() < 0x7FFF_FFFF { e.len() as i64 } else { -9 },
        "c": e.clsid().as_bytes().iter().map(|b| format!("{:02x}", b)).collect::<String>(),
        "b": format!("{:08x}", e.state_bits()),
        "ct": time_json(e.created()),
        "mt": time_json(e.modified()),
    })
}

/// Entry record without the content; `len` of root / storages is not part of
/// the model (an allocator artefact) and is blanked here.
fn norm_len(mut v: Value) -> Value {
    if v["k"] != "stream" {
        v["l"] = json!(0);
    }
    v
}

pub fn read_stream<F: Read + Seek>(
    cf: &mut cfb::CompoundFile<F>,
    path: &std::path::Path,
) -> Value {
    // A stream that cannot be read is reported as one run of the impossible
    // byte -2 (type-compatible with real data, equal to none).
    match cf.open_stream(path) {
        Err(_) => json!([[-2, 1]]),
        Ok(mut s) => {
            let mut buf = Vec::new();
            match s.read_to_end(&mut buf) {
                Err(_) => json!([[-2, 1]]),
                Ok(_) => rle::to_json(&buf),
            }
        }
    }
}

/// Full logical dump: pre-order walk with contents, per-storage listings via
/// read_storage, and entry() lookups for every walked path.
pub fn dump<F: Read + Seek>(cf: &mut cfb::CompoundFile<F>, dict: &Dict, full: bool) -> Value {
    let entries: Vec<cfb::Entry> = cf.walk().collect();
    let mut walk = Vec::new();
    let mut ls = Vec::new();
    let mut ent = Vec::new();
    for e in entries.iter() {
        let mut v = norm_len(entry_json(e, dict));
        if e.is_stream() {
            v["d"] = read_stream(cf, e.path());
        } else {
            v["d"] = json!([]);
        }
        walk.push(v);
        if full {
            if e.is_storage() {
                let names: Value = match cf.read_storage(e.path()) {
                    Ok(it) => Value::Array(
                        it.map(|c| Value::String(dict.id_of(c.name()))).collect(),
                    ),
                    Err(er) => json!([format!("err:{}", err_kind(&er))]),
                };
                ls.push(json!({"p": dict.path_ids(e.path()), "names": names}));
            }
            match cf.entry(e.path()) {
                Ok(x) => ent.push(norm_len(entry_json(&x, dict))),
                Err(er) => {
                    let mut v = norm_len(entry_json(e, dict));
                    v["n"] = json!(format!("err:{}", err_kind(&er)));
                    ent.push(v)
                }
            }
        }
    }
    if full {
        json!({"walk": walk, "ls": ls, "ent": ent})
    } else {
        json!({"walk": walk})
    }
}

/// Opens a copy of `bytes` in the given mode and dumps it.
static TMPDIR: std::sync::OnceLock<String> = std::sync::OnceLock::new();
/// Directory for the files behind the path-based constructors (set once by the driver; without it they are not used).
pub fn set_tmpdir(p: &str) {
    let _ = TMPDIR.set(p.to_string());
}

/// The path-based spellings of "open": the bytes are written to a file, which is opened by path (read-only or read-write).
fn open_by_path(bytes: &[u8], strict: bool, rw: bool, k: usize) -> Option<std::io::Result<cfb::CompoundFile<std::fs::File>>> {
    let dir = TMPDIR.get()?;
    let path = std::path::Path::new(dir).join(format!("reopen_{}_{}.cfb", std::process::id(), k));
    std::fs::write(&path, bytes).ok()?;
    let mut o = cfb::OpenOptions::new();
    if strict {
        o = o.strict();
    }
    let r = if rw { o.open_rw(&path) } else { o.open(&path) };
    // (unlinked at once: the open handle keeps the file alive)
    let _ = std::fs::remove_file(&path);
    Some(r)
}

fn dump_of<F: std::io::Read + std::io::Seek>(opened: std::io::Result<cfb::CompoundFile<F>>, dict: &Dict) -> Value {
    match opened {
        Err(e) => json!({"err": err_kind(&e), "msg": e.to_string()}),
        Ok(mut cf) => {
            let ver = match cf.version() {
                cfb::Version::V3 => 3,
                cfb::Version::V4 => 4,
            };
            let mut d = dump(&mut cf, dict, false);
            d["ver"] = json!(ver);
            json!({"ok": d})
        }
    }
}

pub fn reopen_dump(bytes: &[u8], strict: bool, dict: &Dict) -> Value {
    let cur = std::io::Cursor::new(bytes.to_vec());
    let r = std::panic::catch_unwind(std::panic::AssertUnwindSafe(|| {
        // every spelling of "open strictly" / "open permissively" the API offers, in turn: they must mean the same
        // (one counter per mode: the two modes are dumped alternately, a common counter would give each mode only every
        // other spelling)
        static SPELLING_S: std::sync::atomic::AtomicUsize = std::sync::atomic::AtomicUsize::new(0);
        static SPELLING_P: std::sync::atomic::AtomicUsize = std::sync::atomic::AtomicUsize::new(0);
        let k = if strict { &SPELLING_S } else { &SPELLING_P }.fetch_add(1, std::sync::atomic::Ordering::Relaxed);
        // every fifth time through a real file opened by path (read-only and read-write constructors, with the same options)
        if k % 5 == 4 && bytes.len() <= 1 << 20 {
            if let Some(r) = open_by_path(bytes, strict, (k / 5) % 2 == 0, k) {
                return dump_of(r, dict);
            }
        }
        let opened = if strict {
            match k % 4 {
                0 => cfb::CompoundFile::open_strict(cur),
                1 => cfb::OpenOptions::new().strict().open_with(cur),
                2 => cfb::OpenOptions::new().strict().max_buffer_size(4096).open_with(cur),
                _ => cfb::OpenOptions::new().max_buffer_size(4096).strict().open_with(cur),
            }
        } else {
            match k % 3 {
                0 => cfb::CompoundFile::open(cur),
                1 => cfb::OpenOptions::new().open_with(cur),
                _ => cfb::OpenOptions::new().max_buffer_size(2048).open_with(cur),
            }
        };
        match opened {
            Err(e) => json!({"err": err_kind(&e), "msg": e.to_string()}),
            Ok(mut cf) => {
                let ver = match cf.version() {
                    cfb::Version::V3 => 3,
                    cfb::Version::V4 => 4,
                };
                let mut d = dump(&mut cf, dict, false);
                d["ver"] = json!(ver);
                json!({"ok": d})
            }
        }
    }));
    match r {
        Ok(v) => v,
        Err(_) => json!({"panic": true}),
    }
}
