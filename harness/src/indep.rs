//! Independent raw decoder of MS-CFB byte images.
//!
//! Shares no code with the `cfb` crate (no `cfb::` path appears in this
//! file).  It extracts fields and run-length encodes sectors; it performs no
//! judgement.  The only chains it follows are those needed to *find* tables
//! (DIFAT, directory, MiniFAT, mini-stream container); it reports the sector
//! lists it followed so that the TLA+ well-formedness rules can re-derive
//! them from `fat[]` and demand agreement.

use crate::dict::Dict;
use crate::rle;
use serde_json::{json, Map, Value};
use std::collections::HashSet;

pub const FREE: i64 = -1;
pub const END: i64 = -2;
pub const FATM: i64 = -3;
pub const DIFATM: i64 = -4;
pub const INVALID: i64 = -5;
pub const BIG: i64 = -9;

pub fn cell(v: u32) -> i64 {
    match v {
        0xFFFF_FFFF => FREE,
        0xFFFF_FFFE => END,
        0xFFFF_FFFD => FATM,
        0xFFFF_FFFC => DIFATM,
        0xFFFF_FFFB => INVALID,
        x if x >= 0x7FFF_FFFF => BIG,
        x => x as i64,
    }
}

fn sid(v: u32) -> i64 {
    match v {
        0xFFFF_FFFF => -1,
        x if x >= 0x7FFF_FFFF => BIG,
        x => x as i64,
    }
}

fn u16le(b: &[u8], o: usize) -> u16 {
    u16::from_le_bytes([b[o], b[o + 1]])
}
fn u32le(b: &[u8], o: usize) -> u32 {
    u32::from_le_bytes([b[o], b[o + 1], b[o + 2], b[o + 3]])
}
fn u64le(b: &[u8], o: usize) -> u64 {
    let mut a = [0u8; 8];
    a.copy_from_slice(&b[o..o + 8]);
    u64::from_le_bytes(a)
}
fn hex(b: &[u8]) -> String {
    b.iter().map(|x| format!("{:02x}", x)).collect()
}

/// MS-CFB stores a GUID as u32le, u16le, u16le, 8 bytes; the canonical text
/// form is big-endian for the first three fields.
fn guid_hex(b: &[u8]) -> String {
    let o = [3, 2, 1, 0, 5, 4, 7, 6, 8, 9, 10, 11, 12, 13, 14, 15];
    o.iter().map(|&i| format!("{:02x}", b[i])).collect()
}

pub struct Options {
    /// Sectors with more runs than this are replaced by a hash token.
    pub max_runs: usize,
    /// Include per-sector data at all.
    pub sectors: bool,
}

impl Default for Options {
    fn default() -> Self {
        Options { max_runs: 24, sectors: true }
    }
}

/// Returns the bytes of sector `s` (zero padded if the file ends early).
fn sector<'a>(bytes: &'a [u8], slen: usize, s: usize, scratch: &'a mut Vec<u8>) -> &'a [u8] {
    let start = (s + 1) * slen;
    let end = start + slen;
    if end <= bytes.len() {
        &bytes[start..end]
    } else {
        scratch.clear();
        if start < bytes.len() {
            scratch.extend_from_slice(&bytes[start..]);
        }
        scratch.resize(slen, 0);
        &scratch[..]
    }
}

fn follow(fat: &[i64], start: i64, limit: usize) -> (Vec<i64>, i64) {
    let mut out = Vec::new();
    let mut seen = HashSet::new();
    let mut cur = start;
    while cur >= 0 && (cur as usize) < fat.len() && !seen.contains(&cur) && out.len() < limit {
        seen.insert(cur);
        out.push(cur);
        cur = fat[cur as usize];
    }
    (out, cur)
}

pub fn decode(bytes: &[u8], dict: &Dict, opt: &Options) -> Value {
    let mut m = Map::new();
    let flen = bytes.len();
    m.insert("flen".into(), json!(flen));
    if flen < 512 {
        m.insert("short".into(), json!(true));
        return Value::Object(m);
    }
    m.insert("short".into(), json!(false));
    let h = &bytes[..512];
    let sshift = u16le(h, 30);
    let mut hdr = Map::new();
    hdr.insert("magic".into(), json!(hex(&h[0..8])));
    hdr.insert("clsid_zero".into(), json!(h[8..24].iter().all(|&b| b == 0)));
    hdr.insert("minor".into(), json!(u16le(h, 24)));
    hdr.insert("major".into(), json!(u16le(h, 26)));
    hdr.insert("bom".into(), json!(u16le(h, 28)));
    hdr.insert("sshift".into(), json!(sshift));
    hdr.insert("mshift".into(), json!(u16le(h, 32)));
    hdr.insert("resv_zero".into(), json!(h[34..40].iter().all(|&b| b == 0)));
    hdr.insert("ndir".into(), json!(cell(u32le(h, 40))));
    hdr.insert("nfat".into(), json!(cell(u32le(h, 44))));
    hdr.insert("first_dir".into(), json!(cell(u32le(h, 48))));
    hdr.insert("txn".into(), json!(cell(u32le(h, 52))));
    hdr.insert("cutoff".into(), json!(cell(u32le(h, 56))));
    hdr.insert("first_minifat".into(), json!(cell(u32le(h, 60))));
    hdr.insert("nminifat".into(), json!(cell(u32le(h, 64))));
    hdr.insert("first_difat".into(), json!(cell(u32le(h, 68))));
    hdr.insert("ndifat".into(), json!(cell(u32le(h, 72))));
    let hdr_difat: Vec<i64> = (0..109).map(|i| cell(u32le(h, 76 + 4 * i))).collect();
    // trimmed of trailing FREE entries; the untrimmed length is always 109
    let mut hd_trim = hdr_difat.clone();
    while hd_trim.last() == Some(&FREE) {
        hd_trim.pop();
    }
    hdr.insert("difat".into(), json!(hd_trim));
    if sshift != 9 && sshift != 12 {
        m.insert("hdr".into(), Value::Object(hdr));
        m.insert("geometry".into(), json!(false));
        return Value::Object(m);
    }
    m.insert("geometry".into(), json!(true));
    let slen = 1usize << sshift;
    hdr.insert(
        "pad_zero".into(),
        json!(flen >= slen && bytes[512..slen.min(flen)].iter().all(|&b| b == 0)),
    );
    m.insert("hdr".into(), Value::Object(hdr));
    let nsec = (flen + slen - 1) / slen - 1;
    m.insert("slen".into(), json!(slen));
    m.insert("nsec".into(), json!(nsec));
    m.insert("flen_rem".into(), json!(flen % slen));
    let per = slen / 4;
    let mut scratch = Vec::new();

    // DIFAT chain (followed through the next-pointers stored in the sectors)
    let mut difat_secs: Vec<i64> = Vec::new();
    let mut difat_ext: Vec<i64> = Vec::new();
    let mut seen = HashSet::new();
    let mut cur = cell(u32le(h, 68));
    while cur >= 0 && (cur as usize) < nsec && !seen.contains(&cur) && difat_secs.len() < 4096 {
        seen.insert(cur);
        difat_secs.push(cur);
        let s = sector(bytes, slen, cur as usize, &mut scratch).to_vec();
        for i in 0..(per - 1) {
            difat_ext.push(cell(u32le(&s, 4 * i)));
        }
        cur = cell(u32le(&s, slen - 4));
    }
    m.insert("difat_secs".into(), json!(difat_secs));
    m.insert("difat_end".into(), json!(cur));
    let mut de_trim = difat_ext.clone();
    while de_trim.last() == Some(&FREE) {
        de_trim.pop();
    }
    m.insert("difat_ext".into(), json!(de_trim));
    m.insert("difat_ext_rawlen".into(), json!(difat_ext.len()));

    // FAT: concatenation of the sectors listed in the DIFAT, in order
    let mut fat_full: Vec<i64> = Vec::new();
    let mut fat_secs: Vec<i64> = Vec::new();
    for &e in hdr_difat.iter().chain(difat_ext.iter()) {
        if e >= 0 && (e as usize) < nsec && fat_full.len() < (1 << 24) {
            fat_secs.push(e);
            let s = sector(bytes, slen, e as usize, &mut scratch).to_vec();
            for i in 0..per {
                fat_full.push(cell(u32le(&s, 4 * i)));
            }
        }
    }
    let fat_len = fat_full.len();
    let tail_nonfree = fat_full.iter().skip(nsec).filter(|&&c| c != FREE).count();
    let fat: Vec<i64> = fat_full.iter().take(nsec).copied().collect();
    // cells past the end of the file (trailing FREE trimmed), and - for small files - the cells of
    // every sector the DIFAT names, so that a reader which drops some DIFAT entries (padding) can
    // be followed as well
    let mut fat_tail: Vec<i64> = fat_full.iter().skip(nsec).copied().collect();
    while fat_tail.last() == Some(&FREE) {
        fat_tail.pop();
    }
    m.insert("fat_tail".into(), json!(fat_tail));
    let mut named: Vec<i64> = Vec::new();
    let mut in_range = 0usize;
    let mut hole = false;
    let mut seen_free = false;
    for &e in hdr_difat.iter().chain(difat_ext.iter()) {
        if e == FREE {
            seen_free = true;
        } else if seen_free {
            hole = true;
        }
        if e >= 0 && (e as usize) < nsec {
            in_range += 1;
            if !named.contains(&e) {
                named.push(e);
            }
        }
    }
    // only reported when the entry list is irregular (a repeated sector, or entries after a FREE
    // entry): otherwise `fat` above already is what any reader assembles
    if nsec <= (1 << 15) && (hole || named.len() != in_range) {
        let cells: Vec<Value> = named
            .iter()
            .map(|&e| {
                let s = sector(bytes, slen, e as usize, &mut scratch).to_vec();
                json!([e, (0..per).map(|i| cell(u32le(&s, 4 * i))).collect::<Vec<i64>>()])
            })
            .collect();
        m.insert("fat_cells".into(), Value::Array(cells));
    }
    m.insert("fat_secs".into(), json!(fat_secs));
    m.insert("fat_len".into(), json!(fat_len));
    m.insert("fat_tail_nonfree".into(), json!(tail_nonfree));
    m.insert("fat".into(), json!(fat));

    // Directory chain
    let (dir_secs, dir_end) = follow(&fat, cell(u32le(h, 48)), 1 << 20);
    m.insert("dir_secs".into(), json!(dir_secs));
    m.insert("dir_end".into(), json!(dir_end));
    let mut slots: Vec<Value> = Vec::new();
    let mut root_start = END;
    for &ds in dir_secs.iter() {
        let s = sector(bytes, slen, ds as usize, &mut scratch).to_vec();
        for i in 0..(slen / 128) {
            let e = &s[128 * i..128 * (i + 1)];
            let v = decode_slot(e, dict);
            if slots.is_empty() {
                root_start = v["start"].as_i64().unwrap();
            }
            slots.push(v);
        }
    }
    m.insert("slots".into(), Value::Array(slots));

    // MiniFAT chain
    let (mf_secs, mf_end) = follow(&fat, cell(u32le(h, 60)), 1 << 20);
    let mut minifat: Vec<i64> = Vec::new();
    for &ms in mf_secs.iter() {
        let s = sector(bytes, slen, ms as usize, &mut scratch).to_vec();
        for i in 0..per {
            minifat.push(cell(u32le(&s, 4 * i)));
        }
    }
    m.insert("minifat_secs".into(), json!(mf_secs));
    m.insert("minifat_end".into(), json!(mf_end));
    m.insert("minifat_rawlen".into(), json!(minifat.len()));
    while minifat.last() == Some(&FREE) {
        minifat.pop();
    }
    m.insert("minifat".into(), json!(minifat));

    // Mini-stream container chain
    let (root_secs, root_end) = follow(&fat, root_start, 1 << 20);
    m.insert("root_secs".into(), json!(root_secs));
    m.insert("root_end".into(), json!(root_end));

    if opt.sectors {
        // Sectors the decoder itself read as tables (FAT, DIFAT, directory, MiniFAT) are replaced
        // by an opaque token when they have many runs; every other sector is data of some stream
        // (or free) and is reported in full up to a generous run limit.
        let mut table: HashSet<i64> = HashSet::new();
        for v in fat_secs.iter().chain(difat_secs.iter()).chain(dir_secs.iter()).chain(mf_secs.iter()) {
            table.insert(*v);
        }
        let mut secs: Vec<Value> = Vec::with_capacity(nsec);
        for s in 0..nsec {
            let b = sector(bytes, slen, s, &mut scratch);
            let limit = if table.contains(&(s as i64)) { opt.max_runs } else { opt.max_runs * 40 };
            secs.push(rle::to_json_or_hash(b, limit));
        }
        m.insert("sec".into(), Value::Array(secs));
        let mut minis: Vec<Value> = Vec::new();
        for &rs in root_secs.iter() {
            let b = sector(bytes, slen, rs as usize, &mut scratch).to_vec();
            for i in 0..(slen / 64) {
                minis.push(rle::to_json_or_hash(&b[64 * i..64 * (i + 1)], 8));
            }
        }
        m.insert("minis".into(), Value::Array(minis));
    }
    Value::Object(m)
}

fn decode_slot(e: &[u8], dict: &Dict) -> Value {
    let units: Vec<u16> = (0..32).map(|i| u16le(e, 2 * i)).collect();
    let nlen = u16le(e, 64) as usize;
    let nchars = if nlen >= 2 && nlen <= 64 && nlen % 2 == 0 { nlen / 2 - 1 } else { 0 };
    let name = if nlen >= 2 && nlen <= 64 && nlen % 2 == 0 {
        dict.id_of_units(&units[..nchars])
    } else if nlen == 0 {
        "".to_string()
    } else {
        format!("badlen:{}", nlen)
    };
    // the terminator is the unit right after the name; everything after it
    // should be zero padding
    let term_ok = nlen >= 2 && nlen <= 64 && nlen % 2 == 0 && units[nchars] == 0;
    let pad_zero = units[nchars.min(31)..].iter().all(|&u| u == 0);
    let blank = e[0..68].iter().all(|&b| b == 0) && e[80..128].iter().all(|&b| b == 0);
    let size = u64le(e, 120);
    // raw facts a reader may test (no judgement here): the unit right after the name as the name
    // length field delimits it, UTF-16 well-formedness of the name, presence of / \ : !, link
    // values in the reserved range 0xFFFFFFFB..=0xFFFFFFFE, the low 32 bits of the length
    let lenok = nlen <= 64 && nlen % 2 == 0;
    let nch = if lenok && nlen > 0 { nlen / 2 - 1 } else { 0 };
    let t0 = lenok && units[nch] == 0;
    let utf16 = !lenok || char::decode_utf16(units[..nch].iter().copied()).all(|r| r.is_ok());
    let nbad = lenok && units[..nch].iter().any(|&u| u == 47 || u == 92 || u == 58 || u == 33);
    let resv = |v: u32| (0xFFFF_FFFB..=0xFFFF_FFFE).contains(&v);
    let size3 = size & 0xFFFF_FFFF;
    json!({
        "t0": t0,
        "utf16": utf16,
        "nbad": nbad,
        "linv": resv(u32le(e, 68)),
        "rinv": resv(u32le(e, 72)),
        "cinv": resv(u32le(e, 76)),
        "size3": if size3 < 0x7FFF_FFFF { size3 as i64 } else { BIG },
        "szmod": (size % 64) as i64,
        "name": name,
        "nunits": nchars,
        "nlen": nlen,
        "term_ok": term_ok,
        "pad_zero": pad_zero,
        "type": e[66],
        "color": e[67],
        "left": sid(u32le(e, 68)),
        "right": sid(u32le(e, 72)),
        "child": sid(u32le(e, 76)),
        "clsid": guid_hex(&e[80..96]),
        "bits": format!("{:08x}", u32le(e, 96)),
        "ct": crate::limbs(u64le(e, 100)),
        "mt": crate::limbs(u64le(e, 108)),
        "start": cell(u32le(e, 116)),
        "size": if size < 0x7FFF_FFFF { size as i64 } else { BIG },
        "blank": blank,
    })
}
