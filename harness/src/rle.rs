//! Run-length encoding of byte strings: the only form in which stream data
//! and sector contents enter TLC.

use serde_json::{json, Value};

pub fn runs(bytes: &[u8]) -> Vec<(u8, usize)> {
    let mut out: Vec<(u8, usize)> = Vec::new();
    for &b in bytes {
        match out.last_mut() {
            Some((v, n)) if *v == b => *n += 1,
            _ => out.push((b, 1)),
        }
    }
    out
}

pub fn count_runs(bytes: &[u8], limit: usize) -> usize {
    let mut n = 0;
    let mut prev: Option<u8> = None;
    for &b in bytes {
        if prev != Some(b) {
            n += 1;
            if n > limit {
                return n;
            }
            prev = Some(b);
        }
    }
    n
}

pub fn to_json(bytes: &[u8]) -> Value {
    Value::Array(runs(bytes).into_iter().map(|(b, n)| json!([b, n])).collect())
}

/// RLE if it has at most `limit` runs, otherwise one opaque run of the
/// pseudo-byte -1 (type-compatible with ordinary runs; equals no real data).
pub fn to_json_or_hash(bytes: &[u8], limit: usize) -> Value {
    if count_runs(bytes, limit) <= limit {
        to_json(bytes)
    } else {
        json!([[-1, bytes.len()]])
    }
}

pub fn from_json(v: &Value) -> Vec<u8> {
    let mut out = Vec::new();
    if let Some(arr) = v.as_array() {
        for r in arr {
            let b = r[0].as_u64().unwrap() as u8;
            let n = r[1].as_u64().unwrap() as usize;
            out.extend(std::iter::repeat(b).take(n));
        }
    }
    out
}
