//! Verification harness for rust-cfb.
//!
//! The harness drives the real library, records what it observes as ndjson
//! events and decodes raw bytes with an independent parser.  It never judges:
//! every verdict is produced by TLC validating the recorded trace against the
//! TLA+ specifications under /verif/spec.

pub mod backend;
pub mod dict;
pub mod dump;
pub mod indep;
pub mod rle;
pub mod build;

use serde_json::{json, Value};

/// Splits a 64-bit quantity into three 22-bit limbs (TLC integers are 32 bit).
pub fn limbs(v: u64) -> Value {
    json!([(v >> 44) as i64, ((v >> 22) & 0x3f_ffff) as i64, (v & 0x3f_ffff) as i64])
}

pub fn unlimbs(v: &Value) -> u64 {
    let a = v[0].as_u64().unwrap();
    let b = v[1].as_u64().unwrap();
    let c = v[2].as_u64().unwrap();
    (a << 44) | (b << 22) | c
}

pub fn fnv64(bytes: &[u8]) -> u64 {
    let mut h: u64 = 0xcbf29ce484222325;
    for &b in bytes {
        h ^= b as u64;
        h = h.wrapping_mul(0x100000001b3);
    }
    h
}

pub fn err_kind(e: &std::io::Error) -> &'static str {
    use std::io::ErrorKind::*;
    match e.kind() {
        NotFound => "NotFound",
        AlreadyExists => "AlreadyExists",
        InvalidInput => "InvalidInput",
        InvalidData => "InvalidData",
        UnexpectedEof => "UnexpectedEof",
        Interrupted => "Interrupted",
        WriteZero => "WriteZero",
        _ => "Other",
    }
}
