//! Verification harness for rust-cfb.
//!
//! The harness drives the real library, records what it observes as ndjson
//! events and decodes raw bytes with an independent parser.  It never judges:
//! every verdict is produced by TLC validating the recorded trace against the
//! TLA+ specifications under /verif/spec.

pub mod backend;
pub mod dict;
pub mod dump;
pub mod indep;
pub mod rle;
pub mod build;

use serde_json::{json, Value};

/// Splits a 64-bit quantity into three 22-bit limbs (TLC integers are 32 bit).
pub fn limbs(v: u64) -> Value {
    json!([(v >> 44) as i64, ((v >> 22) & 0x3f_ffff) as i64, (v & 0x3f_ffff) as i64])
}

pub fn unlimbs(v: &Value) -> u64 {
    let a = v[0].as_u64().unwrap();
    let b = v[1].as_u64().unwrap();
    let c = v[2].as_u64().unwrap();
    (a << 44) | (b << 22) | c
}

pub fn fnv64(bytes: &[u8]) -> u64 {
    let mut h: u64 = 0xcbf29ce484222325;
    for &b in bytes {
        h ^= b as u64;
        h = h.wrapping_mul(0x100000001b3);
    }
    h
}

pub fn err_kind(e: &std::io::Error) -> &'static str {
    use std::io::ErrorKind::*;
    match e.kind() {
        NotFound => "NotFound",
        AlreadyExists => "AlreadyExists",
        InvalidInput => "InvalidInput",
        InvalidData => "InvalidData",
        UnexpectedEof => "UnexpectedEof",
        Interrupted => "Interrupted",
        WriteZero => "WriteZero",
        _ => "Other",
    }
}

/// Per-history watchdog for the drivers: a history of calls on changed library code may never
/// return.  `begin` marks the start of a history; when one runs longer than the limit the process
/// exits with code 4 (the orchestrator records the journalled history as hung and restarts the
/// driver after it).
pub mod watchdog {
    use std::sync::atomic::{AtomicU64, Ordering};
    use std::time::{Duration, Instant};

    static START_MS: AtomicU64 = AtomicU64::new(0);
    static T0: std::sync::OnceLock<Instant> = std::sync::OnceLock::new();

    fn now_ms() -> u64 {
        (T0.get_or_init(Instant::now).elapsed().as_millis() as u64).max(1)
    }

    static START_CPU_MS: AtomicU64 = AtomicU64::new(0);

    /// CPU time (user + system) this process has used, in milliseconds (from /proc/self/stat; 0 if unreadable).
    pub fn cpu_ms() -> u64 {
        let Ok(stat) = std::fs::read_to_string("/proc/self/stat") else { return 0 };
        // fields after the command name (which may contain spaces, but ends with ')')
        let Some(rest) = stat.rsplit(')').next() else { return 0 };
        let f: Vec<&str> = rest.split_whitespace().collect();
        // rest starts at field 3 (state); utime is field 14, stime field 15
        let (Some(u), Some(s)) = (f.get(11).and_then(|x| x.parse::<u64>().ok()), f.get(12).and_then(|x| x.parse::<u64>().ok())) else { return 0 };
        (u + s) * 10       // clock ticks of 1/100 s
    }

    /// A history is "hung" when it has used more CPU time than `limit_ms` (a loop that never ends; independent of
    /// how busy the machine is) or when it has made no end for 8 x `limit_ms` of wall time (blocked for good).
    pub fn start(limit_ms: u64) {
        let _ = now_ms();
        std::thread::spawn(move || loop {
            std::thread::sleep(Duration::from_millis(100));
            let st = START_MS.load(Ordering::SeqCst);
            if st != 0 {
                let wall = now_ms().saturating_sub(st);
                let cpu = cpu_ms().saturating_sub(START_CPU_MS.load(Ordering::SeqCst));
                // (or blocked: well past the limit in wall time with next to no CPU used - a call waiting for a
                // lock its own thread holds burns nothing)
                if cpu > limit_ms || wall > 8 * limit_ms || (wall > 2 * limit_ms && cpu < wall / 100) {
                    std::process::exit(4);
                }
            }
        });
    }

    pub fn begin() {
        START_CPU_MS.store(cpu_ms(), Ordering::SeqCst);
        START_MS.store(now_ms(), Ordering::SeqCst);
    }

    pub fn end() {
        START_MS.store(0, Ordering::SeqCst);
    }
}
