//! Backends handed to the library: a shared in-memory buffer whose bytes the
//! harness can snapshot at any time without going through the library, with
//! optional fault injection, short transfers and spurious `Interrupted`.

use std::io::{self, Read, Seek, SeekFrom, Write};
use std::sync::{Arc, Mutex};

#[derive(Default, Clone, Debug)]
pub struct Counters {
    pub reads: u64,
    pub writes: u64,
    pub seeks: u64,
    pub flushes: u64,
}

#[derive(Default)]
pub struct Ctl {
    pub n: Counters,
    /// Global index of backend calls (all classes), 1-based after increment.
    pub calls: u64,
    /// Fail the call whose index (in `fail_class` numbering) is listed here.
    pub fail_at: Vec<u64>,
    /// "r" = reads+seeks, "w" = writes+seeks+flushes, "all"
    pub fail_class: String,
    /// error kind of an injected failure: "" = Other, "interrupted" = ErrorKind::Interrupted (which
    /// std's read_exact / write_all loops retry silently)
    pub fail_kind: String,
    /// index within the class
    pub class_calls: u64,
    /// faults fired so far: (class index, kind of call)
    pub fired: Vec<(u64, &'static str)>,
    /// Chunk schedule for short transfers; empty = full transfers.
    /// Values: n > 0 = transfer at most n bytes; 0 = full; -1 = Interrupted.
    pub chunks: Vec<i64>,
    pub chunk_pos: usize,
    /// when true, counting/faults/chunking are suspended (harness-side access)
    pub paused: bool,
    /// when Some: every successful write call is recorded as (offset, length), in order
    pub wlog: Option<Vec<(u64, u64)>>,
}

impl Ctl {
    fn in_class(&self, kind: &str) -> bool {
        match self.fail_class.as_str() {
            "r" => kind == "read" || kind == "seek",
            "w" => kind == "write" || kind == "seek" || kind == "flush",
            "all" => true,
            _ => false,
        }
    }

    /// Returns Err if this call must fail.
    fn step(&mut self, kind: &'static str) -> io::Result<()> {
        if self.paused {
            return Ok(());
        }
        self.calls += 1;
        match kind {
            "read" => self.n.reads += 1,
            "write" => self.n.writes += 1,
            "seek" => self.n.seeks += 1,
            _ => self.n.flushes += 1,
        }
        if self.in_class(kind) {
            self.class_calls += 1;
            if self.fail_at.contains(&self.class_calls) {
                self.fired.push((self.class_calls, kind));
                // the properties speak of failures of ANY kind: the library must not read a meaning into the kind of an
                // error it did not cause (UnexpectedEof is not "the file ends here", WouldBlock is not "try again")
                let kind = match self.fail_kind.as_str() {
                    "interrupted" => io::ErrorKind::Interrupted,
                    "unexpected_eof" => io::ErrorKind::UnexpectedEof,
                    "would_block" => io::ErrorKind::WouldBlock,
                    "timed_out" => io::ErrorKind::TimedOut,
                    "invalid_data" => io::ErrorKind::InvalidData,
                    "write_zero" => io::ErrorKind::WriteZero,
                    _ => io::ErrorKind::Other,
                };
                return Err(io::Error::new(kind, "injected fault"));
            }
        }
        Ok(())
    }

    fn next_chunk(&mut self) -> i64 {
        if self.paused || self.chunks.is_empty() {
            return 0;
        }
        let c = self.chunks[self.chunk_pos % self.chunks.len()];
        self.chunk_pos += 1;
        c
    }
}

#[derive(Clone)]
pub struct SharedBuf {
    pub data: Arc<Mutex<Vec<u8>>>,
    pub ctl: Arc<Mutex<Ctl>>,
    pos: u64,
}

impl std::fmt::Debug for SharedBuf {
    fn fmt(&self, f: &mut std::fmt::Formatter<'_>) -> std::fmt::Result {
        // (formatting a CompoundFile formats its backend: keep it short, and slow enough to leave a window)
        let n = self.data.lock().map(|d| d.len()).unwrap_or(0);
        std::thread::yield_now();
        write!(f, "SharedBuf({} bytes at {})", n, self.pos)
    }
}

impl SharedBuf {
    pub fn new(bytes: Vec<u8>) -> SharedBuf {
        SharedBuf {
            data: Arc::new(Mutex::new(bytes)),
            ctl: Arc::new(Mutex::new(Ctl::default())),
            pos: 0,
        }
    }
    /// A second view of the same bytes and control block, positioned at 0.
    pub fn fresh(&self) -> SharedBuf {
        SharedBuf { data: self.data.clone(), ctl: self.ctl.clone(), pos: 0 }
    }
    pub fn snapshot(&self) -> Vec<u8> {
        self.data.lock().unwrap().clone()
    }
    pub fn len(&self) -> usize {
        self.data.lock().unwrap().len()
    }
}

impl Read for SharedBuf {
    fn read(&mut self, buf: &mut [u8]) -> io::Result<usize> {
        let chunk = {
            let mut c = self.ctl.lock().unwrap();
            c.step("read")?;
            c.next_chunk()
        };
        if chunk < 0 {
            return Err(io::Error::new(io::ErrorKind::Interrupted, "spurious"));
        }
        let data = self.data.lock().unwrap();
        let len = data.len() as u64;
        if self.pos >= len {
            return Ok(0);
        }
        let mut n = buf.len().min((len - self.pos) as usize);
        if chunk > 0 {
            n = n.min(chunk as usize);
        }
        let p = self.pos as usize;
        buf[..n].copy_from_slice(&data[p..p + n]);
        self.pos += n as u64;
        Ok(n)
    }
}

impl Write for SharedBuf {
    fn write(&mut self, buf: &[u8]) -> io::Result<usize> {
        let chunk = {
            let mut c = self.ctl.lock().unwrap();
            c.step("write")?;
            c.next_chunk()
        };
        if chunk < 0 {
            return Err(io::Error::new(io::ErrorKind::Interrupted, "spurious"));
        }
        let mut n = buf.len();
        if chunk > 0 {
            n = n.min(chunk as usize);
        }
        let mut data = self.data.lock().unwrap();
        let p = self.pos as usize;
        if data.len() < p {
            data.resize(p, 0);
        }
        let overlap = n.min(data.len() - p);
        data[p..p + overlap].copy_from_slice(&buf[..overlap]);
        data.extend_from_slice(&buf[overlap..n]);
        drop(data);
        {
            let mut c = self.ctl.lock().unwrap();
            if !c.paused && n > 0 {
                if let Some(log) = c.wlog.as_mut() {
                    log.push((self.pos, n as u64));
                }
            }
        }
        self.pos += n as u64;
        Ok(n)
    }
    fn flush(&mut self) -> io::Result<()> {
        self.ctl.lock().unwrap().step("flush")
    }
}

impl Seek for SharedBuf {
    fn seek(&mut self, pos: SeekFrom) -> io::Result<u64> {
        self.ctl.lock().unwrap().step("seek")?;
        let len = self.data.lock().unwrap().len() as i128;
        let np: i128 = match pos {
            SeekFrom::Start(d) => d as i128,
            SeekFrom::End(d) => len + d as i128,
            SeekFrom::Current(d) => self.pos as i128 + d as i128,
        };
        if np < 0 || np > u64::MAX as i128 {
            return Err(io::Error::new(
                io::ErrorKind::InvalidInput,
                "invalid seek to a negative or overflowing position",
            ));
        }
        self.pos = np as u64;
        Ok(self.pos)
    }
}
