//! Name dictionaries.  TLC never sees Unicode: scripts and traces refer to
//! names by ASCII ids; this module maps ids to the real strings and back.

use serde_json::Value;
use std::collections::HashMap;

pub struct Dict {
    pub name: String,
    pub id_to_str: HashMap<String, String>,
    pub str_to_id: HashMap<String, String>,
}

impl Dict {
    pub fn load(path: &str) -> Dict {
        let text = std::fs::read_to_string(path)
            .unwrap_or_else(|e| panic!("cannot read dictionary {}: {}", path, e));
        let v: Value = serde_json::from_str(&text).expect("dictionary json");
        let mut id_to_str = HashMap::new();
        let mut str_to_id = HashMap::new();
        for (id, s) in v["names"].as_object().expect("names") {
            let s = s.as_str().unwrap().to_string();
            id_to_str.insert(id.clone(), s.clone());
            // first id wins for duplicates (there should be none)
            str_to_id.entry(s).or_insert(id.clone());
        }
        id_to_str.insert("Root Entry".into(), "Root Entry".into());
        str_to_id.insert("Root Entry".into(), "Root Entry".into());
        Dict { name: v["dict"].as_str().unwrap_or("?").to_string(), id_to_str, str_to_id }
    }

    pub fn empty() -> Dict {
        Dict { name: "none".into(), id_to_str: HashMap::new(), str_to_id: HashMap::new() }
    }

    pub fn str_of(&self, id: &str) -> String {
        match self.id_to_str.get(id) {
            Some(s) => s.clone(),
            None => id.to_string(),
        }
    }

    pub fn id_of(&self, s: &str) -> String {
        match self.str_to_id.get(s) {
            Some(id) => id.clone(),
            None => {
                let hex: String =
                    s.encode_utf16().map(|u| format!("{:04x}", u)).collect();
                format!("raw:{}", hex)
            }
        }
    }

    pub fn id_of_units(&self, units: &[u16]) -> String {
        match String::from_utf16(units) {
            Ok(s) => self.id_of(&s),
            Err(_) => {
                let hex: String =
                    units.iter().map(|u| format!("{:04x}", u)).collect();
                format!("raw:{}", hex)
            }
        }
    }

    /// Renders a path given as tokens (name ids, "." or "..").
    pub fn render_path(&self, p: &Value) -> String {
        let mut s = String::new();
        if p["lead"].as_bool().unwrap_or(true) {
            s.push('/');
        }
        let toks = p["t"].as_array().cloned().unwrap_or_default();
        for (i, t) in toks.iter().enumerate() {
            if i > 0 {
                s.push('/');
            }
            let t = t.as_str().unwrap();
            if t == "." || t == ".." {
                s.push_str(t);
            } else {
                s.push_str(&self.str_of(t));
            }
        }
        if p["trail"].as_bool().unwrap_or(false) && !toks.is_empty() {
            s.push('/');
        }
        s
    }

    /// Maps a path produced by the library back to name ids.
    pub fn path_ids(&self, path: &std::path::Path) -> Value {
        let mut out = Vec::new();
        for c in path.components() {
            if let std::path::Component::Normal(os) = c {
                out.push(Value::String(self.id_of(&os.to_string_lossy())));
            }
        }
        Value::Array(out)
    }
}
