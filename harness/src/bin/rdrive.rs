//! Robustness driver (C05, C11): feeds damaged images to the library and
//! records, per case, whether any call panicked, how much memory was in use
//! at the peak, and what open returned.  Monitors only: catch_unwind, a
//! counting global allocator, and a watchdog thread that leaves the process
//! (exit code 4) when one case runs too long - the orchestrator then records
//! the journalled case as a hang and restarts after it.
//!
//! case kinds:  {"layout": ..}   image built by the independent builder
//!              {"path": ..}     bytes of a file (corpus)
//!              {"flip": {"path"|"layout".., "seed", "n"}}  seeded byte flips / splices
//! modes:       "read"    open strict + permissive, every read-only call
//!              "mutate"  permissive open, then a mutation script, then read back
//!
//! usage: rdrive <script.json> <out.ndjson> [--journal f] [--from i]

use cfb_verif_harness::build::build_image;
use cfb_verif_harness::dict::Dict;
use cfb_verif_harness::indep;
use serde_json::{json, Value};
use std::alloc::{GlobalAlloc, Layout, System};
use std::io::{BufRead, BufWriter, Cursor, Read, Seek, SeekFrom, Write};
use std::panic::{catch_unwind, AssertUnwindSafe};
use std::sync::atomic::{AtomicU64, AtomicUsize, Ordering};
use std::time::{Duration, Instant};

struct Counting;
static CUR: AtomicUsize = AtomicUsize::new(0);
static PEAK: AtomicUsize = AtomicUsize::new(0);
static BIGGEST: AtomicUsize = AtomicUsize::new(0);
/// allocations above this size are refused (the process aborts): an allocation
/// driven by a corrupted length field must not take the machine down
const HARD_LIMIT: usize = 3 << 30;

unsafe impl GlobalAlloc for Counting {
    unsafe fn alloc(&self, l: Layout) -> *mut u8 {
        if l.size() > BIGGEST.load(Ordering::Relaxed) {
            BIGGEST.store(l.size(), Ordering::Relaxed);
        }
        if l.size() > HARD_LIMIT {
            return std::ptr::null_mut();
        }
        let p = System.alloc(l);
        if !p.is_null() {
            let c = CUR.fetch_add(l.size(), Ordering::Relaxed) + l.size();
            PEAK.fetch_max(c, Ordering::Relaxed);
        }
        p
    }
    unsafe fn dealloc(&self, p: *mut u8, l: Layout) {
        CUR.fetch_sub(l.size(), Ordering::Relaxed);
        System.dealloc(p, l)
    }
    unsafe fn realloc(&self, p: *mut u8, l: Layout, new: usize) -> *mut u8 {
        if new > BIGGEST.load(Ordering::Relaxed) {
            BIGGEST.store(new, Ordering::Relaxed);
        }
        if new > HARD_LIMIT {
            return std::ptr::null_mut();
        }
        let q = System.realloc(p, l, new);
        if !q.is_null() {
            if new >= l.size() {
                let c = CUR.fetch_add(new - l.size(), Ordering::Relaxed) + (new - l.size());
                PEAK.fetch_max(c, Ordering::Relaxed);
            } else {
                CUR.fetch_sub(l.size() - new, Ordering::Relaxed);
            }
        }
        q
    }
}
#[global_allocator]
static A: Counting = Counting;

type Cf = cfb::CompoundFile<Cursor<Vec<u8>>>;

static CASE_START_MS: AtomicU64 = AtomicU64::new(0);
static CASE_START_CPU_MS: AtomicU64 = AtomicU64::new(0);

struct Rng(u64);
impl Rng {
    fn next(&mut self) -> u64 {
        self.0 = self.0.wrapping_add(0x9E3779B97F4A7C15);
        let mut z = self.0;
        z = (z ^ (z >> 30)).wrapping_mul(0xBF58476D1CE4E5B9);
        z = (z ^ (z >> 27)).wrapping_mul(0x94D049BB133111EB);
        z ^ (z >> 31)
    }
    fn below(&mut self, n: u64) -> u64 {
        if n == 0 {
            0
        } else {
            self.next() % n
        }
    }
}

fn case_bytes(case: &Value, dict: &Dict) -> Vec<u8> {
    if let Some(f) = case.get("flip") {
        let mut b = case_bytes(f, dict);
        let mut rng = Rng(f["seed"].as_u64().unwrap_or(1));
        let n = f["n"].as_u64().unwrap_or(1);
        for _ in 0..n {
            if b.is_empty() {
                break;
            }
            match rng.below(4) {
                0 => {
                    let i = rng.below(b.len() as u64) as usize;
                    b[i] ^= 1 << rng.below(8);
                }
                1 => {
                    let i = rng.below(b.len() as u64) as usize;
                    b[i] = [0u8, 0xFF, 0xFE, 0xFD, 0x80, 1][rng.below(6) as usize];
                }
                2 => {
                    // overwrite an aligned u32 with an interesting value
                    let i = (rng.below((b.len() / 4).max(1) as u64) * 4) as usize;
                    let v: u32 = [0, 1, 0xFFFF_FFFF, 0xFFFF_FFFE, 0xFFFF_FFFA, 0x8000_0000, 7, 0x7FFF_FFFF][rng.below(8) as usize];
                    if i + 4 <= b.len() {
                        b[i..i + 4].copy_from_slice(&v.to_le_bytes());
                    }
                }
                _ => {
                    // splice: copy a 64-byte block somewhere else
                    if b.len() > 128 {
                        let s = rng.below((b.len() - 64) as u64) as usize;
                        let d = rng.below((b.len() - 64) as u64) as usize;
                        let blk = b[s..s + 64].to_vec();
                        b[d..d + 64].copy_from_slice(&blk);
                    }
                }
            }
        }
        return b;
    }
    if let Some(p) = case["path"].as_str() {
        return std::fs::read(p).unwrap_or_default();
    }
    if case.get("layout").is_some() {
        return build_image(&case["layout"], dict);
    }
    Vec::new()
}

fn open(bytes: &[u8], strict: bool) -> std::io::Result<Cf> {
    if strict {
        cfb::CompoundFile::open_strict(Cursor::new(bytes.to_vec()))
    } else {
        cfb::CompoundFile::open(Cursor::new(bytes.to_vec()))
    }
}

/// every read-only call; returns the number of calls made
/// Read-only calls on a directory of many thousand entries: everything here is linear in the number of entries.
fn big_read_workload(cf: &mut Cf) -> u64 {
    let mut calls = 3u64;
    let _ = cf.version();
    let _ = cf.root_entry();
    let mut n = 0u64;
    let mut last = None;
    let mut mid = None;
    for e in cf.walk() {
        n += 1;
        if n % 1000 == 500 {
            mid = Some(e.path().to_path_buf());
        }
        last = Some((e.path().to_path_buf(), e.is_stream()));
        if n > 200_000 {
            break;
        }
    }
    calls += n;
    calls += cf.read_root_storage().take(200_000).count() as u64;
    for p in mid.iter().chain(last.iter().map(|(p, _)| p)) {
        let _ = cf.entry(p);
        let _ = cf.exists(p);
        let _ = cf.is_stream(p);
        let _ = cf.is_storage(p);
        let _ = cf.exists(p.join("x"));
        if let Ok(it) = cf.read_storage(p) {
            let _ = it.take(10).count();
        }
        if let Ok(it) = cf.walk_storage(p) {
            let _ = it.take(10).count();
        }
        calls += 7;
    }
    if let Some((p, true)) = last {
        if let Ok(mut s) = cf.open_stream(&p) {
            let mut buf = Vec::new();
            let _ = s.read_to_end(&mut buf);
            calls += 2;
        }
    }
    calls
}

fn read_workload(cf: &mut Cf) -> u64 {
    let mut calls = 0u64;
    let _ = cf.version();
    let _ = cf.root_entry();
    let entries: Vec<cfb::Entry> = cf.walk().take(5000).collect();
    calls += 3 + entries.len() as u64;
    let _ = cf.read_root_storage().take(5000).count();
    let _ = cf.exists("/no/such/..");
    let _ = cf.entry("/nope");
    let _ = cf.read_storage("/nope");
    for e in entries.iter() {
        let p = e.path().to_path_buf();
        // every accessor of the entry (names such as ".." or the empty name are legal in a file and only need to be reported)
        let _ = (e.name().len(), e.is_stream(), e.is_storage(), e.is_root(), e.len(), e.is_empty(), *e.clsid(), e.state_bits(), e.created(), e.modified());
        let _ = format!("{:?}", e);
        let _ = cf.entry(&p);
        let _ = cf.exists(&p);
        let _ = cf.is_stream(&p);
        let _ = cf.is_storage(&p);
        calls += 4;
        // lookups BELOW the object (also below a stream, where nothing can be), by every lookup method,
        // and through '.' / '..' spellings of the object itself
        for leaf in ["x", "Root Entry", "foo"] {
            let q = p.join(leaf);
            let _ = cf.exists(&q);
            let _ = cf.is_stream(&q);
            let _ = cf.is_storage(&q);
            let _ = cf.entry(&q);
            if let Ok(it) = cf.read_storage(&q) {
                let _ = it.take(5000).count();
            }
            if let Ok(it) = cf.walk_storage(&q) {
                let _ = it.take(5000).count();
            }
            if let Ok(mut s) = cf.open_stream(&q) {
                let mut small = [0u8; 16];
                let _ = s.read(&mut small);
            }
            calls += 7;
        }
        let _ = cf.entry(p.join(".").join("x").join(".."));
        calls += 1;
        if e.is_stream() {
            if let Ok(mut s) = cf.open_stream(&p) {
                let len = s.len();
                let mut buf = Vec::new();
                let _ = s.read_to_end(&mut buf);
                let _ = s.seek(SeekFrom::Start(0));
                let _ = s.seek(SeekFrom::Start(len / 2));
                let mut small = [0u8; 100];
                let _ = s.read(&mut small);
                let _ = s.seek(SeekFrom::End(0));
                let _ = s.read(&mut small);
                let _ = s.seek(SeekFrom::Start(len.saturating_add(1)));
                let _ = s.seek(SeekFrom::End(-1));
                let _ = s.read(&mut small);
                let _ = s.seek(SeekFrom::Current(-3));
                if let Ok(b) = s.fill_buf() {
                    let n = b.len().min(7);
                    s.consume(n);
                }
                let _ = s.stream_position();
                calls += 14;
            }
        } else {
            if let Ok(it) = cf.read_storage(&p) {
                let _ = it.take(5000).count();
            }
            if let Ok(it) = cf.walk_storage(&p) {
                let _ = it.take(5000).count();
            }
            calls += 2;
        }
    }
    calls
}

/// After a handle call (successful or refused) the handle must stay usable: position, a relative seek by
/// nothing, the length and a small read return Ok or Err (C11: no panic, no hang in ANY later call).
fn probe<F: Read + Seek>(s: &mut cfb::Stream<F>) {
    let _ = s.stream_position();
    let _ = s.seek(SeekFrom::Current(0));
    let _ = s.len();
    let mut b = [0u8; 8];
    let _ = s.read(&mut b);
    let _ = s.stream_position();
}

fn first_stream(cf: &Cf) -> Option<std::path::PathBuf> {
    cf.walk().take(2000).find(|e| e.is_stream()).map(|e| e.path().to_path_buf())
}
fn streams(cf: &Cf) -> Vec<std::path::PathBuf> {
    cf.walk().take(2000).filter(|e| e.is_stream()).map(|e| e.path().to_path_buf()).collect()
}

/// one step of a mutation script; every call's result is ignored (Ok or Err are both fine)
fn mutate(cf: &mut Cf, step: &str) {
    match step {
        "create_small" => {
            if let Ok(mut s) = cf.create_stream("/zz_new") {
                let _ = s.write_all(&[7u8; 1]);
                let _ = s.flush();
                    probe(&mut s);
            }
        }
        "create_large" => {
            if let Ok(mut s) = cf.create_stream("/zz_big") {
                let _ = s.write_all(&[9u8; 5000]);
                let _ = s.flush();
                    probe(&mut s);
            }
        }
        "append" => {
            if let Some(p) = first_stream(cf) {
                if let Ok(mut s) = cf.open_stream(&p) {
                    let _ = s.seek(SeekFrom::End(0));
                    let _ = s.write_all(&[5u8; 100]);
                    let _ = s.flush();
                    probe(&mut s);
                }
            }
        }
        "append_large" => {
            for p in streams(cf) {
                if let Ok(mut s) = cf.open_stream(&p) {
                    let _ = s.seek(SeekFrom::End(0));
                    let _ = s.write_all(&[6u8; 4200]);
                    let _ = s.flush();
                    probe(&mut s);
                }
            }
        }
        "overwrite" => {
            for p in streams(cf) {
                if let Ok(mut s) = cf.open_stream(&p) {
                    let _ = s.write_all(&[4u8; 70]);
                    let _ = s.flush();
                    probe(&mut s);
                }
            }
        }
        "set_len_up" => {
            for p in streams(cf) {
                if let Ok(mut s) = cf.open_stream(&p) {
                    let l = s.len();
                    let _ = s.set_len(l.saturating_add(4096).min(1 << 20));
                }
            }
        }
        // the MiniFAT grows across its sector boundaries (128 entries in version 3, 1024 in version 4): 20 new streams of 63
        // mini sectors each
        "grow_minis" => {
            for i in 0..20 {
                if let Ok(mut s) = cf.create_stream(format!("/zz_m{}", i)) {
                    let _ = s.write_all(&[0x51u8; 4000]);
                    let _ = s.flush();
                    probe(&mut s);
                }
            }
        }
        "set_len_down" => {
            for p in streams(cf) {
                if let Ok(mut s) = cf.open_stream(&p) {
                    let _ = s.set_len(10);
                }
            }
        }
        "set_len_max" => {
            for p in streams(cf) {
                if let Ok(mut s) = cf.open_stream(&p) {
                    let _ = s.set_len(u64::MAX);
                    let _ = s.set_len(u64::MAX - 5000);
                    let _ = s.seek(SeekFrom::End(0));
                    let _ = s.write(&[1u8; 10]);
                }
            }
        }
        // a shrinking set_len through a handle whose cursor lies beyond the new length (it was moved to the end first); whatever
        // the call answers, the handle is used on: position, relative seek, write, flush
        "shrink_behind_cursor" => {
            for p in streams(cf) {
                if let Ok(mut s) = cf.open_stream(&p) {
                    let _ = s.seek(SeekFrom::End(0));
                    let _ = s.set_len(0);
                    probe(&mut s);
                    let _ = s.write(&[0x34u8; 10]);
                    let _ = s.flush();
                    probe(&mut s);
                    let _ = s.seek(SeekFrom::End(0));
                    let _ = s.set_len(3);
                    probe(&mut s);
                }
            }
        }
        "set_len_zero" => {
            for p in streams(cf) {
                if let Ok(mut s) = cf.open_stream(&p) {
                    let _ = s.set_len(0);
                }
            }
        }
        // the same handle keeps being used after a call on it returned (Ok or Err)
        "resize_then_write" => {
            for p in streams(cf) {
                if let Ok(mut s) = cf.open_stream(&p) {
                    let n = s.len();
                    let _ = s.set_len(0);
                    let _ = s.write_all(&[0x31u8; 10]);
                    let _ = s.flush();
                    probe(&mut s);
                    let _ = s.set_len((n / 2).min(20_000) + 5000);
                    let _ = s.seek(SeekFrom::End(0));
                    let _ = s.write_all(&[0x32u8; 700]);
                    let _ = s.flush();
                    probe(&mut s);
                    let _ = s.set_len(100);
                    let _ = s.seek(SeekFrom::Start(0));
                    let mut b = [0u8; 64];
                    let _ = s.read(&mut b);
                    let _ = s.write_all(&[0x33u8; 4200]);
                    let _ = s.flush();
                    probe(&mut s);
                }
            }
        }
        "recreate" => {
            for p in streams(cf) {
                let _ = cf.create_stream(&p);
            }
        }
        "remove_streams" => {
            for p in streams(cf) {
                let _ = cf.remove_stream(&p);
            }
        }
        "remove_all" => {
            let _ = cf.remove_storage_all("/");
        }
        "storage" => {
            let _ = cf.create_storage("/zz_st");
            if let Ok(mut s) = cf.create_stream("/zz_st/x") {
                let _ = s.write_all(&[3u8; 64]);
            }
            let _ = cf.create_storage_all("/zz_a/b/c");
            let _ = cf.remove_storage("/zz_a/b/c");
        }
        "metadata" => {
            let ps: Vec<_> = cf.walk().take(50).map(|e| e.path().to_path_buf()).collect();
            for p in ps {
                let _ = cf.set_state_bits(&p, 0xdead);
                let _ = cf.set_storage_clsid(&p, uuid::Uuid::from_bytes([1; 16]));
                let _ = cf.touch(&p);
                let _ = cf.set_created_time(&p, std::time::UNIX_EPOCH);
            }
        }
        _ => {}
    }
    let _ = cf.flush();
}

fn panic_msg(p: Box<dyn std::any::Any + Send>) -> String {
    p.downcast_ref::<String>().cloned().or_else(|| p.downcast_ref::<&str>().map(|s| s.to_string())).unwrap_or_default()
}

fn main() {
    let args: Vec<String> = std::env::args().collect();
    if args.len() < 3 {
        eprintln!("usage: rdrive <script.json> <out.ndjson> [--journal f] [--from i]");
        std::process::exit(2);
    }
    let mut journal: Option<String> = None;
    let mut from = 0usize;
    let mut i = 3;
    while i < args.len() {
        match args[i].as_str() {
            "--journal" => {
                journal = Some(args[i + 1].clone());
                i += 1;
            }
            "--from" => {
                from = args[i + 1].parse().unwrap();
                i += 1;
            }
            _ => {}
        }
        i += 1;
    }
    if std::env::var("RDRIVE_VERBOSE").is_err() {
        std::panic::set_hook(Box::new(|_| {}));
    }
    let script: Value = serde_json::from_str(&std::fs::read_to_string(&args[1]).expect("script")).expect("json");
    let dict = match script["dict_path"].as_str() {
        Some(p) => Dict::load(p),
        None => Dict::empty(),
    };
    let limit_ms = script["case_limit_ms"].as_u64().unwrap_or(10_000);
    let t0 = Instant::now();
    // watchdog: a case running longer than the limit is a hang
    std::thread::spawn(move || loop {
        std::thread::sleep(Duration::from_millis(50));
        // hung: more CPU time than the limit (a loop that never ends, however busy the machine is), or no end for
        // 8 x the limit of wall time
        // ... or BLOCKED: well past the limit in wall time having used next to no CPU (a call waiting for a lock it
        // holds itself burns nothing; a slow call on a busy machine still gets its share)
        let st = CASE_START_MS.load(Ordering::SeqCst);
        let cpu = cfb_verif_harness::watchdog::cpu_ms().saturating_sub(CASE_START_CPU_MS.load(Ordering::SeqCst));
        let wall = (t0.elapsed().as_millis() as u64).saturating_sub(st);
        if st != 0 && (cpu > limit_ms || wall > 8 * limit_ms || (wall > 2 * limit_ms && cpu < wall / 100)) {
            std::process::exit(4);
        }
    });
    let mut out = BufWriter::new(std::fs::File::create(&args[2]).expect("out"));
    for (hi, case) in script["histories"].as_array().expect("histories").iter().enumerate() {
        if hi < from {
            continue;
        }
        if let Some(j) = &journal {
            std::fs::write(j, format!("{}", hi)).ok();
        }
        out.flush().unwrap();
        let bytes = case_bytes(case, &dict);
        let mode = case["mode"].as_str().unwrap_or("read");
        let steps: Vec<String> = case["steps"].as_array().map(|a| a.iter().map(|x| x.as_str().unwrap_or("").to_string()).collect()).unwrap_or_default();
        let base = CUR.load(Ordering::SeqCst);
        PEAK.store(base, Ordering::SeqCst);
        BIGGEST.store(0, Ordering::SeqCst);
        CASE_START_CPU_MS.store(cfb_verif_harness::watchdog::cpu_ms(), Ordering::SeqCst);
        CASE_START_MS.store((t0.elapsed().as_millis() as u64).max(1), Ordering::SeqCst);
        let mut opened = json!({});
        let mut panic: Value = Value::Null;
        let mut calls = 0u64;
        if mode == "read" {
            let big = case["big"].as_bool() == Some(true);
            for (label, strict) in [("permissive", false), ("strict", true)] {
                let r = if big {
                    // a directory of many thousand entries: the calls run on a thread with the default 2 MiB stack of a
                    // Rust thread (recursion proportional to the input overflows it: the process dies, which the
                    // orchestrator reports for the journalled case), with a workload linear in the number of entries
                    let b2 = bytes.clone();
                    std::thread::Builder::new()
                        .stack_size(2 << 20)
                        .spawn(move || match open(&b2, strict) {
                            Ok(mut cf) => ("ok".to_string(), big_read_workload(&mut cf)),
                            Err(e) => (format!("err:{:?}", e.kind()), 0),
                        })
                        .expect("spawn")
                        .join()
                } else {
                    catch_unwind(AssertUnwindSafe(|| match open(&bytes, strict) {
                        Ok(mut cf) => ("ok".to_string(), read_workload(&mut cf)),
                        Err(e) => (format!("err:{:?}", e.kind()), 0),
                    }))
                };
                match r {
                    Ok((st, n)) => {
                        opened[label] = json!(st);
                        calls += n;
                    }
                    Err(p) => {
                        opened[label] = json!("panic");
                        panic = json!({"where": format!("read/{}", label), "msg": panic_msg(p)});
                    }
                }
            }
        } else {
            let r = catch_unwind(AssertUnwindSafe(|| open(&bytes, false)));
            match r {
                Err(p) => {
                    opened["permissive"] = json!("panic");
                    panic = json!({"where": "open", "msg": panic_msg(p)});
                }
                Ok(Err(e)) => {
                    opened["permissive"] = json!(format!("err:{:?}", e.kind()));
                }
                Ok(Ok(mut cf)) => {
                    opened["permissive"] = json!("ok");
                    for (si, st) in steps.iter().enumerate() {
                        let r = catch_unwind(AssertUnwindSafe(|| mutate(&mut cf, st)));
                        calls += 1;
                        if let Err(p) = r {
                            panic = json!({"where": format!("step {} {}", si, st), "msg": panic_msg(p)});
                            break;
                        }
                    }
                    if panic.is_null() {
                        let r = catch_unwind(AssertUnwindSafe(|| read_workload(&mut cf)));
                        match r {
                            Ok(n) => calls += n,
                            Err(p) => panic = json!({"where": "read-after-mutation", "msg": panic_msg(p)}),
                        }
                    }
                    // a poisoned lock would panic in drop paths too; contain it
                    let _ = catch_unwind(AssertUnwindSafe(move || drop(cf)));
                }
            }
        }
        CASE_START_MS.store(0, Ordering::SeqCst);
        let peak = PEAK.load(Ordering::SeqCst).saturating_sub(base);
        // raw decode of the input (tables only), for the open-path model's verdict (Trace_Open);
        // taken after the measurement so that it does not count towards the peak
        let img = if mode == "read" && bytes.len() <= 65536 && case["img"].as_bool().unwrap_or(true) {
            catch_unwind(AssertUnwindSafe(|| indep::decode(&bytes, &dict, &indep::Options { max_runs: 0, sectors: false }))).unwrap_or(json!({}))
        } else {
            json!({})
        };
        let ev = json!({"ev": "case", "hi": hi, "oi": 0, "id": case["id"], "mode": mode, "input": bytes.len(), "img": img,
                        "opened": opened, "panicked": !panic.is_null(),
                        "panic": if panic.is_null() { json!("") } else { json!(format!("{}: {}", panic["where"].as_str().unwrap_or(""), panic["msg"].as_str().unwrap_or(""))) },
                        "peak": peak,
                        "peak_kib": ((peak + 1023) / 1024).min(1 << 30), "input_kib": (bytes.len() + 1023) / 1024,
                        "biggest": BIGGEST.load(Ordering::SeqCst), "calls": calls,
                        "cor": case.get("cor").cloned().unwrap_or(json!("")), "site": case.get("site").cloned().unwrap_or(json!("")),
                        "steps": steps});
        writeln!(out, "{}", ev).unwrap();
    }
    out.flush().unwrap();
}
