//! Lock-protocol driver (C14).
//!
//! mode "extract": runs every read-only method, every handle operation and the
//!   structural calls single-threaded under the instrumented lock
//!   (cfg cfb_verif) and records, per call, the sequence of lock steps it
//!   performed (its "program").
//! mode "threads": N reader threads call read-only methods on a shared
//!   `&CompoundFile` while the creating thread drives stream handles; records
//!   every lock event (global order = sequence number taken under the event
//!   log's mutex) and every call with start/end stamps and its result.  A
//!   watchdog dumps what was recorded if no thread makes progress.
//!
//! No judgement happens here; Trace_Lock.tla decides.
//!
//! usage: ldrive <script.json> <out.ndjson> [--journal f] [--from i]

use cfb_verif_harness::backend::SharedBuf;
use serde_json::{json, Value};
use std::io::{BufRead, BufWriter, Read, Seek, SeekFrom, Write};
use std::panic::{catch_unwind, AssertUnwindSafe};
use std::sync::atomic::{AtomicBool, AtomicU64, Ordering};
use std::sync::Mutex;
use std::time::{Duration, Instant};

type Cf = cfb::CompoundFile<SharedBuf>;

struct Rng(u64);
impl Rng {
    fn next(&mut self) -> u64 {
        // splitmix64
        self.0 = self.0.wrapping_add(0x9E3779B97F4A7C15);
        let mut z = self.0;
        z = (z ^ (z >> 30)).wrapping_mul(0xBF58476D1CE4E5B9);
        z = (z ^ (z >> 27)).wrapping_mul(0x94D049BB133111EB);
        z ^ (z >> 31)
    }
    fn below(&mut self, n: u64) -> u64 {
        self.next() % n
    }
}

fn build_file(ver: u64) -> Cf {
    build_file_on(ver, SharedBuf::new(Vec::new()))
}

/// Makes the next backend call of the given class ("r": reads and seeks, "w": writes, seeks and
/// flushes) fail; `disarm` switches fault injection off again.
fn arm(buf: &SharedBuf, class: &str) {
    let mut c = buf.ctl.lock().unwrap();
    c.fail_class = class.to_string();
    c.class_calls = 0;
    c.fail_at = vec![1];
}
fn disarm(buf: &SharedBuf) {
    let mut c = buf.ctl.lock().unwrap();
    c.fail_class = String::new();
    c.fail_at.clear();
}

fn build_file_on(ver: u64, backing: SharedBuf) -> Cf {
    let v = if ver == 3 { cfb::Version::V3 } else { cfb::Version::V4 };
    let mut cf = cfb::CompoundFile::create_with_version(v, backing).unwrap();
    cf.create_storage("/a").unwrap();
    cf.create_storage("/a/b").unwrap();
    cf.create_storage("/q").unwrap();
    let mk = |cf: &mut Cf, p: &str, n: usize, b: u8| {
        let mut s = cf.create_stream(p).unwrap();
        s.write_all(&vec![b; n]).unwrap();
        s.flush().unwrap();
    };
    mk(&mut cf, "/m", 4096, 1);
    mk(&mut cf, "/a/s1", 100, 2);
    mk(&mut cf, "/a/s2", 5000, 3);
    mk(&mut cf, "/a/b/t", 70, 4);
    mk(&mut cf, "/z", 200, 5);
    mk(&mut cf, "/k", 10, 6);
    cf.flush().unwrap();
    cf
}

fn lock_events_json(evs: Vec<cfb::verif::LockEvent>) -> Vec<Value> {
    evs.into_iter()
        .map(|e| json!({"seq": e.seq, "t": e.thread, "k": e.kind, "d": e.depth, "site": format!("{}:{}", e.file.rsplit('/').next().unwrap_or(e.file), e.line)}))
        .collect()
}

/// Runs `f` with lock tracing on and returns the recorded events.
fn traced<R>(f: impl FnOnce() -> R) -> (Result<R, String>, Vec<Value>) {
    let _ = cfb::verif::take_lock_events();
    cfb::verif::set_lock_tracing(true);
    let r = catch_unwind(AssertUnwindSafe(f));
    cfb::verif::set_lock_tracing(false);
    let evs = lock_events_json(cfb::verif::take_lock_events());
    let r = r.map_err(|p| p.downcast_ref::<String>().cloned().or_else(|| p.downcast_ref::<&str>().map(|s| s.to_string())).unwrap_or_default());
    (r, evs)
}

static PROGRESS: AtomicU64 = AtomicU64::new(0);
static CURRENT: Mutex<(usize, usize, String, String)> = Mutex::new((0, 0, String::new(), String::new()));

/// Runs `f` with lock tracing on; a watchdog (see main) notices when it never returns.
fn traced_call<R>(hi: usize, oi: usize, role: &str, name: &str, f: impl FnOnce() -> R) -> (Result<R, String>, Vec<Value>) {
    *CURRENT.lock().unwrap() = (hi, oi, role.to_string(), name.to_string());
    PROGRESS.fetch_add(1, Ordering::SeqCst);
    let r = traced(f);
    PROGRESS.fetch_add(1, Ordering::SeqCst);
    r
}

fn emit_call<W: Write>(out: &mut W, hi: usize, oi: &mut usize, role: &str, name: &str, ok: bool, evs: Vec<Value>) {
    let v = json!({"ev": "call", "hi": hi, "oi": *oi, "role": role, "name": name,
                   "res": if ok {"ok"} else {"panic"}, "events": evs});
    *oi += 1;
    writeln!(out, "{}", v).unwrap();
    out.flush().unwrap();
}

fn extract<W: Write>(out: &mut W, hi: usize, hist: &Value) {
    let ver = hist["ver"].as_u64().unwrap_or(4);
    let backing = SharedBuf::new(Vec::new());
    let mut cf = build_file_on(ver, backing.clone());
    if let Some(mb) = hist["maxbuf"].as_u64() {
        // a small stream buffer makes refills and write-backs happen inside ordinary calls
        let inner = cf.into_inner();
        cf = cfb::OpenOptions::new().max_buffer_size(mb as usize).open_with(inner).unwrap();
    }
    let mut oi = 0usize;
    macro_rules! rd {
        ($name:expr, $body:expr) => {{
            let (r, evs) = traced_call(hi, oi, "reader", $name, || { $body; });
            emit_call(out, hi, &mut oi, "reader", $name, r.is_ok(), evs);
        }};
    }
    // ---- read-only methods (callable through &CompoundFile) ----
    rd!("version", { let _ = cf.version(); });
    rd!("root_entry", { let _ = cf.root_entry(); });
    rd!("entry", { let _ = cf.entry("/a/s1"); });
    rd!("entry.missing", { let _ = cf.entry("/a/nope"); });
    rd!("entry.root", { let _ = cf.entry("/"); });
    rd!("exists", { let _ = cf.exists("/a/b/t"); });
    rd!("exists.missing", { let _ = cf.exists("/nope"); });
    rd!("is_stream", { let _ = cf.is_stream("/a/s2"); });
    rd!("is_storage", { let _ = cf.is_storage("/a/b"); });
    rd!("read_root_storage", { let _ = cf.read_root_storage(); });
    rd!("read_storage", { let _ = cf.read_storage("/a"); });
    rd!("read_storage.stream", { let _ = cf.read_storage("/a/s1").is_err(); });
    rd!("walk", { let _ = cf.walk(); });
    rd!("walk_storage", { let _ = cf.walk_storage("/a"); });
    // formatting and cloning are read-only uses of a shared &CompoundFile too
    rd!("debug.compound_file", { let _ = format!("{:?}", cf); });
    rd!("debug.entry", { let e = cf.root_entry(); let _ = format!("{:?}", e); });
    rd!("entry.accessors", { if let Ok(e) = cf.entry("/a/s1") { let _ = (e.name().len(), e.path().to_path_buf(), e.is_stream(), e.is_storage(), e.is_root(), e.len(), e.is_empty(), *e.clsid(), e.state_bits(), e.created(), e.modified()); } });
    // iteration: every next() is its own call
    {
        let mut it = cf.walk();
        loop {
            let mut done = false;
            let (r, evs) = traced(|| { done = it.next().is_none(); });
            emit_call(out, hi, &mut oi, "reader", "walk.next", r.is_ok(), evs);
            if done || r.is_err() { break; }
        }
    }
    for p in ["/", "/a", "/a/b", "/q"] {
        if let Ok(mut it) = cf.read_storage(p) {
            loop {
                let mut done = false;
                let (r, evs) = traced(|| { done = it.next().is_none(); });
                emit_call(out, hi, &mut oi, "reader", "read_storage.next", r.is_ok(), evs);
                if done || r.is_err() { break; }
            }
        }
    }
    if let Ok(mut it) = cf.walk_storage("/a") {
        loop {
            let mut done = false;
            let (r, evs) = traced(|| { done = it.next().is_none(); });
            emit_call(out, hi, &mut oi, "reader", "walk_storage.next", r.is_ok(), evs);
            if done || r.is_err() { break; }
        }
    }
    // the other methods of Iterator on the listings (provided by std in terms of next() unless the library overrides them):
    // each is one call as far as the lock is concerned
    rd!("walk.nth", { let _ = cf.walk().nth(2); });
    rd!("walk.skip_next", { let _ = cf.walk().skip(1).next(); });
    rd!("walk.step_by", { let _ = cf.walk().step_by(2).count(); });
    rd!("walk.count", { let _ = cf.walk().count(); });
    rd!("walk.last", { let _ = cf.walk().last(); });
    rd!("walk.size_hint", { let _ = cf.walk().size_hint(); });
    rd!("walk.fold", { let _ = cf.walk().fold(0u64, |a, e| a + e.len()); });
    rd!("walk.find", { let _ = cf.walk().find(|e| e.is_stream()); });
    rd!("read_storage.nth", { if let Ok(mut it) = cf.read_storage("/a") { let _ = it.nth(1); } });
    rd!("read_storage.collect", { if let Ok(it) = cf.read_storage("/a") { let _ = it.collect::<Vec<_>>(); } });
    rd!("read_root_storage.last", { let _ = cf.read_root_storage().last(); });
    rd!("walk_storage.nth", { if let Ok(mut it) = cf.walk_storage("/a") { let _ = it.nth(1); let _ = it.nth(0); } });
    // a read-only call while an iterator is alive (guards must not outlive next())
    {
        let mut it = cf.walk();
        let _ = it.next();
        let _ = it.next();
        rd!("entry.during_walk", { let _ = cf.entry("/a"); });
        let (r, evs) = traced(|| { let _ = it.next(); });
        emit_call(out, hi, &mut oi, "reader", "walk.next", r.is_ok(), evs);
    }
    // ---- structural calls (need &mut CompoundFile; never concurrent with readers) ----
    macro_rules! ex {
        ($name:expr, $body:expr) => {{
            let (r, evs) = traced_call(hi, oi, "exclusive", $name, || { $body; });
            emit_call(out, hi, &mut oi, "exclusive", $name, r.is_ok(), evs);
        }};
    }
    ex!("create_storage", { let _ = cf.create_storage("/a/c"); });
    ex!("create_storage_all", { let _ = cf.create_storage_all("/x/y/z"); });
    ex!("create_stream", { let _ = cf.create_stream("/a/c/new"); });
    ex!("create_stream.overwrite", { let _ = cf.create_stream("/z"); });
    ex!("create_new_stream.exists", { let _ = cf.create_new_stream("/z").is_err(); });
    ex!("set_storage_clsid", { let _ = cf.set_storage_clsid("/a", uuid::Uuid::nil()); });
    ex!("set_state_bits", { let _ = cf.set_state_bits("/a", 7); });
    ex!("touch", { let _ = cf.touch("/a"); });
    ex!("set_created_time", { let _ = cf.set_created_time("/a", std::time::SystemTime::UNIX_EPOCH); });
    ex!("remove_stream", { let _ = cf.remove_stream("/a/c/new"); });
    ex!("remove_storage", { let _ = cf.remove_storage("/a/c"); });
    ex!("remove_storage_all", { let _ = cf.remove_storage_all("/x"); });
    ex!("flush", { let _ = cf.flush(); });
    // ---- handle operations ----
    let mut h: Option<cfb::Stream<SharedBuf>> = None;
    ex!("open_stream", { h = cf.open_stream("/a/s2").ok(); });
    if let Some(mut s) = h {
        macro_rules! hd {
            ($name:expr, $body:expr) => {{
                let (r, evs) = traced_call(hi, oi, "handle", $name, || { $body; });
                emit_call(out, hi, &mut oi, "handle", $name, r.is_ok(), evs);
            }};
        }
        let mut buf = vec![0u8; 3000];
        hd!("h.len", { let _ = s.len(); });
        hd!("h.read", { let _ = s.read(&mut buf[..100]); });
        hd!("h.read.buffered", { let _ = s.read(&mut buf[..100]); });
        // single primitive calls only: a program is the lock steps of ONE call
        for _ in 0..4 {
            hd!("h.read.more", { let _ = s.read(&mut buf[..900]); });
        }
        hd!("h.fill_buf", { let n = s.fill_buf().map(|b| b.len()).unwrap_or(0); s.consume(n.min(10)); });
        hd!("h.seek.inside", { let _ = s.seek(SeekFrom::Current(-5)); });
        hd!("h.seek.outside", { let _ = s.seek(SeekFrom::Start(4990)); });
        hd!("h.seek.refused", { let _ = s.seek(SeekFrom::Start(999999)).is_err(); });
        hd!("h.position", { let _ = s.stream_position(); });
        hd!("h.write.buffered", { let _ = s.write(&[9u8; 20]); });
        hd!("h.seek.dirty", { let _ = s.seek(SeekFrom::Start(0)); });
        hd!("h.write.buffered", { let _ = s.write(&[8u8; 20]); });
        hd!("h.read.dirty", { let _ = s.seek(SeekFrom::End(0)); let _ = s.read(&mut buf[..10]); });
        hd!("h.write.buffered", { let _ = s.write(&[7u8; 20]); });
        hd!("h.flush.dirty", { let _ = s.flush(); });
        hd!("h.flush.clean", { let _ = s.flush(); });
        for _ in 0..5 {
            hd!("h.write.more", { let _ = s.write(&[6u8; 700]); });
        }
        hd!("h.set_len.dirty", { let _ = s.set_len(100); });
        hd!("h.set_len.grow", { let _ = s.set_len(9000); });
        hd!("h.set_len.same", { let _ = s.set_len(9000); });
        // dirty data up to the end of the buffer window, cursor before the end of the stream: the
        // next read / fill_buf must write back and refill
        hd!("h.seek.start", { let _ = s.seek(SeekFrom::Start(0)); });
        for _ in 0..3 {
            hd!("h.write.window", { let _ = s.write(&[4u8; 1024]); });
        }
        hd!("h.read.dirty_refill", { let _ = s.read(&mut buf[..10]); });
        hd!("h.write.buffered", { let _ = s.write(&[3u8; 5]); });
        hd!("h.fill_buf.dirty", { let n = s.fill_buf().map(|b| b.len()).unwrap_or(0); s.consume(n.min(3)); });
        // failure paths: the next backend call of the class fails while the call is in progress
        hd!("h.flush.dirty", { let _ = s.flush(); });
        hd!("h.write.buffered", { let _ = s.write(&[2u8; 30]); });
        arm(&backing, "w");
        hd!("h.flush.fails", { let _ = s.flush().is_err(); });
        disarm(&backing);
        hd!("h.flush.retry", { let _ = s.flush(); });
        arm(&backing, "w");
        hd!("h.set_len.fails", { let _ = s.set_len(50_000).is_err(); });
        disarm(&backing);
        hd!("h.set_len.retry", { let _ = s.set_len(20_000); });
        hd!("h.seek.start", { let _ = s.seek(SeekFrom::Start(0)); });
        arm(&backing, "r");
        hd!("h.read.fails", { let _ = s.read(&mut buf[..100]).is_err(); });
        disarm(&backing);
        hd!("h.read.retry", { let _ = s.read(&mut buf[..100]); });
        hd!("h.write.buffered", { let _ = s.write(&[1u8; 40]); });
        arm(&backing, "w");
        hd!("h.seek.dirty.fails", { let _ = s.seek(SeekFrom::Start(15_000)).is_err(); });
        disarm(&backing);
        hd!("h.seek.dirty.retry", { let _ = s.seek(SeekFrom::Start(15_000)); });
        hd!("h.write.buffered", { let _ = s.write(&[5u8; 20]); });
        hd!("h.drop.dirty", { drop(s); });
    }
    let mut h2: Option<cfb::Stream<SharedBuf>> = None;
    ex!("open_stream", { h2 = cf.open_stream("/a/s1").ok(); });
    {
        let (r, evs) = traced(|| { drop(h2.take()); });
        emit_call(out, hi, &mut oi, "handle", "h.drop.clean", r.is_ok(), evs);
    }
    // a handle outliving the CompoundFile
    let mut h3 = cf.open_stream("/a/s1").ok();
    drop(cf);
    if let Some(s) = h3.as_mut() {
        let (r, evs) = traced(|| { let mut b = [0u8; 10]; let _ = s.read(&mut b); });
        emit_call(out, hi, &mut oi, "handle", "h.read.after_drop", r.is_ok(), evs);
    }
}

// ---------------------------------------------------------------------------

static CLOCK: AtomicU64 = AtomicU64::new(0);
fn stamp() -> u64 {
    CLOCK.fetch_add(1, Ordering::SeqCst) + 1
}

fn stream_lens(cf: &Cf, which: u64) -> Result<Vec<Value>, String> {
    // returns [[path, len], ...] for every stream the call reported
    let r = catch_unwind(AssertUnwindSafe(|| {
        let mut out: Vec<Value> = Vec::new();
        match which {
            0 => {
                if let Ok(e) = cf.entry("/a/s1") {
                    out.push(json!(["/a/s1", e.len()]));
                }
            }
            1 => {
                if let Ok(e) = cf.entry("/a/s2") {
                    out.push(json!(["/a/s2", e.len()]));
                }
            }
            2 => {
                for e in cf.walk() {
                    if e.is_stream() {
                        out.push(json!([e.path().to_string_lossy(), e.len()]));
                    } else {
                        // a recursive listing: another read-only call in the middle of the iteration
                        let _ = cf.is_storage(e.path());
                    }
                }
            }
            3 => {
                // (through skip / nth / step_by now and then: the same listing by other Iterator methods)
                let _ = cf.walk().nth(3).map(|e| e.len());
                let _ = cf.walk().skip(2).step_by(2).count();
                if let Ok(it) = cf.read_storage("/a") {
                    for e in it {
                        if e.is_stream() {
                            out.push(json!([e.path().to_string_lossy(), e.len()]));
                        }
                    }
                }
            }
            4 => {
                if let Ok(it) = cf.walk_storage("/a") {
                    for e in it {
                        if e.is_stream() {
                            out.push(json!([e.path().to_string_lossy(), e.len()]));
                        }
                    }
                }
            }
            5 => {
                let _ = cf.exists("/a/b/t");
                let _ = cf.is_stream("/a/s1");
                let _ = cf.is_storage("/q");
                let _ = cf.root_entry();
                let _ = cf.version();
                let _ = format!("{:?}", cf);
            }
            _ => {
                for e in cf.read_root_storage() {
                    if e.is_stream() {
                        out.push(json!([e.path().to_string_lossy(), e.len()]));
                    }
                }
            }
        }
        out
    }));
    r.map_err(|p| p.downcast_ref::<String>().cloned().or_else(|| p.downcast_ref::<&str>().map(|s| s.to_string())).unwrap_or_default())
}

const READER_CALLS: [&str; 7] = ["entry.s1", "entry.s2", "walk", "read_storage", "walk_storage", "predicates", "read_root_storage"];

fn threads<W: Write>(out: &mut W, hi: usize, hist: &Value, out_path: &str) {
    let ver = hist["ver"].as_u64().unwrap_or(4);
    let nreaders = hist["readers"].as_u64().unwrap_or(2) as usize;
    let nops = hist["nops"].as_u64().unwrap_or(60) as usize;
    let seed = hist["seed"].as_u64().unwrap_or(1);
    let stall_ms = hist["stall_ms"].as_u64().unwrap_or(8000);
    // an explicit maximum buffer size (not the library's default, which is a tuning choice): the large appends
    // below fit into it, so each of them is ONE write-back and changes the entry's length once
    let mut cf = cfb::OpenOptions::new().max_buffer_size(1 << 20).open_with(build_file(ver).into_inner()).unwrap();
    let mut h1 = cf.open_stream("/a/s1").unwrap();
    let mut h2 = cf.open_stream("/a/s2").unwrap();
    // spare handles on the other streams: each is written to (buffered) and then DROPPED without a flush while the readers
    // run - the drop is the operation that writes the data back, and it must not depend on what other threads do
    let mut spares: Vec<(&str, u64, cfb::Stream<SharedBuf>)> = Vec::new();
    for (n, l) in [("/k", 10u64), ("/m", 4096), ("/z", 200), ("/a/b/t", 70)] {
        let h = cf.open_stream(n).unwrap();
        spares.push((n, l, h));
    }
    let cf = cf; // shared immutably from here on
    CLOCK.store(0, Ordering::SeqCst);
    let events: Mutex<Vec<(u64, Value)>> = Mutex::new(Vec::new());
    let done_readers = AtomicU64::new(0);
    let handle_done = AtomicBool::new(false);
    let finished: Mutex<Vec<u64>> = Mutex::new(Vec::new());
    let all: Mutex<Vec<u64>> = Mutex::new(Vec::new());
    let _ = cfb::verif::take_lock_events();
    cfb::verif::set_lock_tracing(true);
    // schedule perturbation (hook): in two runs out of three the readers pause now and then while they hold the shared
    // guard, which widens every window in which the handle thread meets a held lock
    cfb::verif::set_lock_jitter(if seed % 3 == 0 { 0 } else { 120 });
    let main_tid = cfb::verif::current_thread_id();
    all.lock().unwrap().push(main_tid);
    let stalled = AtomicBool::new(false);
    let reset = json!({"ev": "reset", "hi": hi, "id": hist["id"], "mode": "threads", "ver": ver, "readers": nreaders,
                       "handle": main_tid,
                       "init": [["/a/s1", 100], ["/a/s2", 5000], ["/a/b/t", 70], ["/k", 10], ["/m", 4096], ["/z", 200]]});
    let dump = |out: &mut dyn Write, stalled_now: bool| {
        cfb::verif::set_lock_tracing(false);
        writeln!(out, "{}", reset).unwrap();
        let mut oi = 0usize;
        for e in lock_events_json(cfb::verif::take_lock_events()) {
            let mut e = e;
            e["ev"] = json!("lock");
            e["hi"] = json!(hi);
            e["oi"] = json!(oi);
            oi += 1;
            writeln!(out, "{}", e).unwrap();
        }
        let mut evs = events.lock().unwrap().clone();
        evs.sort_by_key(|x| x.0);
        for (seq, mut e) in evs {
            e["hi"] = json!(hi);
            e["oi"] = json!(oi);
            e["seq"] = json!(seq);
            oi += 1;
            writeln!(out, "{}", e).unwrap();
        }
        let fin = finished.lock().unwrap().clone();
        let allt = all.lock().unwrap().clone();
        let v = json!({"ev": "end", "hi": hi, "oi": oi, "stalled": stalled_now, "finished": fin, "threads": allt});
        writeln!(out, "{}", v).unwrap();
        out.flush().unwrap();
    };
    std::thread::scope(|sc| {
        for ri in 0..nreaders {
            let cf = &cf;
            let events = &events;
            let done_readers = &done_readers;
            let finished = &finished;
            let all = &all;
            sc.spawn(move || {
                let tid = cfb::verif::current_thread_id();
                all.lock().unwrap().push(tid);
                let mut rng = Rng(seed.wrapping_mul(1000).wrapping_add(ri as u64 + 1));
                let mut local: Vec<(u64, Value)> = Vec::new();
                for _ in 0..nops {
                    let which = rng.below(READER_CALLS.len() as u64);
                    let a = stamp();
                    let r = stream_lens(cf, which);
                    let b = stamp();
                    local.push((a, json!({"ev": "r_start", "t": tid})));
                    local.push((b, match r {
                        Ok(v) => json!({"ev": "r_end", "t": tid, "call": READER_CALLS[which as usize], "res": "ok", "lens": v}),
                        Err(m) => json!({"ev": "r_end", "t": tid, "call": READER_CALLS[which as usize], "res": "panic", "msg": m, "lens": []}),
                    }));
                    // flush local events regularly so that a stall dump sees them
                    if local.len() >= 8 {
                        events.lock().unwrap().append(&mut local);
                    }
                    match rng.below(4) {
                        0 => std::thread::yield_now(),
                        1 => std::hint::spin_loop(),
                        _ => {}
                    }
                }
                events.lock().unwrap().append(&mut local);
                finished.lock().unwrap().push(tid);
                done_readers.fetch_add(1, Ordering::SeqCst);
            });
        }
        // watchdog
        {
            let handle_done = &handle_done;
            let done_readers = &done_readers;
            let stalled = &stalled;
            let dump = &dump;
            let out_path = out_path.to_string();
            sc.spawn(move || {
                let mut last = CLOCK.load(Ordering::SeqCst);
                let mut since = Instant::now();
                loop {
                    std::thread::sleep(Duration::from_millis(25));
                    if handle_done.load(Ordering::SeqCst) && done_readers.load(Ordering::SeqCst) as usize == nreaders {
                        return;
                    }
                    let now = CLOCK.load(Ordering::SeqCst);
                    if now != last {
                        last = now;
                        since = Instant::now();
                    } else if since.elapsed() > Duration::from_millis(stall_ms) {
                        // (a process that was not scheduled at all for that long would look the same at this moment:
                        // give the other threads a chance to run, and look again)
                        std::thread::sleep(Duration::from_millis(400));
                        if CLOCK.load(Ordering::SeqCst) != last {
                            continue;
                        }
                        // no thread has started or finished a call for stall_ms: dump and leave
                        stalled.store(true, Ordering::SeqCst);
                        let mut f = std::fs::OpenOptions::new().append(true).create(true).open(&out_path).unwrap();
                        dump(&mut f, true);
                        // threads are stuck for good: leave; 3 = "stalled history recorded, continue with the next"
                        std::process::exit(3);
                    }
                }
            });
        }
        // handle thread = this thread (a Stream is not Send)
        let mut rng = Rng(seed.wrapping_mul(7919));
        let mut lens = [100u64, 5000u64];
        let mut local: Vec<(u64, Value)> = Vec::new();
        for opi in 0..nops {
            if !spares.is_empty() && opi % (nops / 5).max(1) == (nops / 5).max(1) - 1 {
                let (name, len0, mut sp) = spares.pop().unwrap();
                let k = [10u64, 600, 5000][rng.below(3) as usize];
                let a = stamp();
                let r = catch_unwind(AssertUnwindSafe(move || -> std::io::Result<()> {
                    sp.seek(SeekFrom::End(0))?;
                    sp.write_all(&vec![0x44u8; k as usize])?;
                    drop(sp);
                    Ok(())
                }));
                let b = stamp();
                let res = match &r {
                    Ok(Ok(())) => "ok",
                    Ok(Err(_)) => "err",
                    Err(_) => "panic",
                };
                local.push((a, json!({"ev": "h_start", "t": main_tid, "name": name, "to": len0 + k, "what": "append_drop"})));
                local.push((b, json!({"ev": "h_end", "t": main_tid, "name": name, "res": res, "len": len0 + k})));
                if res != "ok" {
                    break;
                }
                continue;
            }
            let which = rng.below(2) as usize;
            let (name, s) = if which == 0 { ("/a/s1", &mut h1) } else { ("/a/s2", &mut h2) };
            let mut kind = rng.below(11);
            if kind == 10 && lens[which] >= 400_000 {
                kind = 9;
            }
            let (mut to, desc): (u64, String) = if kind == 10 {
                // ONE Write::write call far larger than the stream buffer: it takes what the buffer can take (a short
                // count) - one handle operation, the length changes once (the count is only known afterwards)
                (lens[which], "bigwrite".to_string())
            } else if kind < 5 {
                // now and then an append far larger than any internal transfer unit: it is ONE handle
                // operation (buffered, written back by the flush) and must change the length once
                let k = if rng.below(8) == 0 && lens[which] < 400_000 { 330_000u64 } else { [10u64, 64, 600][rng.below(3) as usize] };
                (lens[which] + k, format!("append{}", k))
            } else if kind < 8 {
                // now and then a growth far larger than the stream buffer (1 MiB in these runs): set_len is ONE
                // handle operation, readers may see the old or the new length and nothing in between
                let n = if rng.below(7) == 0 && lens[which] < 400_000 { lens[which] + 2_500_000 } else { [0u64, 100, 4000, 4096, 5000, 9000][rng.below(6) as usize] };
                (n, format!("set_len{}", n))
            } else if kind < 9 {
                (lens[which].max(1500), "overwrite_read".to_string())
            } else {
                (lens[which], "read".to_string())
            };
            let a = stamp();
            let r = catch_unwind(AssertUnwindSafe(|| -> std::io::Result<()> {
                if kind == 10 {
                    s.seek(SeekFrom::End(0))?;
                    let _ = s.write(&vec![0x77u8; 3_000_000])?;
                    s.flush()?;
                } else if kind < 5 {
                    s.seek(SeekFrom::End(0))?;
                    s.write_all(&vec![0x55u8; (to - lens[which]) as usize])?;
                    s.flush()?;
                } else if kind < 8 {
                    s.set_len(to)?;
                } else if kind < 9 {
                    // unflushed overwrite, then reads that have to write it back first
                    let mut b = vec![0u8; 900];
                    s.seek(SeekFrom::Start(0))?;
                    s.write_all(&vec![0x66u8; 1500])?;
                    s.seek(SeekFrom::Start(100))?;
                    let _ = s.read(&mut b)?;
                    let _ = s.read(&mut b)?;
                    s.flush()?;
                } else {
                    let mut b = vec![0u8; 700];
                    s.seek(SeekFrom::Start(0))?;
                    let _ = s.read(&mut b)?;
                }
                Ok(())
            }));
            let b = stamp();
            if kind == 10 {
                to = s.len();
            }
            let res = match &r {
                Ok(Ok(())) => "ok",
                Ok(Err(_)) => "err",
                Err(_) => "panic",
            };
            local.push((a, json!({"ev": "h_start", "t": main_tid, "name": name, "to": to, "what": desc})));
            local.push((b, json!({"ev": "h_end", "t": main_tid, "name": name, "res": res, "len": s.len()})));
            if res == "ok" {
                lens[which] = to;
            } else {
                break;
            }
            if local.len() >= 8 {
                events.lock().unwrap().append(&mut local);
            }
            match rng.below(4) {
                0 => std::thread::yield_now(),
                1 => std::thread::sleep(Duration::from_micros(50)),
                _ => {}
            }
        }
        events.lock().unwrap().append(&mut local);
        finished.lock().unwrap().push(main_tid);
        handle_done.store(true, Ordering::SeqCst);
    });
    if !stalled.load(Ordering::SeqCst) {
        dump(out, false);
    }
    cfb::verif::set_lock_jitter(0);
    drop(h1);
    drop(h2);
    drop(spares);
}

fn main() {
    let args: Vec<String> = std::env::args().collect();
    if args.len() < 3 {
        eprintln!("usage: ldrive <script.json> <out.ndjson> [--journal f] [--from i]");
        std::process::exit(2);
    }
    let mut journal: Option<String> = None;
    let mut from = 0usize;
    let mut i = 3;
    while i < args.len() {
        match args[i].as_str() {
            "--journal" => {
                journal = Some(args[i + 1].clone());
                i += 1;
            }
            "--from" => {
                from = args[i + 1].parse().unwrap();
                i += 1;
            }
            _ => {}
        }
        i += 1;
    }
    std::panic::set_hook(Box::new(|_| {}));
    {
        // extract mode runs on the main thread; a call that blocks on itself (a request while
        // holding the exclusive guard) never returns: record what it did and leave
        let out_path = args[2].clone();
        std::thread::spawn(move || {
            let mut last = PROGRESS.load(Ordering::SeqCst);
            let mut since = Instant::now();
            loop {
                std::thread::sleep(Duration::from_millis(50));
                let now = PROGRESS.load(Ordering::SeqCst);
                if now != last || now % 2 == 0 {
                    last = now;
                    since = Instant::now();
                } else if since.elapsed() > Duration::from_millis(6000) {
                    cfb::verif::set_lock_tracing(false);
                    let evs = lock_events_json(cfb::verif::take_lock_events());
                    let (hi, oi, role, name) = CURRENT.lock().unwrap().clone();
                    let mut f = std::fs::OpenOptions::new().append(true).create(true).open(&out_path).unwrap();
                    let tid = evs.last().map(|e| e["t"].clone()).unwrap_or(json!(0));
                    writeln!(f, "{}", json!({"ev": "call", "hi": hi, "oi": oi, "role": role, "name": name, "res": "stalled", "events": evs})).unwrap();
                    writeln!(f, "{}", json!({"ev": "end", "hi": hi, "oi": oi + 1, "stalled": true, "finished": [], "threads": [tid]})).unwrap();
                    std::process::exit(3);
                }
            }
        });
    }
    let script: Value = serde_json::from_str(&std::fs::read_to_string(&args[1]).expect("script")).expect("json");
    // append mode: the watchdog may have to finish the file from another thread
    let _ = std::fs::remove_file(&args[2]);
    for (hi, hist) in script["histories"].as_array().expect("histories").iter().enumerate() {
        if hi < from {
            continue;
        }
        if let Some(j) = &journal {
            std::fs::write(j, format!("{}", hi)).ok();
        }
        let f = std::fs::OpenOptions::new().append(true).create(true).open(&args[2]).expect("out");
        let mut out = BufWriter::new(f);
        match hist["mode"].as_str().unwrap_or("extract") {
            "threads" => {
                out.flush().unwrap();
                threads(&mut out, hi, hist, &args[2]);
            }
            _ => {
                let reset = json!({"ev": "reset", "hi": hi, "id": hist["id"], "mode": "extract", "ver": hist["ver"],
                                   "readers": 0, "handle": cfb::verif::current_thread_id(), "init": []});
                writeln!(out, "{}", reset).unwrap();
                extract(&mut out, hi, hist);
                writeln!(out, "{}", json!({"ev": "end", "hi": hi, "oi": 100000, "stalled": false, "finished": [], "threads": []})).unwrap();
            }
        }
        out.flush().unwrap();
    }
}
