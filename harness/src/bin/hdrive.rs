//! Handle-level driver (C06, C12, C13, C18): one stream handle at a time,
//! primitive Read/BufRead/Write/Seek calls, optional fault injection and
//! chunked transfers in the backend.  Records one ndjson event per call.
//!
//! usage: hdrive <script.json> <out.ndjson> [--journal f] [--from i]

use cfb_verif_harness::backend::SharedBuf;
use cfb_verif_harness::dict::Dict;
use cfb_verif_harness::{err_kind, fnv64, rle};
use serde_json::{json, Map, Value};
use std::io::{self, BufRead, BufWriter, Read, Seek, SeekFrom, Write};
use std::panic::{catch_unwind, AssertUnwindSafe};

struct Live {
    buf: SharedBuf,
    cf: Option<cfb::CompoundFile<SharedBuf>>,
    h: Option<cfb::Stream<SharedBuf>>,
    hname: String,
    last_fill: usize,
    maxbuf: Option<usize>,
    ver: u64,
    /// a second handle kept alive (neither used nor dropped) while another stream is worked on
    parked: Option<(cfb::Stream<SharedBuf>, String)>,
    /// the CompoundFile was dropped / consumed while handles are still alive
    gone: bool,
}

fn is_handle_op(name: &str) -> bool {
    matches!(name, "read" | "read_to_end" | "fill_buf" | "consume" | "write" | "write_all" | "seek" | "position" | "set_len" | "flush" | "len" | "close" | "park" | "unpark")
}

fn ok(v: Value) -> Value {
    json!({"k": "ok", "v": v})
}
fn res_err(e: io::Error) -> Value {
    json!({"k": "err", "e": err_kind(&e), "msg": e.to_string()})
}
fn res_unit(r: io::Result<()>) -> Value {
    match r {
        Ok(()) => ok(json!("unit")),
        Err(e) => res_err(e),
    }
}
fn nohandle() -> Value {
    json!({"k": "err", "e": "NoHandle"})
}

fn seek_from(op: &Value) -> SeekFrom {
    let whence = op["whence"].as_str().unwrap_or("start");
    let i: i128 = match op["sym"].as_str() {
        Some("i64min") => i64::MIN as i128,
        Some("i64max") => i64::MAX as i128,
        Some("u64max") => u64::MAX as i128,
        Some("i64min1") => i64::MIN as i128 + 1,
        _ => op["d"].as_i64().unwrap() as i128,
    };
    match whence {
        "start" => SeekFrom::Start(i.clamp(0, u64::MAX as i128) as u64),
        "end" => SeekFrom::End(i.clamp(i64::MIN as i128, i64::MAX as i128) as i64),
        _ => SeekFrom::Current(i.clamp(i64::MIN as i128, i64::MAX as i128) as i64),
    }
}

fn setup(hist: &Value, dict: &Dict) -> io::Result<Live> {
    let ver = if hist["ver"].as_u64() == Some(3) { cfb::Version::V3 } else { cfb::Version::V4 };
    let buf = SharedBuf::new(Vec::new());
    buf.ctl.lock().unwrap().paused = true;
    let mut cf = cfb::CompoundFile::create_with_version(ver, buf.clone())?;
    if let Some(streams) = hist["streams"].as_array() {
        for s in streams {
            let name = dict.str_of(s["name"].as_str().unwrap());
            let mut st = cf.create_stream(format!("/{}", name))?;
            st.write_all(&rle::from_json(&s["runs"]))?;
            st.flush()?;
        }
    }
    cf.flush()?;
    drop(cf);
    {
        let mut c = buf.ctl.lock().unwrap();
        c.paused = false;
        c.calls = 0;
        c.class_calls = 0;
        c.n = Default::default();
        c.fired.clear();
        if let Some(f) = hist.get("faults") {
            if f.is_object() {
                c.fail_class = f["class"].as_str().unwrap_or("").to_string();
                c.fail_kind = f["kind"].as_str().unwrap_or("").to_string();
                c.fail_at = f["at"].as_array().map(|a| a.iter().map(|x| x.as_u64().unwrap()).collect()).unwrap_or_default();
            }
        }
        c.chunks = hist["chunks"].as_array().map(|a| a.iter().map(|x| x.as_i64().unwrap()).collect()).unwrap_or_default();
    }
    let maxbuf = hist["maxbuf"].as_u64().map(|n| n as usize);
    Ok(Live { buf, cf: None, h: None, hname: String::new(), last_fill: 0, maxbuf, ver: hist["ver"].as_u64().unwrap_or(4), parked: None, gone: false })
}

fn exec(live: &mut Live, op: &Value, dict: &Dict) -> Value {
    let name = op["op"].as_str().unwrap();
    let path = |op: &Value| format!("/{}", dict.str_of(op["name"].as_str().unwrap_or("")));
    match name {
        "open" => {
            live.h = None;
            live.cf = None;
            live.gone = false;
            let mut o = cfb::OpenOptions::new();
            if let Some(n) = live.maxbuf {
                o = o.max_buffer_size(n);
            }
            if op["strict"].as_bool() == Some(true) {
                o = o.strict();
            }
            let inner = live.buf.fresh();
            match o.open_with(inner) {
                Ok(cf) => {
                    live.cf = Some(cf);
                    ok(json!("unit"))
                }
                Err(e) => res_err(e),
            }
        }
        // the CompoundFile goes away while the handle (and a parked one) stay alive:
        // dropped, or consumed by into_inner
        "drop_cf" => match live.cf.take() {
            Some(cf) => {
                if op["how"].as_str() == Some("into_inner") {
                    let _ = cf.into_inner();
                } else {
                    drop(cf);
                }
                live.gone = true;
                ok(json!("unit"))
            }
            None => json!({"k": "err", "e": "NoFile"}),
        },
        _ if live.cf.is_none() && !(live.gone && is_handle_op(name)) => json!({"k": "err", "e": "NoFile"}),
        "walk" => {
            let cf = live.cf.as_ref().unwrap();
            ok(Value::Array(cf.walk().map(|e| json!({"n": if e.is_root() { "Root Entry".to_string() } else { dict.id_of(e.name()) }, "l": if e.is_stream() { e.len() } else { 0 }})).collect()))
        }
        "entry" => match live.cf.as_ref().unwrap().entry(path(op)) {
            Ok(e) => ok(json!(e.len())),
            Err(e) => res_err(e),
        },
        "exists" => ok(json!(live.cf.as_ref().unwrap().exists(path(op)))),
        "open_stream" => match live.cf.as_mut().unwrap().open_stream(path(op)) {
            Ok(s) => {
                let l = s.len();
                live.h = Some(s);
                live.hname = op["name"].as_str().unwrap_or("").to_string();
                live.last_fill = 0;
                ok(json!(l))
            }
            Err(e) => res_err(e),
        },
        "create_stream" => match live.cf.as_mut().unwrap().create_stream(path(op)) {
            Ok(s) => {
                live.h = Some(s);
                live.hname = op["name"].as_str().unwrap_or("").to_string();
                live.last_fill = 0;
                ok(json!(0))
            }
            Err(e) => res_err(e),
        },
        "remove_stream" => res_unit(live.cf.as_mut().unwrap().remove_stream(path(op))),
        "cf_flush" => res_unit(live.cf.as_mut().unwrap().flush()),
        "fresh_read" => {
            let p = format!("/{}", dict.str_of(&live.hname));
            match live.cf.as_mut().unwrap().open_stream(p) {
                Ok(mut s) => {
                    let mut b = Vec::new();
                    match s.read_to_end(&mut b) {
                        Ok(_) => ok(rle::to_json(&b)),
                        Err(e) => res_err(e),
                    }
                }
                Err(e) => res_err(e),
            }
        }
        "close" => {
            live.h = None;
            live.last_fill = 0;
            ok(json!("unit"))
        }
        "park" => {
            // set the current handle aside, as it is (possibly with unwritten data)
            match live.h.take() {
                Some(h) => {
                    live.parked = Some((h, std::mem::take(&mut live.hname)));
                    live.last_fill = 0;
                    ok(json!("unit"))
                }
                None => nohandle(),
            }
        }
        "unpark" => {
            if live.h.is_some() {
                return json!({"k": "err", "e": "NoHandle"});      // the script closes the current handle first
            }
            match live.parked.take() {
                Some((h, n)) => {
                    live.h = Some(h);
                    live.hname = n;
                    live.last_fill = 0;
                    ok(json!("unit"))
                }
                None => nohandle(),
            }
        }
        _ => {
            let Some(s) = live.h.as_mut() else { return nohandle(); };
            match name {
                "read" => {
                    let n = op["n"].as_u64().unwrap() as usize;
                    let mut b = vec![0u8; n];
                    live.last_fill = 0;
                    // the same transfer through the other methods of io::Read (provided by std in terms of `read` unless the
                    // library overrides them): each is logged as the `read` it amounts to
                    let via = op["via"].as_str().unwrap_or("");
                    let room = s.len().saturating_sub(s.stream_position().unwrap_or(u64::MAX)) as usize;
                    let r = if via == "exact" && n > 0 && n <= room {
                        s.read_exact(&mut b).map(|()| n)
                    } else if via == "vectored" && n >= 2 {
                        let (x, y) = b.split_at_mut(n / 2);
                        let mut v = [std::io::IoSliceMut::new(x), std::io::IoSliceMut::new(y)];
                        s.read_vectored(&mut v)
                    } else if via == "take" {
                        let mut got = Vec::new();
                        let r = Read::by_ref(s).take(n as u64).read_to_end(&mut got);
                        b[..got.len().min(n)].copy_from_slice(&got[..got.len().min(n)]);
                        r
                    } else {
                        s.read(&mut b)
                    };
                    match r {
                        Ok(k) => ok(rle::to_json(&b[..k.min(n)])),
                        Err(e) => res_err(e),
                    }
                }
                "read_to_end" => {
                    let mut b = Vec::new();
                    live.last_fill = 0;
                    match s.read_to_end(&mut b) {
                        Ok(_) => ok(rle::to_json(&b)),
                        // io::Read::read_to_end: "any bytes which have already been read will be appended to buf":
                        // what the vector holds after an error is logged too
                        Err(e) => {
                            let mut r = res_err(e);
                            r["partial"] = rle::to_json(&b);
                            r
                        }
                    }
                }
                "fill_buf" => match s.fill_buf() {
                    Ok(sl) => {
                        live.last_fill = sl.len();
                        ok(rle::to_json(sl))
                    }
                    Err(e) => {
                        live.last_fill = 0;
                        res_err(e)
                    }
                },
                "consume" => {
                    let n = (op["n"].as_u64().unwrap() as usize).min(live.last_fill);
                    s.consume(n);
                    live.last_fill -= n;
                    ok(json!(n))
                }
                "write" => {
                    let b = rle::from_json(&op["runs"]);
                    live.last_fill = 0;
                    let r = if op["via"].as_str() == Some("vectored") && b.len() >= 2 {
                        let (x, y) = b.split_at(b.len() / 2);
                        s.write_vectored(&[std::io::IoSlice::new(x), std::io::IoSlice::new(y)])
                    } else {
                        s.write(&b)
                    };
                    match r {
                        Ok(k) => ok(json!(k)),
                        Err(e) => res_err(e),
                    }
                }
                "write_all" => {
                    let b = rle::from_json(&op["runs"]);
                    live.last_fill = 0;
                    res_unit(s.write_all(&b))
                }
                "seek" => {
                    live.last_fill = 0;
                    let via = op["via"].as_str().unwrap_or("");
                    let r = if via == "rewind" && op["whence"].as_str() == Some("start") && op["d"].as_i64() == Some(0) && op["sym"].as_str().unwrap_or("") == "" {
                        s.rewind().map(|()| 0)
                    } else if via == "relative" && op["whence"].as_str() == Some("cur") && op["sym"].as_str().unwrap_or("") == "" {
                        s.seek_relative(op["d"].as_i64().unwrap_or(0)).and_then(|()| s.stream_position())
                    } else {
                        s.seek(seek_from(op))
                    };
                    match r {
                        Ok(p) => ok(json!(p)),
                        Err(e) => res_err(e),
                    }
                }
                "position" => match s.stream_position() {
                    Ok(p) => ok(json!(p)),
                    Err(e) => res_err(e),
                },
                "set_len" => {
                    live.last_fill = 0;
                    // symbolic lengths no file can have (refused in both versions)
                    let n = match op["sym"].as_str() {
                        Some("u64max") => u64::MAX,
                        Some("u64max1") => u64::MAX - 1,
                        Some("i64max") => i64::MAX as u64,
                        // lengths only a version 4 file can hold; issued on version 3 files only
                        // (a version 4 file would really allocate them)
                        Some("v3_4g") => 1u64 << 32,
                        Some("v3_5g") => 5u64 << 30,
                        Some("v3_16t") => 1u64 << 44,
                        _ => op["n"].as_u64().unwrap(),
                    };
                    if matches!(op["sym"].as_str(), Some("v3_4g") | Some("v3_5g") | Some("v3_16t")) && live.ver != 3 {
                        return json!({"k": "err", "e": "NoHandle"});
                    }
                    res_unit(s.set_len(n))
                }
                "flush" => res_unit(s.flush()),
                // (is_empty() is the same statement as len() == 0: a disagreement is logged as a length no stream has)
                "len" => ok(json!(if s.is_empty() == (s.len() == 0) { s.len() } else { 0x7FFF_FFF0 })),
                other => json!({"k": "err", "e": "UnknownOp", "msg": other}),
            }
        }
    }
}

fn main() {
    let args: Vec<String> = std::env::args().collect();
    if args.len() < 3 {
        eprintln!("usage: hdrive <script.json> <out.ndjson> [--journal f] [--from i]");
        std::process::exit(2);
    }
    let mut journal: Option<String> = None;
    let mut from = 0usize;
    let mut i = 3;
    while i < args.len() {
        match args[i].as_str() {
            "--journal" => {
                journal = Some(args[i + 1].clone());
                i += 1;
            }
            "--from" => {
                from = args[i + 1].parse().unwrap();
                i += 1;
            }
            _ => {}
        }
        i += 1;
    }
    std::panic::set_hook(Box::new(|_| {}));
    let script: Value = serde_json::from_str(&std::fs::read_to_string(&args[1]).expect("script")).expect("json");
    let dict = match script["dict_path"].as_str() {
        Some(p) => Dict::load(p),
        None => Dict::empty(),
    };
    let mut out = BufWriter::new(std::fs::File::create(&args[2]).expect("out"));
    cfb_verif_harness::watchdog::start(script["hist_limit_ms"].as_u64().unwrap_or(60_000));
    for (hi, hist) in script["histories"].as_array().expect("histories").iter().enumerate() {
        if hi < from {
            continue;
        }
        if let Some(j) = &journal {
            std::fs::write(j, format!("{}", hi)).ok();
        }
        out.flush().unwrap();
        cfb_verif_harness::watchdog::begin();
        let mut reset = Map::new();
        reset.insert("ev".into(), json!("reset"));
        reset.insert("hi".into(), json!(hi));
        reset.insert("id".into(), hist["id"].clone());
        reset.insert("ver".into(), hist["ver"].clone());
        reset.insert("mode".into(), hist.get("mode").cloned().unwrap_or(json!("plain")));
        reset.insert("streams".into(), hist.get("streams").cloned().unwrap_or(json!([])));
        reset.insert("cfg".into(), hist.get("cfg").cloned().unwrap_or(json!("")));
        reset.insert("maxbuf".into(), json!(hist["maxbuf"].as_i64().unwrap_or(-1)));
        if hist["nofid"].as_bool() == Some(true) {
            reset.insert("nofid".into(), json!(true));
        }
        reset.insert("faulty".into(), json!(hist.get("faults").map(|f| f.is_object()).unwrap_or(false)));
        let live = catch_unwind(AssertUnwindSafe(|| setup(hist, &dict)));
        let mut live = match live {
            Ok(Ok(l)) => {
                reset.insert("res".into(), ok(json!("unit")));
                writeln!(out, "{}", Value::Object(reset)).unwrap();
                l
            }
            _ => {
                reset.insert("res".into(), json!({"k": "err", "e": "Setup"}));
                writeln!(out, "{}", Value::Object(reset)).unwrap();
                continue;
            }
        };
        for (oi, op) in hist["ops"].as_array().cloned().unwrap_or_default().iter().enumerate() {
            let mut ev = Map::new();
            ev.insert("ev".into(), json!("op"));
            ev.insert("hi".into(), json!(hi));
            ev.insert("oi".into(), json!(oi));
            if let Some(o) = op.as_object() {
                for (k, v) in o {
                    ev.insert(k.clone(), v.clone());
                }
            }
            let fired_before = live.buf.ctl.lock().unwrap().fired.len();
            let r = catch_unwind(AssertUnwindSafe(|| exec(&mut live, op, &dict)));
            let res = match r {
                Ok(v) => v,
                Err(p) => {
                    let msg = p.downcast_ref::<String>().cloned().or_else(|| p.downcast_ref::<&str>().map(|s| s.to_string())).unwrap_or_default();
                    json!({"k": "panic", "msg": msg})
                }
            };
            let panicked = res["k"] == "panic";
            ev.insert("res".into(), res);
            {
                let c = live.buf.ctl.lock().unwrap();
                let fired: Vec<Value> = c.fired[fired_before..].iter().map(|(k, kind)| json!([k, kind])).collect();
                ev.insert("fired".into(), Value::Array(fired));
                ev.insert("calls".into(), json!(c.class_calls));
                ev.insert("ncalls".into(), json!([c.n.reads, c.n.writes, c.n.seeks, c.n.flushes]));
            }
            if !panicked && op["op"] == "fresh_read" && live.cf.is_some() {
                // the stream as stored in the file image itself: reopen a copy of the bytes
                let bytes = live.buf.snapshot();
                let name = format!("/{}", dict.str_of(&live.hname));
                let disk = catch_unwind(AssertUnwindSafe(|| match cfb::CompoundFile::open(std::io::Cursor::new(bytes)) {
                    Err(e) => res_err(e),
                    Ok(mut cf) => match cf.open_stream(&name) {
                        Err(e) => res_err(e),
                        Ok(mut s) => {
                            let mut b = Vec::new();
                            match s.read_to_end(&mut b) {
                                Ok(_) => ok(rle::to_json(&b)),
                                Err(e) => res_err(e),
                            }
                        }
                    },
                }))
                .unwrap_or_else(|_| json!({"k": "panic"}));
                ev.insert("disk".into(), disk);
            }
            if !panicked {
                let len = live.h.as_ref().map(|s| s.len() as i64).unwrap_or(-1);
                ev.insert("len".into(), json!(len));
                ev.insert("hname".into(), json!(live.hname.clone()));
                // hook H2: the state of the handle's cache (fidelity of CfbHandle, Trace_HandleFid)
                if let Some(s) = live.h.as_ref() {
                    let (boff, pos, cap, dlen, dirty, total) = s.verif_state();
                    ev.insert("hs".into(), json!([boff, pos, cap, dlen, dirty, total]));
                }
                if hist["hash"].as_bool() == Some(true) {
                    ev.insert("imghash".into(), json!(format!("{:016x}", fnv64(&live.buf.snapshot()))));
                }
            }
            writeln!(out, "{}", Value::Object(ev)).unwrap();
            if panicked {
                break;
            }
        }
        live.h = None;
        live.cf = None;
        cfb_verif_harness::watchdog::end();
    }
    out.flush().unwrap();
}
