fn main(){}
