//! File-level driver: executes operation scripts against the real library and
//! records one ndjson event per operation.  No judgement happens here.
//!
//! usage: drive <script.json> <out.ndjson> [--journal <file>] [--from <i>] [--only <i>]

use cfb_verif_harness::backend::SharedBuf;
use cfb_verif_harness::dict::Dict;
use cfb_verif_harness::dump::{dump, entry_json, reopen_dump, time_json};
use cfb_verif_harness::{err_kind, fnv64, indep, rle, unlimbs};
use serde_json::{json, Map, Value};
use std::collections::HashMap;
use std::io::{self, BufWriter, Read, Seek, SeekFrom, Write};
use std::panic::{catch_unwind, AssertUnwindSafe};
use std::path::PathBuf;
use std::time::{Duration, SystemTime, UNIX_EPOCH};

enum Any {
    Mem(SharedBuf),
    File(std::fs::File),
}
impl Read for Any {
    fn read(&mut self, b: &mut [u8]) -> io::Result<usize> {
        match self {
            Any::Mem(x) => x.read(b),
            Any::File(x) => x.read(b),
        }
    }
}
impl Write for Any {
    fn write(&mut self, b: &[u8]) -> io::Result<usize> {
        match self {
            Any::Mem(x) => x.write(b),
            Any::File(x) => x.write(b),
        }
    }
    fn flush(&mut self) -> io::Result<()> {
        match self {
            Any::Mem(x) => x.flush(),
            Any::File(x) => x.flush(),
        }
    }
}
impl Seek for Any {
    fn seek(&mut self, p: SeekFrom) -> io::Result<u64> {
        match self {
            Any::Mem(x) => x.seek(p),
            Any::File(x) => x.seek(p),
        }
    }
}

enum Snap {
    Mem(SharedBuf),
    File(PathBuf),
}
impl Snap {
    fn bytes(&self) -> Vec<u8> {
        match self {
            Snap::Mem(b) => b.snapshot(),
            Snap::File(p) => std::fs::read(p).unwrap_or_default(),
        }
    }
    fn pause(&self, on: bool) {
        if let Snap::Mem(b) = self {
            b.ctl.lock().unwrap().paused = on;
        }
    }
}

struct Live {
    cf: Option<cfb::CompoundFile<Any>>,
    snap: Snap,
    handles: HashMap<String, cfb::Stream<Any>>,
    maxbuf: Option<usize>,
    chunks: Vec<i64>,
}

fn ticks_to_system_time(v: &Value) -> SystemTime {
    // value dictionary entry: {"secs": i64 (string), "nanos": u32} relative to the Unix epoch
    let secs: i64 = v["secs"].as_str().map(|s| s.parse().unwrap()).unwrap_or_else(|| v["secs"].as_i64().unwrap());
    let nanos = v["nanos"].as_u64().unwrap_or(0) as u32;
    if secs >= 0 {
        UNIX_EPOCH + Duration::new(secs as u64, nanos)
    } else {
        // secs negative: time = epoch - |secs| + nanos
        UNIX_EPOCH - Duration::new((-secs) as u64, 0) + Duration::new(0, nanos)
    }
}

fn ok(v: Value) -> Value {
    json!({"k": "ok", "v": v})
}
fn res_unit(r: io::Result<()>) -> Value {
    match r {
        Ok(()) => ok(json!("unit")),
        Err(e) => json!({"k": "err", "e": err_kind(&e), "msg": e.to_string()}),
    }
}
fn res_err(e: io::Error) -> Value {
    json!({"k": "err", "e": err_kind(&e), "msg": e.to_string()})
}

fn new_backend(hist: &Value, bytes: Vec<u8>, tmpdir: &str, hid: &str) -> (Any, Snap, Vec<i64>) {
    let kind = hist["backend"]["kind"].as_str().unwrap_or("mem");
    match kind {
        "file" => {
            std::fs::create_dir_all(tmpdir).ok();
            let path = PathBuf::from(format!("{}/img_{}_{}.cfb", tmpdir, std::process::id(), hid.replace('/', "_")));
            std::fs::write(&path, &bytes).unwrap();
            let f = std::fs::OpenOptions::new().read(true).write(true).open(&path).unwrap();
            (Any::File(f), Snap::File(path), vec![])
        }
        _ => {
            let b = SharedBuf::new(bytes);
            let chunks: Vec<i64> = hist["backend"]["chunks"]
                .as_array()
                .map(|a| a.iter().map(|x| x.as_i64().unwrap()).collect())
                .unwrap_or_default();
            b.ctl.lock().unwrap().chunks = chunks.clone();
            (Any::Mem(b.clone()), Snap::Mem(b), chunks)
        }
    }
}

fn open_with(inner: Any, strict: bool, maxbuf: Option<usize>) -> io::Result<cfb::CompoundFile<Any>> {
    // the two builder calls commute: both orders are used in turn
    static ORDER: std::sync::atomic::AtomicUsize = std::sync::atomic::AtomicUsize::new(0);
    let first = ORDER.fetch_add(1, std::sync::atomic::Ordering::Relaxed) % 2 == 0;
    let mut o = cfb::OpenOptions::new();
    if strict && first {
        o = o.strict();
    }
    if let Some(n) = maxbuf {
        o = o.max_buffer_size(n);
    }
    if strict && !first {
        o = o.strict();
    }
    o.open_with(inner)
}

fn start_history(hist: &Value, tmpdir: &str, dict: &Dict) -> Result<Live, Value> {
    let hid = hist["id"].as_str().unwrap_or("h");
    let maxbuf = hist["maxbuf"].as_u64().map(|n| n as usize);
    if hist.get("image").is_some() || hist.get("layout").is_some() {
        // start from an existing image: a layout description for the independent
        // builder, the RLE of the whole file, or a path
        let img = hist.get("image").cloned().unwrap_or(Value::Null);
        let bytes = if hist.get("layout").is_some() {
            cfb_verif_harness::build::build_image(&hist["layout"], dict)
        } else if let Some(p) = img.as_str() {
            std::fs::read(p).map_err(|e| json!({"k":"err","e":"Other","msg":e.to_string()}))?
        } else {
            rle::from_json(&img)
        };
        let (any, snap, chunks) = new_backend(hist, bytes, tmpdir, hid);
        let strict = hist["open_mode"].as_str() == Some("strict");
        match open_with(any, strict, maxbuf) {
            Ok(cf) => Ok(Live { cf: Some(cf), snap, handles: HashMap::new(), maxbuf, chunks }),
            Err(e) => Err(res_err(e)),
        }
    } else if hist["backend"]["kind"].as_str() == Some("path") && hist["ver"].as_u64() != Some(3) {
        // the file-backed constructors of the public API: cfb::create(path) on a path that already
        // holds a longer, unrelated file (version 4 only: that is what cfb::create produces)
        std::fs::create_dir_all(tmpdir).ok();
        let path = PathBuf::from(format!("{}/img_{}_{}.cfb", tmpdir, std::process::id(), hid.replace('/', "_")));
        std::fs::write(&path, vec![0xABu8; 20_000]).map_err(res_err)?;
        // cfb::create(path) must leave exactly a new, empty compound file at the path.  The history
        // itself then starts like every other configuration (create on the backend, no reopen in
        // between - a reopen would be an extra step the other configurations do not take): the
        // file is NOT truncated again, so anything cfb::create(path) left behind stays in the bytes.
        let cf0 = cfb::create(&path).map_err(res_err)?;
        drop(cf0);
        let f = std::fs::OpenOptions::new().read(true).write(true).open(&path).map_err(res_err)?;
        let cf = cfb::CompoundFile::create_with_version(cfb::Version::V4, Any::File(f)).map_err(res_err)?;
        Ok(Live { cf: Some(cf), snap: Snap::File(path), handles: HashMap::new(), maxbuf, chunks: vec![] })
    } else {
        let ver = if hist["ver"].as_u64() == Some(3) { cfb::Version::V3 } else { cfb::Version::V4 };
        let (any, snap, chunks) = new_backend(hist, Vec::new(), tmpdir, hid);
        let cf = cfb::CompoundFile::create_with_version(ver, any).map_err(res_err)?;
        let cf = match maxbuf {
            None => cf,
            Some(_) => {
                // the only way to get V3 with a custom buffer size: reopen
                let inner = cf.into_inner();
                open_with(inner, false, maxbuf).map_err(res_err)?
            }
        };
        Ok(Live { cf: Some(cf), snap, handles: HashMap::new(), maxbuf, chunks })
    }
}

fn heavy(live: &mut Live, dict: &Dict, ev: &mut Map<String, Value>, want_img: bool, want_reopen: bool, iopt: &indep::Options) {
    live.snap.pause(true);
    let r = catch_unwind(AssertUnwindSafe(|| {
        let api = dump(live.cf.as_mut().unwrap(), dict, true);
        api
    }));
    match r {
        Ok(api) => {
            ev.insert("api".into(), api);
        }
        Err(_) => {
            ev.insert("api".into(), json!({"panic": true}));
        }
    }
    let bytes = live.snap.bytes();
    ev.insert("imghash".into(), json!(format!("{:016x}", fnv64(&bytes))));
    ev.insert("flen".into(), json!(bytes.len()));
    if want_img {
        ev.insert("img".into(), indep::decode(&bytes, dict, iopt));
    }
    if want_reopen {
        ev.insert(
            "reopen".into(),
            json!({
                "strict": reopen_dump(&bytes, true, dict),
                "permissive": reopen_dump(&bytes, false, dict),
            }),
        );
    }
    live.snap.pause(false);
}

fn storages_times(live: &mut Live, dict: &Dict) -> Value {
    let cf = live.cf.as_ref().unwrap();
    let mut out = Vec::new();
    for e in cf.walk() {
        if e.is_storage() {
            out.push(json!({"p": dict.path_ids(e.path()), "ct": time_json(e.created()), "mt": time_json(e.modified())}));
        }
    }
    Value::Array(out)
}

fn write_runs<W: Write>(w: &mut W, runs: &Value) -> io::Result<()> {
    let bytes = rle::from_json(runs);
    w.write_all(&bytes)
}

fn exec(live: &mut Live, op: &Value, dict: &Dict, ev: &mut Map<String, Value>, values: &Value) -> Value {
    let name = op["op"].as_str().unwrap();
    let path = || dict.render_path(&op["p"]);
    let hname = || op["h"].as_str().unwrap_or("").to_string();
    macro_rules! cf {
        () => {
            live.cf.as_mut().unwrap()
        };
    }
    match name {
        "create_storage" | "create_storage_all" => {
            let t0 = SystemTime::now();
            let r = if name == "create_storage" { cf!().create_storage(path()) } else { cf!().create_storage_all(path()) };
            let t1 = SystemTime::now();
            ev.insert("t0".into(), time_json(t0));
            ev.insert("t1".into(), time_json(t1));
            if r.is_ok() {
                ev.insert("times".into(), storages_times(live, dict));
            }
            res_unit(r)
        }
        "touch" => {
            let t0 = SystemTime::now();
            let r = cf!().touch(path());
            let t1 = SystemTime::now();
            ev.insert("t0".into(), time_json(t0));
            ev.insert("t1".into(), time_json(t1));
            if r.is_ok() {
                ev.insert("times".into(), storages_times(live, dict));
            }
            res_unit(r)
        }
        "create_stream" | "create_new_stream" => {
            let r = if name == "create_stream" { cf!().create_stream(path()) } else { cf!().create_new_stream(path()) };
            match r {
                Ok(s) => {
                    if let Some(h) = op["h"].as_str() {
                        live.handles.insert(h.to_string(), s);
                    }
                    ok(json!("unit"))
                }
                Err(e) => res_err(e),
            }
        }
        "remove_storage" => res_unit(cf!().remove_storage(path())),
        "remove_stream" => res_unit(cf!().remove_stream(path())),
        "remove_storage_all" => res_unit(cf!().remove_storage_all(path())),
        "exists" => ok(json!(cf!().exists(path()))),
        "is_stream" => ok(json!(cf!().is_stream(path()))),
        "is_storage" => ok(json!(cf!().is_storage(path()))),
        "entry" => match cf!().entry(path()) {
            Ok(e) => {
                let mut v = entry_json(&e, dict);
                if v["k"] != "stream" {
                    v["l"] = json!(0);
                }
                ok(v)
            }
            Err(e) => res_err(e),
        },
        "root_entry" => {
            let e = cf!().root_entry();
            let mut v = entry_json(&e, dict);
            v["l"] = json!(0);
            ok(v)
        }
        "read_storage" | "walk_storage" => {
            let r = if name == "read_storage" { cf!().read_storage(path()) } else { cf!().walk_storage(path()) };
            match r {
                Ok(it) => ok(Value::Array(
                    it.map(|e| json!({"p": dict.path_ids(e.path()), "k": if e.is_stream() {"stream"} else if e.is_root() {"root"} else {"storage"}}))
                        .collect(),
                )),
                Err(e) => res_err(e),
            }
        }
        "open_stream" => match cf!().open_stream(path()) {
            Ok(s) => {
                let len = s.len();
                if let Some(h) = op["h"].as_str() {
                    live.handles.insert(h.to_string(), s);
                }
                ok(json!(len))
            }
            Err(e) => res_err(e),
        },
        "read" => match cf!().open_stream(path()) {
            Ok(mut s) => {
                let mut buf = Vec::new();
                match s.read_to_end(&mut buf) {
                    Ok(_) => ok(rle::to_json(&buf)),
                    Err(e) => res_err(e),
                }
            }
            Err(e) => res_err(e),
        },
        "write" => match cf!().open_stream(path()) {
            Ok(mut s) => {
                let off = op["off"].as_u64().unwrap();
                let r = s
                    .seek(SeekFrom::Start(off))
                    .and_then(|_| write_runs(&mut s, &op["runs"]))
                    .and_then(|_| s.flush());
                res_unit(r)
            }
            Err(e) => res_err(e),
        },
        "set_len" => match cf!().open_stream(path()) {
            Ok(mut s) => {
                let n = op["n"].as_u64().unwrap();
                res_unit(s.set_len(n))
            }
            Err(e) => res_err(e),
        },
        "set_clsid" => {
            let c = values["clsid"][op["v"].as_str().unwrap()].as_str().unwrap();
            let u = uuid::Uuid::parse_str(c).unwrap();
            res_unit(cf!().set_storage_clsid(path(), u))
        }
        "set_bits" => {
            let b = values["bits"][op["v"].as_str().unwrap()].as_str().unwrap();
            let n = u32::from_str_radix(b, 16).unwrap();
            res_unit(cf!().set_state_bits(path(), n))
        }
        "set_ctime" | "set_mtime" => {
            let t = ticks_to_system_time(&values["time"][op["v"].as_str().unwrap()]);
            if name == "set_ctime" {
                res_unit(cf!().set_created_time(path(), t))
            } else {
                res_unit(cf!().set_modified_time(path(), t))
            }
        }
        "flush" => res_unit(cf!().flush()),
        "version" => ok(json!(match cf!().version() {
            cfb::Version::V3 => 3,
            cfb::Version::V4 => 4,
        })),
        "reopen" => {
            // Drop every handle, take the bytes as they are (no flush), reopen.
            live.handles.clear();
            let strict = op["mode"].as_str() == Some("strict");
            let bytes = live.snap.bytes();
            live.cf = None;
            let b = SharedBuf::new(bytes);
            b.ctl.lock().unwrap().chunks = live.chunks.clone();
            live.snap = Snap::Mem(b.clone());
            match open_with(Any::Mem(b), strict, live.maxbuf) {
                Ok(cf) => {
                    live.cf = Some(cf);
                    ok(json!("unit"))
                }
                Err(e) => res_err(e),
            }
        }
        // ---- C04: the file is re-laid-out the way another writer might have written it, and the history
        //      CONTINUES on the re-laid-out file.  "difat_swap": the first two DIFAT sectors trade places, so
        //      that the DIFAT chain runs from a higher sector to a lower one (equally legal) ----
        "relayout" => {
            live.handles.clear();
            let mut bytes = live.snap.bytes();
            let u32at = |b: &[u8], o: usize| u32::from_le_bytes([b[o], b[o + 1], b[o + 2], b[o + 3]]);
            let slen = 1usize << u32at(&bytes, 28).wrapping_shr(16).min(12);
            if op["kind"].as_str() == Some("fat_rotate") {
                // the FAT sector listed FIRST in the DIFAT and the one listed LAST trade places: afterwards the last-listed
                // FAT sector lives in sector 0 and the DIFAT ends with a genuine entry 0 (equally legal: FAT sectors may
                // be anywhere, the DIFAT lists them in coverage order).  Both cells stay marked FATSECT.
                let per = slen / 4;
                let mut locs: Vec<usize> = (0..109).map(|i| 76 + 4 * i).collect();
                let mut d = u32at(&bytes, 68) as usize;
                let mut guard = 0;
                while d < 0xFFFF_FFF0usize && (d + 2) * slen <= bytes.len() && guard < 4096 {
                    let o = (d + 1) * slen;
                    locs.extend((0..per - 1).map(|i| o + 4 * i));
                    d = u32at(&bytes, o + slen - 4) as usize;
                    guard += 1;
                }
                let used: Vec<usize> = locs.into_iter().take_while(|&o| u32at(&bytes, o) < 0xFFFF_FFF0).collect();
                if used.len() < 2 {
                    return json!({"k": "err", "e": "OneFatSector"});
                }
                let (lo, hi) = (used[0], used[used.len() - 1]);
                let (f0, fl) = (u32at(&bytes, lo) as usize, u32at(&bytes, hi) as usize);
                if (f0 + 2) * slen > bytes.len() || (fl + 2) * slen > bytes.len() {
                    return json!({"k": "err", "e": "BadFatSector"});
                }
                let (o0, ol) = ((f0 + 1) * slen, (fl + 1) * slen);
                let s0 = bytes[o0..o0 + slen].to_vec();
                let sl = bytes[ol..ol + slen].to_vec();
                bytes[o0..o0 + slen].copy_from_slice(&sl);
                bytes[ol..ol + slen].copy_from_slice(&s0);
                bytes[lo..lo + 4].copy_from_slice(&(fl as u32).to_le_bytes());
                bytes[hi..hi + 4].copy_from_slice(&(f0 as u32).to_le_bytes());
                let strict = op["mode"].as_str() == Some("strict");
                live.cf = None;
                let b = SharedBuf::new(bytes);
                b.ctl.lock().unwrap().chunks = live.chunks.clone();
                live.snap = Snap::Mem(b.clone());
                return match open_with(Any::Mem(b), strict, live.maxbuf) {
                    Ok(cf) => {
                        live.cf = Some(cf);
                        ok(json!("unit"))
                    }
                    Err(e) => res_err(e),
                };
            }
            let d1 = u32at(&bytes, 68) as usize;
            if d1 >= 0xFFFF_FFF0usize || (d1 + 2) * slen > bytes.len() {
                return json!({"k": "err", "e": "NoDifatSector"});
            }
            let d2 = u32at(&bytes, (d1 + 2) * slen - 4) as usize;
            if d2 >= 0xFFFF_FFF0usize || (d2 + 2) * slen > bytes.len() {
                return json!({"k": "err", "e": "NoDifatSector"});
            }
            let (o1, o2) = ((d1 + 1) * slen, (d2 + 1) * slen);
            let s1 = bytes[o1..o1 + slen].to_vec();
            let s2 = bytes[o2..o2 + slen].to_vec();
            bytes[o1..o1 + slen].copy_from_slice(&s2);          // the second DIFAT sector now lives at d1
            bytes[o2..o2 + slen].copy_from_slice(&s1);          // the first one at d2 ...
            bytes[o2 + slen - 4..o2 + slen].copy_from_slice(&(d1 as u32).to_le_bytes());   // ... and links to d1
            bytes[68..72].copy_from_slice(&(d2 as u32).to_le_bytes());
            let strict = op["mode"].as_str() == Some("strict");
            live.cf = None;
            let b = SharedBuf::new(bytes);
            b.ctl.lock().unwrap().chunks = live.chunks.clone();
            live.snap = Snap::Mem(b.clone());
            match open_with(Any::Mem(b), strict, live.maxbuf) {
                Ok(cf) => {
                    live.cf = Some(cf);
                    ok(json!("unit"))
                }
                Err(e) => res_err(e),
            }
        }
        // ---- C16: a documented deviation that needs a DIFAT sector, patched into a copy of the
        //      current bytes (the file must have at least one DIFAT sector: > 109 FAT sectors) ----
        "deviate" => {
            let mut bytes = live.snap.bytes();
            let kind = op["kind"].as_str().unwrap_or("");
            let u32at = |b: &[u8], o: usize| u32::from_le_bytes([b[o], b[o + 1], b[o + 2], b[o + 3]]);
            let slen = 1usize << u32at(&bytes, 28).wrapping_shr(16).min(12); // sector shift at offset 30
            let first_difat = u32at(&bytes, 68) as usize;
            let per = slen / 4;
            if first_difat >= 0xFFFF_FFF0usize || (first_difat + 2) * slen > bytes.len() {
                return json!({"k": "err", "e": "NoDifatSector"});
            }
            let dso = (first_difat + 1) * slen;
            // FAT sector and cell that describe sector `first_difat`
            let fat_index = first_difat / per;
            let fat_sector = if fat_index < 109 {
                u32at(&bytes, 76 + 4 * fat_index) as usize
            } else if fat_index - 109 < per - 1 {
                u32at(&bytes, dso + 4 * (fat_index - 109)) as usize
            } else {
                usize::MAX
            };
            match kind {
                "difat_zero_pad" => {
                    // trailing FREE entries of the (last) DIFAT sector become zeros
                    let mut i = per - 1;
                    while i > 0 && u32at(&bytes, dso + 4 * (i - 1)) == 0xFFFF_FFFF {
                        bytes[dso + 4 * (i - 1)..dso + 4 * i].copy_from_slice(&0u32.to_le_bytes());
                        i -= 1;
                    }
                }
                "difat_unmarked_end" | "difat_unmarked_free" => {
                    if fat_sector == usize::MAX || (fat_sector + 2) * slen > bytes.len() {
                        return json!({"k": "err", "e": "NoDifatSector"});
                    }
                    let o = (fat_sector + 1) * slen + 4 * (first_difat % per);
                    let v: u32 = if kind == "difat_unmarked_end" { 0xFFFF_FFFE } else { 0xFFFF_FFFF };
                    bytes[o..o + 4].copy_from_slice(&v.to_le_bytes());
                }
                "difat_end_free" => {
                    let o = dso + slen - 4;
                    bytes[o..o + 4].copy_from_slice(&0xFFFF_FFFFu32.to_le_bytes());
                }
                "difat_relocate" => {
                    // NOT a deviation: a different but equally legal place for the DIFAT sector
                    // (C04: "FAT/DIFAT/MiniFAT/directory sectors anywhere").  The sector is copied
                    // to a new sector appended to the file; the old one becomes free.
                    let nsec = bytes.len() / slen - 1;
                    let cell_off = |b: &[u8], sec: usize| -> Option<usize> {
                        let fi = sec / per;
                        let fs = if fi < 109 { u32at(b, 76 + 4 * fi) as usize } else if fi - 109 < per - 1 { u32at(b, dso + 4 * (fi - 109)) as usize } else { usize::MAX };
                        if fs == usize::MAX || (fs + 2) * slen > b.len() { None } else { Some((fs + 1) * slen + 4 * (sec % per)) }
                    };
                    let (Some(o_old), Some(o_new)) = (cell_off(&bytes, first_difat), cell_off(&bytes, nsec)) else {
                        return json!({"k": "err", "e": "NoDifatSector"});
                    };
                    let copy = bytes[dso..dso + slen].to_vec();
                    bytes.extend_from_slice(&copy);
                    bytes[o_new..o_new + 4].copy_from_slice(&0xFFFF_FFFCu32.to_le_bytes());
                    bytes[o_old..o_old + 4].copy_from_slice(&0xFFFF_FFFFu32.to_le_bytes());
                    bytes[68..72].copy_from_slice(&(nsec as u32).to_le_bytes());
                    for x in bytes[dso..dso + slen].iter_mut() {
                        *x = 0xEE;
                    }
                }
                _ => return json!({"k": "err", "e": "UnknownDeviation"}),
            }
            ev.insert(
                "dev".into(),
                json!({"strict": reopen_dump(&bytes, true, dict), "permissive": reopen_dump(&bytes, false, dict),
                       "img": if bytes.len() <= 16 << 20 { indep::decode(&bytes, dict, &indep::Options { max_runs: 0, sectors: false }) } else { json!({}) }}),
            );
            ok(json!("unit"))
        }
        // ---- handle operations (each leaves no pending data behind) ----
        "h_write" => {
            let h = hname();
            match live.handles.get_mut(&h) {
                None => json!({"k":"err","e":"NoHandle"}),
                Some(s) => {
                    let off = op["off"].as_u64().unwrap();
                    let r = s
                        .seek(SeekFrom::Start(off))
                        .and_then(|_| write_runs(s, &op["runs"]))
                        .and_then(|_| s.flush());
                    res_unit(r)
                }
            }
        }
        "h_read" => {
            let h = hname();
            match live.handles.get_mut(&h) {
                None => json!({"k":"err","e":"NoHandle"}),
                Some(s) => {
                    let mut buf = Vec::new();
                    let r = s.seek(SeekFrom::Start(0)).and_then(|_| s.read_to_end(&mut buf));
                    match r {
                        Ok(_) => ok(rle::to_json(&buf)),
                        Err(e) => res_err(e),
                    }
                }
            }
        }
        "h_len" => {
            let h = hname();
            match live.handles.get(&h) {
                None => json!({"k":"err","e":"NoHandle"}),
                Some(s) => ok(json!(s.len())),
            }
        }
        "h_set_len" => {
            let h = hname();
            match live.handles.get_mut(&h) {
                None => json!({"k":"err","e":"NoHandle"}),
                Some(s) => res_unit(s.set_len(op["n"].as_u64().unwrap())),
            }
        }
        "h_close" => {
            live.handles.remove(&hname());
            ok(json!("unit"))
        }
        other => json!({"k":"err","e":"UnknownOp","msg":other}),
    }
}

fn main() {
    let args: Vec<String> = std::env::args().collect();
    if args.len() < 3 {
        eprintln!("usage: drive <script.json> <out.ndjson> [--journal f] [--from i] [--only i]");
        std::process::exit(2);
    }
    let mut journal: Option<String> = None;
    let mut from = 0usize;
    let mut only: Option<usize> = None;
    let mut i = 3;
    while i < args.len() {
        match args[i].as_str() {
            "--journal" => {
                journal = Some(args[i + 1].clone());
                i += 1;
            }
            "--from" => {
                from = args[i + 1].parse().unwrap();
                i += 1;
            }
            "--only" => {
                only = Some(args[i + 1].parse().unwrap());
                i += 1;
            }
            _ => {}
        }
        i += 1;
    }
    std::panic::set_hook(Box::new(|_| {}));
    let text = std::fs::read_to_string(&args[1]).expect("script");
    let script: Value = serde_json::from_str(&text).expect("script json");
    let dict = match script["dict_path"].as_str() {
        Some(p) => Dict::load(p),
        None => Dict::empty(),
    };
    let values: Value = match script["values_path"].as_str() {
        Some(p) => serde_json::from_str(&std::fs::read_to_string(p).expect("values")).unwrap(),
        None => json!({}),
    };
    let tmpdir = script["tmpdir"].as_str().unwrap_or("/verif/work/tmp").to_string();
    std::fs::create_dir_all(&tmpdir).ok();
    cfb_verif_harness::dump::set_tmpdir(&tmpdir);
    cfb_verif_harness::watchdog::start(script["hist_limit_ms"].as_u64().unwrap_or(90_000));
    let out = std::fs::File::create(&args[2]).expect("out");
    let mut out = BufWriter::new(out);
    let iopt = indep::Options::default();
    let hists = script["histories"].as_array().expect("histories");
    for (hi, hist) in hists.iter().enumerate() {
        if hi < from {
            continue;
        }
        if let Some(o) = only {
            if hi != o {
                continue;
            }
        }
        if let Some(j) = &journal {
            std::fs::write(j, format!("{}", hi)).ok();
        }
        out.flush().unwrap();
        cfb_verif_harness::watchdog::begin();
        let heavy_mode = hist["heavy"].as_str().unwrap_or("all").to_string();
        let want_reopen = hist["reopen"].as_bool().unwrap_or(true);
        let want_img = hist["img"].as_bool().unwrap_or(true);
        let ops = hist["ops"].as_array().cloned().unwrap_or_default();
        let mut reset = Map::new();
        reset.insert("ev".into(), json!("reset"));
        reset.insert("hi".into(), json!(hi));
        reset.insert("id".into(), hist["id"].clone());
        reset.insert("ver".into(), hist["ver"].clone());
        reset.insert("cfg".into(), hist.get("cfg").cloned().unwrap_or(json!("")));
        if let Some(t) = hist.get("tree") {
            // the logical content the image is supposed to encode (from the generator)
            reset.insert("tree".into(), t.clone());
        }
        if let Some(x) = hist.get("expect") {
            reset.insert("expect".into(), x.clone());
        }
        // the start image holds a stream whose chain has more sectors than its length needs (every event says so:
        // the "chain length = ceil(size / sector)" rule does not apply to that history)
        let surplus = hist["surplus"].as_bool() == Some(true);
        if surplus {
            reset.insert("surplus".into(), json!(true));
        }
        let namejunk = hist["namejunk"].as_bool() == Some(true);
        if namejunk {
            reset.insert("namejunk".into(), json!(true));
        }
        reset.insert("open_mode".into(), hist.get("open_mode").cloned().unwrap_or(json!("permissive")));
        let started = catch_unwind(AssertUnwindSafe(|| start_history(hist, &tmpdir, &dict)));
        let mut live = match started {
            Ok(Ok(l)) => {
                reset.insert("res".into(), ok(json!("unit")));
                l
            }
            Ok(Err(e)) => {
                reset.insert("res".into(), e);
                reset.insert("heavy".into(), json!(false));
                writeln!(out, "{}", Value::Object(reset)).unwrap();
                continue;
            }
            Err(_) => {
                reset.insert("res".into(), json!({"k":"panic"}));
                reset.insert("heavy".into(), json!(false));
                writeln!(out, "{}", Value::Object(reset)).unwrap();
                continue;
            }
        };
        let wlog = hist["wlog"].as_bool().unwrap_or(false) && matches!(live.snap, Snap::Mem(_));
        if wlog {
            reset.insert("wlog".into(), json!(true));
        }
        let h0 = heavy_mode != "none";
        reset.insert("heavy".into(), json!(h0));
        if h0 {
            heavy(&mut live, &dict, &mut reset, want_img, want_reopen, &iopt);
        }
        writeln!(out, "{}", Value::Object(reset)).unwrap();
        let n = ops.len();
        for (oi, op) in ops.iter().enumerate() {
            let mut ev = Map::new();
            ev.insert("ev".into(), json!("op"));
            ev.insert("hi".into(), json!(hi));
            ev.insert("oi".into(), json!(oi));
            if let Some(o) = op.as_object() {
                for (k, v) in o {
                    ev.insert(k.clone(), v.clone());
                }
            }
            if wlog {
                if let Snap::Mem(b) = &live.snap {
                    b.ctl.lock().unwrap().wlog = Some(Vec::new());
                }
            }
            let r = catch_unwind(AssertUnwindSafe(|| exec(&mut live, op, &dict, &mut ev, &values)));
            if wlog {
                if let Snap::Mem(b) = &live.snap {
                    // the backend's write calls of this operation, in order; contiguous calls inside one sector
                    // (or inside the 512-byte header) are merged
                    let raw = b.ctl.lock().unwrap().wlog.take().unwrap_or_default();
                    let slen: u64 = if hist["ver"].as_u64() == Some(3) { 512 } else { 4096 };
                    let region = |o: u64| if o < 512 { 0 } else { 1 + o / slen };
                    let mut merged: Vec<(u64, u64)> = Vec::new();
                    for (o, n) in raw {
                        match merged.last_mut() {
                            Some(last) if last.0 + last.1 == o && region(last.0) == region(o) && region(o) == region(o + n - 1) => last.1 += n,
                            _ => merged.push((o, n)),
                        }
                    }
                    ev.insert("writes".into(), json!(merged.iter().map(|(o, n)| json!([o, n])).collect::<Vec<_>>()));
                }
            }
            let res = match r {
                Ok(v) => v,
                Err(p) => {
                    let msg = p.downcast_ref::<String>().cloned().or_else(|| p.downcast_ref::<&str>().map(|s| s.to_string())).unwrap_or_default();
                    json!({"k": "panic", "msg": msg})
                }
            };
            let panicked = res["k"] == "panic";
            if surplus {
                ev.insert("surplus".into(), json!(true));
            }
            if namejunk {
                ev.insert("namejunk".into(), json!(true));
            }
            ev.insert("res".into(), res);
            let is_heavy = !panicked
                && live.cf.is_some()
                && match heavy_mode.as_str() {
                    "all" => true,
                    "last" => oi + 1 == n || op["heavy"].as_bool() == Some(true),
                    "none" => false,
                    _ => op["heavy"].as_bool().unwrap_or(false),
                }
                && op["heavy"].as_bool() != Some(false);
            ev.insert("heavy".into(), json!(is_heavy));
            if is_heavy {
                heavy(&mut live, &dict, &mut ev, want_img, want_reopen, &iopt);
            } else if !panicked && live.cf.is_some() {
                let bytes = live.snap.bytes();
                ev.insert("flen".into(), json!(bytes.len()));
                ev.insert("imghash".into(), json!(format!("{:016x}", fnv64(&bytes))));
            }
            writeln!(out, "{}", Value::Object(ev)).unwrap();
            if panicked || live.cf.is_none() {
                break;
            }
        }
        live.handles.clear();
        live.cf = None;
        cfb_verif_harness::watchdog::end();
        if let Snap::File(p) = &live.snap {
            std::fs::remove_file(p).ok();
        }
        let _ = unlimbs;
    }
    out.flush().unwrap();
}
