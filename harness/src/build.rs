// image builder (C04) - filled in later
