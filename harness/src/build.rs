//! Independent image builder: serialises a layout description (produced by
//! the TLA+ layout / deviation / corruption generators, spec/Gen_Layout.tla)
//! to the bytes of an MS-CFB file.  Shares no code with the `cfb` crate.
//!
//! The description uses the same symbolic cell values as the raw decoder
//! (`indep.rs`): -1 FREE, -2 END, -3 FAT, -4 DIFAT, -5 INVALID; a few more
//! negative codes stand for values TLC cannot hold in its 32-bit integers.
//! Builder and decoder are cross-checked against each other on every image
//! (the trace validator demands decode(build(lay)) to be well-formed and to
//! abstract to the content the generator started from).

use crate::dict::Dict;
use serde_json::Value;

pub fn cell_u32(v: i64) -> u32 {
    match v {
        -1 => 0xFFFF_FFFF,
        -2 => 0xFFFF_FFFE,
        -3 => 0xFFFF_FFFD,
        -4 => 0xFFFF_FFFC,
        -5 => 0xFFFF_FFFB,
        -6 => 0xFFFF_FFFA, // MAX_REGULAR_SECTOR
        -7 => 0x8000_0000,
        -8 => 0x7FFF_FFFF,
        x if x >= 0 => x as u32,
        _ => 0xFFFF_FFF0,
    }
}

fn size_u64(v: i64) -> u64 {
    match v {
        -7 => 0x8000_0000,
        -10 => u64::MAX,
        -11 => 1u64 << 32,
        -12 => 0xFFFF_FFFF,
        -13 => (1u64 << 32) + 100, // V3 readers mask this to 100
        -14 => 0xFFFF_FFFF_FFFF_FFC0, // the largest multiple of the mini sector length
        -15 => 0x7FFF_FFFF_FFFF_FFC0,
        x if x >= 0 => x as u64,
        _ => 0x7FFF_FFFF_FFFF_FFFF,
    }
}

fn put_u16(b: &mut [u8], o: usize, v: u16) {
    b[o..o + 2].copy_from_slice(&v.to_le_bytes());
}
fn put_u32(b: &mut [u8], o: usize, v: u32) {
    b[o..o + 4].copy_from_slice(&v.to_le_bytes());
}
fn put_u64(b: &mut [u8], o: usize, v: u64) {
    b[o..o + 8].copy_from_slice(&v.to_le_bytes());
}
fn ints(v: &Value) -> Vec<i64> {
    v.as_array().map(|a| a.iter().map(|x| x.as_i64().unwrap_or(-1)).collect()).unwrap_or_default()
}
fn unlimbs(v: &Value) -> u64 {
    let a = v[0].as_i64().unwrap_or(0);
    if a < 0 {
        return 0;
    }
    ((a as u64) << 44) | ((v[1].as_u64().unwrap_or(0)) << 22) | v[2].as_u64().unwrap_or(0)
}
fn hex_bytes(s: &str) -> Vec<u8> {
    (0..s.len() / 2).map(|i| u8::from_str_radix(&s[2 * i..2 * i + 2], 16).unwrap_or(0)).collect()
}

fn slot_bytes(s: &Value, dict: &Dict) -> [u8; 128] {
    let mut e = [0u8; 128];
    let ty = s["type"].as_i64().unwrap_or(0);
    let name_id = s["name"].as_str().unwrap_or("");
    let name: String = if let Some(raw) = s["rawname"].as_str() { raw.to_string() } else { dict.str_of(name_id) };
    let units: Vec<u16> = name.encode_utf16().take(32).collect();
    let n = units.len().min(32);
    if ty != 0 || !name.is_empty() {
        for (i, u) in units.iter().enumerate().take(32) {
            put_u16(&mut e, 2 * i, *u);
        }
        // one unit of the name replaced (corruptions of the name itself): [position, unit], position -1 = last unit
        if let Some(p) = s["npatch"].as_array() {
            if n > 0 && p.len() == 2 {
                let pos = p[0].as_i64().unwrap_or(0);
                let at = if pos < 0 { n - 1 } else { (pos as usize).min(n - 1) };
                put_u16(&mut e, 2 * at, p[1].as_u64().unwrap_or(0) as u16);
            }
        }
        let nlen = s["nlen"].as_i64().unwrap_or(2 * (n as i64 + 1));
        put_u16(&mut e, 64, nlen as u16);
        if s["unterminated"].as_bool() == Some(true) && n < 32 {
            put_u16(&mut e, 2 * n, 0x41);
        }
        // what lies behind the terminating null is not part of the name (MS-CFB fixes the length field and the terminator, not the
        // rest of the 64-byte field): writers that reuse entries leave the tail of an older, longer name there
        if s["namejunk"].as_bool() == Some(true) && n < 30 {
            let junk = [0x2Fu16, 0x5C, 0x3A, 0x21, 0x41, 0xD800, 0x7A];    // / \ : ! A (a lone surrogate) z
            for i in (n + 1)..32 {
                put_u16(&mut e, 2 * i, junk[(i - n - 1) % junk.len()]);
            }
        }
    }
    e[66] = ty as u8;
    e[67] = s["color"].as_i64().unwrap_or(0) as u8;
    put_u32(&mut e, 68, cell_u32(s["left"].as_i64().unwrap_or(-1)));
    put_u32(&mut e, 72, cell_u32(s["right"].as_i64().unwrap_or(-1)));
    put_u32(&mut e, 76, cell_u32(s["child"].as_i64().unwrap_or(-1)));
    // CLSID: canonical text order -> u32le, u16le, u16le, 8 bytes
    let c = hex_bytes(s["clsid"].as_str().unwrap_or(""));
    if c.len() == 16 {
        let o = [3, 2, 1, 0, 5, 4, 7, 6, 8, 9, 10, 11, 12, 13, 14, 15];
        for (i, &j) in o.iter().enumerate() {
            e[80 + j] = c[i];
        }
    }
    let bits = u32::from_str_radix(s["bits"].as_str().unwrap_or("0"), 16).unwrap_or(0);
    put_u32(&mut e, 96, bits);
    put_u64(&mut e, 100, unlimbs(&s["ct"]));
    put_u64(&mut e, 108, unlimbs(&s["mt"]));
    put_u32(&mut e, 116, cell_u32(s["start"].as_i64().unwrap_or(0)));
    put_u64(&mut e, 120, size_u64(s["size"].as_i64().unwrap_or(0)));
    e
}

pub fn build_image(lay: &Value, dict: &Dict) -> Vec<u8> {
    let ver = lay["ver"].as_u64().unwrap_or(3);
    let slen: usize = if ver == 3 { 512 } else { 4096 };
    let per = slen / 4;
    let nsec = lay["nsec"].as_u64().unwrap_or(0) as usize;
    let junk = lay["junk"].as_u64().unwrap_or(0xEE) as u8;
    let mut b = vec![junk; (nsec + 1) * slen];
    let sec_off = |s: i64| -> Option<usize> {
        if s >= 0 && (s as usize) < nsec {
            Some((s as usize + 1) * slen)
        } else {
            None
        }
    };
    let fatsecs = ints(&lay["fatsecs"]);
    let difatsecs = ints(&lay["difatsecs"]);
    let dirsecs = ints(&lay["dirsecs"]);
    let mfsecs = ints(&lay["mfsecs"]);
    let rootsecs = ints(&lay["rootsecs"]);
    let h = &lay["hdr"];
    let geti = |k: &str, d: i64| -> i64 { h[k].as_i64().unwrap_or(d) };

    // ---- header ----
    for x in b[..slen.min(512)].iter_mut() {
        *x = 0;
    }
    if slen > 512 {
        for x in b[512..slen].iter_mut() {
            *x = if h["pad_nonzero"].as_bool() == Some(true) { 0x5A } else { 0 };
        }
    }
    let magic = hex_bytes(h["magic"].as_str().unwrap_or("d0cf11e0a1b11ae1"));
    b[..8].copy_from_slice(&magic[..8]);
    if h["clsid_nonzero"].as_bool() == Some(true) {
        b[8] = 1;
    }
    put_u16(&mut b, 24, geti("minor", 0x3E) as u16);
    put_u16(&mut b, 26, geti("major", ver as i64) as u16);
    put_u16(&mut b, 28, geti("bom", 0xFFFE) as u16);
    put_u16(&mut b, 30, geti("sshift", if ver == 3 { 9 } else { 12 }) as u16);
    put_u16(&mut b, 32, geti("mshift", 6) as u16);
    if h["resv_nonzero"].as_bool() == Some(true) {
        b[36] = 1;
    }
    put_u32(&mut b, 40, cell_u32(geti("ndir", if ver == 4 { dirsecs.len() as i64 } else { 0 })));
    put_u32(&mut b, 44, cell_u32(geti("nfat", fatsecs.len() as i64)));
    put_u32(&mut b, 48, cell_u32(geti("first_dir", dirsecs.first().copied().unwrap_or(-2))));
    put_u32(&mut b, 52, cell_u32(geti("txn", 0)));
    put_u32(&mut b, 56, cell_u32(geti("cutoff", 4096)));
    put_u32(&mut b, 60, cell_u32(geti("first_minifat", mfsecs.first().copied().unwrap_or(-2))));
    put_u32(&mut b, 64, cell_u32(geti("nminifat", mfsecs.len() as i64)));
    put_u32(&mut b, 68, cell_u32(geti("first_difat", difatsecs.first().copied().unwrap_or(-2))));
    put_u32(&mut b, 72, cell_u32(geti("ndifat", difatsecs.len() as i64)));
    let hdr_difat: Vec<i64> = if h["difat"].is_array() { ints(&h["difat"]) } else { fatsecs.iter().take(109).copied().collect() };
    for i in 0..109 {
        put_u32(&mut b, 76 + 4 * i, cell_u32(hdr_difat.get(i).copied().unwrap_or(-1)));
    }

    // ---- DIFAT sectors ----
    let difat_ext: Vec<i64> = if lay["difat_ext"].is_array() { ints(&lay["difat_ext"]) } else { fatsecs.iter().skip(109).copied().collect() };
    let difat_pad = lay["difat_pad"].as_i64().unwrap_or(-1);
    let difat_end = lay["difat_end"].as_i64().unwrap_or(-2);
    for (k, &ds) in difatsecs.iter().enumerate() {
        if let Some(o) = sec_off(ds) {
            for i in 0..(per - 1) {
                let v = difat_ext.get(k * (per - 1) + i).copied().unwrap_or(difat_pad);
                put_u32(&mut b, o + 4 * i, cell_u32(v));
            }
            let next = difatsecs.get(k + 1).copied().unwrap_or(difat_end);
            put_u32(&mut b, o + slen - 4, cell_u32(next));
        }
    }

    // ---- FAT sectors ----
    let fat = ints(&lay["fat"]);
    let fat_pad = lay["fat_pad"].as_i64().unwrap_or(-1);
    for (k, &fs) in fatsecs.iter().enumerate() {
        if let Some(o) = sec_off(fs) {
            for i in 0..per {
                let v = fat.get(k * per + i).copied().unwrap_or(fat_pad);
                put_u32(&mut b, o + 4 * i, cell_u32(v));
            }
        }
    }

    // ---- directory sectors ----
    let dirper = slen / 128;
    let empty: Vec<Value> = Vec::new();
    let slots = lay["slots"].as_array().unwrap_or(&empty);
    let blank = serde_json::json!({"name": "", "type": 0, "color": 0, "left": -1, "right": -1, "child": -1,
                                   "clsid": "", "bits": "0", "ct": [0,0,0], "mt": [0,0,0], "start": 0, "size": 0});
    for (k, &ds) in dirsecs.iter().enumerate() {
        if let Some(o) = sec_off(ds) {
            for i in 0..dirper {
                let s = slots.get(k * dirper + i).unwrap_or(&blank);
                let e = slot_bytes(s, dict);
                b[o + 128 * i..o + 128 * (i + 1)].copy_from_slice(&e);
            }
        }
    }

    // ---- MiniFAT sectors ----
    let minifat = ints(&lay["minifat"]);
    let mf_pad = lay["minifat_pad"].as_i64().unwrap_or(-1);
    for (k, &ms) in mfsecs.iter().enumerate() {
        if let Some(o) = sec_off(ms) {
            for i in 0..per {
                let v = minifat.get(k * per + i).copied().unwrap_or(mf_pad);
                put_u32(&mut b, o + 4 * i, cell_u32(v));
            }
        }
    }

    // ---- stream data ----
    if let Some(ds) = lay["data"].as_array() {
        for d in ds {
            if let Some(o) = sec_off(d["sec"].as_i64().unwrap_or(-1)) {
                let f = d["fill"].as_u64().unwrap_or(0) as u8;
                for x in b[o..o + slen].iter_mut() {
                    *x = f;
                }
            }
        }
    }
    let miniper = slen / 64;
    for &rs in rootsecs.iter() {
        if let Some(o) = sec_off(rs) {
            for x in b[o..o + slen].iter_mut() {
                *x = 0xCD;
            }
        }
    }
    if let Some(ms) = lay["minidata"].as_array() {
        for d in ms {
            let m = d["mini"].as_i64().unwrap_or(-1);
            if m < 0 {
                continue;
            }
            let m = m as usize;
            if let Some(&rs) = rootsecs.get(m / miniper) {
                if let Some(o) = sec_off(rs) {
                    let f = d["fill"].as_u64().unwrap_or(0) as u8;
                    let st = o + (m % miniper) * 64;
                    for x in b[st..st + 64].iter_mut() {
                        *x = f;
                    }
                }
            }
        }
    }

    // ---- raw byte patches (corruptions below the field level) ----
    if let Some(ps) = lay["patch"].as_array() {
        for p in ps {
            let off = p["off"].as_u64().unwrap_or(0) as usize;
            for (i, v) in ints(&p["bytes"]).iter().enumerate() {
                if off + i < b.len() {
                    b[off + i] = *v as u8;
                }
            }
        }
    }

    // ---- truncation / extension ----
    let delta = lay["flen_delta"].as_i64().unwrap_or(0);
    if delta < 0 {
        let cut = (-delta) as usize;
        let n = b.len().saturating_sub(cut);
        b.truncate(n);
    } else if delta > 0 {
        b.extend(std::iter::repeat(junk).take(delta as usize));
    }
    if let Some(n) = lay["flen_abs"].as_u64() {
        b.resize(n as usize, junk);
    }
    b
}
